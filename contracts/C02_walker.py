"""C02 — the walker computes what Python computes, one node class at a time.  operon_ai/organelles/mitochondria.py::Mitochondria._compute_node

Modular statement: IF the recursive calls return the Python value of the child expressions (the function collaborator `pyeval`, i.e. the
walker's own contract used at its recursive call sites), THEN the value returned for a node of class K is the value the language reference
assigns to K in terms of its children's values.  Operand values are opaque (`any`): Python's operators are deterministic partial functions
of their operands (uninterpreted `any_<Op>` with a success predicate), so what is proved is the DISPATCH: right operator, right operands, right
order, all arguments passed, nothing dropped or rewritten.  Node classes with child lists (Call, List, Tuple, BoolOp, Compare) are proved for
fixed small arities (stated per variant) -- bounded in arity, unbounded in values.  The operator tables themselves are the `tables[...]`
obligations of scan_c01 (C02)."""
from pyvc.spec import *

F = "operon_ai/organelles/mitochondria.py"
T = F + "::Mitochondria"
shape("Mitochondria", tools="dict:str,any")
REC = {"Mitochondria._compute_node": {"function": "pyeval", "returns": "any"}}


def opts(**field_types):
    return {"opaque_any_methods": "deterministic", "field_types": {k.replace("__", "."): v for k, v in field_types.items()}}


shape("Constant", value="any")
contract(T + "._compute_node", "C02", variant="Constant", params={"node": "obj:Constant"}, callbacks=REC, options=opts(), raises=[],
         ensures={"literal-is-returned-unchanged": "result is node.value"})

# ---- binary operators: left operand first, then right, combined by the operator the language reference assigns to the node's op class
BIN = {"Add": "+", "Sub": "-", "Mult": "*", "Div": "/", "FloorDiv": "//", "Mod": "%", "Pow": "**"}
shape("BinOp", left="any", right="any", op="any")
for cls_, sym_ in BIN.items():
    shape(cls_)
    contract(T + "._compute_node", "C02", variant="BinOp-" + cls_, params={"node": "obj:BinOp"}, callbacks=REC,
             options=opts(node__op="obj:" + cls_), raises=["Exception"],
             ensures={"python-" + cls_.lower(): f"result == (self._compute_node(node.left) {sym_} self._compute_node(node.right))"})

# ---- unary operators
shape("UnaryOp", operand="any", op="any")
for cls_, txt_ in {"USub": "-{x}", "UAdd": "+{x}", "Not": "(not {x})"}.items():
    shape(cls_)
    contract(T + "._compute_node", "C02", variant="UnaryOp-" + cls_, params={"node": "obj:UnaryOp"}, callbacks=REC,
             options=opts(node__op="obj:" + cls_), raises=["Exception"],
             ensures={"python-" + cls_.lower(): "result == " + txt_.format(x="self._compute_node(node.operand)")})

# ---- conditional expression: the test decides which ONE branch is evaluated
shape("IfExp", test="any", body="any", orelse="any")
contract(T + "._compute_node", "C02", variant="IfExp", params={"node": "obj:IfExp"}, callbacks=REC, options=opts(), raises=["Exception"],
         ensures={"python-conditional": "result == (self._compute_node(node.body) if self._compute_node(node.test) else self._compute_node(node.orelse))"})

# ---- names: only the allow-listed table
shape("Name", id="str")
contract(T + "._compute_node", "C02", variant="Name", params={"node": "obj:Name"}, callbacks=REC, options=opts(), raises=["ValueError"],
         ensures={"allow-listed-name-yields-its-table-entry": "node.id in self.SAFE_FUNCTIONS"},
         xensures={"unknown-name-is-refused": "node.id not in self.SAFE_FUNCTIONS"})


# ---- calls of allow-listed functions: every positional argument in order, every keyword argument under its name, nothing else (arity-bounded)
# (the allow-list table is typed as an arbitrary map name -> callable for these variants: self.SAFE_FUNCTIONS: dict:str,callback)
shape("keyword", arg="opt:str", value="any")
shape("Call", func="any", args="any", keywords="any")
for npos, nkw in ((0, 0), (1, 0), (2, 0), (3, 0), (0, 1), (1, 1), (2, 1)):
    pos = " and ".join([f"len(args) == {npos}"] + [f"args[{i}] == self._compute_node(node.args[{i}])" for i in range(npos)])
    kws = " and ".join([f"len(kwargs) == {nkw}"] + [f"kwargs[node.keywords[{j}].arg] == self._compute_node(node.keywords[{j}].value)" for j in range(nkw)])
    contract(T + "._compute_node", "C02", variant=f"Call-{npos}pos-{nkw}kw", params={"node": "obj:Call"}, callbacks=REC,
             options=opts(self__SAFE_FUNCTIONS="dict:str,callback", node__func="obj:Name", node__args="tuple:" + ";".join(["any"] * npos) if npos else "tuple:",
                          node__keywords="tuple:" + ";".join(["obj:keyword"] * nkw) if nkw else "tuple:"),
             requires=(["node.keywords[0].arg != node.keywords[1].arg"] if nkw == 2 else []),
             raises=["Exception"],
             callsite_pre={"]": {"all-positional-arguments-in-order": pos, "all-keyword-arguments-under-their-names": kws}},
             ensures={"the-call-result-is-returned": "calls_to(']') == 1 and result is returned(']')"})


# ---- list and tuple displays: every element, in order (arities 0..3)
shape("List", elts="any")
shape("Tuple", elts="any")
for cls_ in ("List", "Tuple"):
    for n_ in (0, 1, 2, 3):
        elems = " and ".join([f"len(result) == {n_}"] + [f"result[{i}] == self._compute_node(node.elts[{i}])" for i in range(n_)])
        contract(T + "._compute_node", "C02", variant=f"{cls_}-{n_}", params={"node": "obj:" + cls_}, callbacks=REC,
                 options=opts(node__elts="tuple:" + ";".join(["any"] * n_)), raises=[],
                 ensures={"every-element-in-order": elems, "right-container-kind": "is_tuple(result)" if cls_ == "Tuple" else "is_list(result)"})

# ---- and / or: the value of the deciding operand (NOT its truth value); all operands are evaluated eagerly by the walker (a deviation towards
# failure only: where Python would short-circuit past a raising operand the walker reports failure, which the statement allows)
shape("BoolOp", op="any", values="any")
shape("And")
shape("Or")
for cls_, word_ in (("And", "and"), ("Or", "or")):
    for n_ in (2, 3):
        expr = f" {word_} ".join(f"self._compute_node(node.values[{i}])" for i in range(n_))
        contract(T + "._compute_node", "C02", variant=f"BoolOp-{cls_}-{n_}", params={"node": "obj:BoolOp"}, callbacks=REC,
                 options=opts(node__op="obj:" + cls_, node__values="tuple:" + ";".join(["any"] * n_)), raises=["Exception"],
                 ensures={"python-" + word_: f"result == ({expr})"})

# ---- comparisons incl. chains: a op1 b op2 c  ==  (a op1 b) and (b op2 c), each operand evaluated once, left to right
CMP = {"Eq": "==", "NotEq": "!=", "Lt": "<", "LtE": "<=", "Gt": ">", "GtE": ">="}
shape("Compare", left="any", ops="any", comparators="any")
for cls_, sym_ in CMP.items():
    shape(cls_)
    contract(T + "._compute_node", "C02", variant="Compare-" + cls_, params={"node": "obj:Compare"}, callbacks=REC,
             options=opts(node__ops="tuple:obj:" + cls_, node__comparators="tuple:any"), raises=["Exception"],
             ensures={"python-" + cls_.lower(): f"result == (self._compute_node(node.left) {sym_} self._compute_node(node.comparators[0]))"})
for (c1, c2) in (("Lt", "LtE"), ("Eq", "Eq"), ("GtE", "NotEq")):
    contract(T + "._compute_node", "C02", variant=f"Compare-chain-{c1}-{c2}", params={"node": "obj:Compare"}, callbacks=REC,
             options=opts(node__ops=f"tuple:obj:{c1};obj:{c2}", node__comparators="tuple:any;any"), raises=["Exception"],
             ensures={"python-chain": f"result == ((self._compute_node(node.left) {CMP[c1]} self._compute_node(node.comparators[0])) and "
                                      f"(self._compute_node(node.comparators[0]) {CMP[c2]} self._compute_node(node.comparators[1])))"})

# ---- anything else is refused
shape("Attribute", value="any", attr="str")
shape("Subscript", value="any", slice="any")
shape("Lambda", body="any")
for cls_ in ("Attribute", "Subscript", "Lambda"):
    contract(T + "._compute_node", "C02", variant="refused-" + cls_, params={"node": "obj:" + cls_}, callbacks=REC, options=opts(), raises=["ValueError"],
             ensures={"never-evaluated": "False"})


def native_replay(rep):
    """node objects are shapes, not real ast nodes: the witness is searched for by the differential check against CPython on generated expressions"""
    import os, sys
    sys.path.insert(0, os.path.dirname(os.path.dirname(os.path.abspath(__file__))))
    from native import c01_bounded
    n, bad, seen = c01_bounded.c02_search(2, 3000)
    if bad is None:
        return {"confirmed": False, "observed": f"no unlisted disagreement with CPython among {n} generated expressions (depth 2)"}
    return {"confirmed": True, "observed": bad, "found_by": f"bounded differential check vs CPython ({n} expressions)"}
