"""C18 — healing / swarm / tool loops stop within their budgets against any generator.
All collaborators are havocked (arbitrary return value or arbitrary Exception) with a ghost call log."""
from pyvc.spec import *

# ------------------------------------------------------------------ ChaperoneLoop.heal
FH = "operon_ai/healing/chaperone_loop.py"
shape("ChaperoneLoop", generator="callback", chaperone="obj:Chaperone", schema="any", max_retries="int",
      confidence_decay="real", silent="bool")
shape("EnhancedFoldedProtein", valid="bool", structure="any", raw_peptide_chain="str", error_trace="opt:str",
      attempts="list:any", confidence="real", coercions_applied="list:str", strategy_used="opt:enum:FoldingStrategy")
shape("HealingResult", outcome="enum:HealingOutcome", folded="opt:obj:EnhancedFoldedProtein", attempts="list:obj:RefoldingAttempt",
      final_confidence="real", ubiquitin_tagged="bool")
shape("RefoldingAttempt", attempt_number="int", raw_output="str", error_trace="opt:str", success="bool", confidence="real")

HEAL_LOOP = "for attempt_num in range(self.max_retries + 1)"

contract(FH + "::ChaperoneLoop.heal", "C18",
         callbacks={"self.generator": {"returns": "str", "raises": ("Exception",)},
                    "Chaperone.fold_enhanced": {"returns": "obj:EnhancedFoldedProtein", "raises": ()},
                    # deterministic text formatter: treated as an opaque function here, its own contract is below
                    "ChaperoneLoop._format_error_context": {"returns": "str", "raises": ()}},
         callsite_pre={
             "self.generator": {
                 "within-budget": "attempt_num >= 0 and attempt_num <= old(self).max_retries",
                 "once-per-attempt": "calls_in_iter('self.generator') == 0",
                 "gets-prompt": "arg0 == old(prompt)",
                 "retry-is-fed-previous-error": "(args[1] is None) == (attempt_num == 0) and args[1] is error_context",
             },
         },
         loops={HEAL_LOOP: {
             "invariant": [
                 "(error_context is None) == (_k == 0)",
                 "len(attempts) == _k",
             ],
             "types": {"attempts": "list:obj:RefoldingAttempt", "error_context": "opt:str"},
             "step": {
                 "error-threaded": "implies(_exit != 'break', calls_in_iter('_format_error_context') == 1 and "
                                   "error_context == returned_in_iter('_format_error_context') and "
                                   "arg_in_iter('_format_error_context', 0) == (returned_in_iter('fold_enhanced').error_trace or 'Unknown folding error') and "
                                   "arg_in_iter('_format_error_context', 1) == returned_in_iter('self.generator') and "
                                   "arg_in_iter('fold_enhanced', 0) == returned_in_iter('self.generator'))",
                 "folds-what-was-generated": "calls_in_iter('fold_enhanced') == 1",
             },
             "property_level": ["error-threaded", "folds-what-was-generated", "(error_context is None) == (_k == 0)"],
         }},
         ensures={
             "healed-means-valid": "implies(result.outcome == HealingOutcome.HEALED or result.outcome == HealingOutcome.VALID_FIRST_TRY, "
                                   "result.folded is not None and result.folded.valid and not result.ubiquitin_tagged)",
             "otherwise-degraded": "implies(result.outcome != HealingOutcome.HEALED and result.outcome != HealingOutcome.VALID_FIRST_TRY, "
                                   "result.outcome == HealingOutcome.DEGRADED and result.ubiquitin_tagged and result.final_confidence == 0 "
                                   "and result.folded is None)",
         })

# ChaperoneLoop._format_error_context is a pure text formatter (one f-string); it is used through the opaque contract above
# ("returns a str, never raises") — an ASSUMED contract: z3's sequence solver needs ~50 s on its len(raw_output) > 200 guard.

# ------------------------------------------------------------------ RegenerativeSwarm
FS = "operon_ai/healing/regenerative_swarm.py"
shape("RegenerativeSwarm", worker_factory="callback", summarizer="callback", entropy_threshold="real",
      max_steps_per_worker="int", max_regenerations="int", step_timeout="opt:timedelta", silent="bool",
      _worker_counter="int", _apoptosis_events="list:any", _regeneration_events="list:any")
shape("ApoptosisEvent", memory_summary="list:str", worker_id="str")
shape("SwarmResult", success="bool", output="opt:str", total_workers_spawned="int", apoptosis_events="list:any",
      regeneration_events="list:any", final_worker_id="any")


def has_marker(o):
    """an output 'carrying a completion marker' (statement): one of the marker words, case-insensitively"""
    return any(m in o.upper() for m in ["SUCCESS", "SOLVED", "COMPLETE", "DONE", "FINISHED"])


contract(FS + "::RegenerativeSwarm._is_success", "C18", raises=[], params={"output": "str"},
         ensures={"marker": "result == has_marker(output)"})

STEP_LOOP = "for _ in range(self.max_steps_per_worker)"
contract(FS + "::RegenerativeSwarm._run_worker", "C18",
         params={"worker": "callback"}, inline=False, returns="opt:str", modifies=[],
         callbacks={"worker.step": {"returns": "str", "raises": ("Exception",)},
                    "RegenerativeSwarm._calculate_entropy": {"returns": "real", "raises": ()}},
         callsite_pre={"worker.step": {"within-budget": "_ >= 0 and _ < old(self).max_steps_per_worker",
                                       "once-per-step": "calls_in_iter('worker.step') == 0"}},
         loops={STEP_LOOP: {"invariant": ["len(recent_outputs) <= 3"], "types": {"recent_outputs": "list:str"}}},
         ensures={"success-carries-marker": "implies(result is not None, has_marker(result))"})

SUP_LOOP = "while regenerations <= self.max_regenerations"
contract(FS + "::RegenerativeSwarm.supervise", "C18",
         callbacks={"self.worker_factory": {"returns": "callback", "raises": ("Exception",)},
                    "RegenerativeSwarm._trigger_apoptosis": {"returns": "obj:ApoptosisEvent", "raises": ("Exception",)}},
         callsite_pre={"self.worker_factory": {"within-budget": "regenerations >= 0 and regenerations <= old(self).max_regenerations",
                                               "once-per-round": "calls_in_iter('self.worker_factory') == 0"}},
         loops={SUP_LOOP: {
             "invariant": ["regenerations >= 0", "regenerations <= max(self.max_regenerations + 1, 0)",
                           "self._worker_counter == old(self)._worker_counter + regenerations"],
             "types": {"memory_hints": "list:str"},
             "decreases": "self.max_regenerations + 1 - regenerations",
             "property_level": ["decreases", "self._worker_counter == old(self)._worker_counter + regenerations",
                                "regenerations <= max(self.max_regenerations + 1, 0)"],
         }},
         ensures={
             "spawn-budget": "self._worker_counter - old(self)._worker_counter <= max(self.max_regenerations + 1, 0)",
             "success-carries-marker": "implies(result.success, result.output is not None and has_marker(result.output))",
             "failure-has-no-output": "implies(not result.success, result.output is None)",
         })

# ------------------------------------------------------------------ Nucleus.transcribe_with_tools
FN = "operon_ai/organelles/nucleus.py"
shape("Nucleus", provider="callback", base_energy_cost="int", transcription_log="list:any")
TOOL_LOOP = "while iterations < max_iterations"
contract(FN + "::Nucleus.transcribe_with_tools", "C18",
         params={"mitochondria": "callback", "config": "any", "max_iterations": "int", "auto_execute": "bool"},
         callbacks={"self.provider.complete_with_tools": {"returns": "tuple:any;list:any", "raises": ("Exception",)},
                    "self.provider.complete": {"returns": "any", "raises": ("Exception",)},
                    "mitochondria.export_tool_schemas": {"returns": "list:any", "raises": ()},
                    "mitochondria.execute_tool_call": {"returns": "any", "raises": ("Exception",)},
                    "self.provider.name": {"returns": "str"}},
         callsite_pre={"complete_with_tools": {"within-budget": "iterations >= 1 and iterations <= old(max_iterations)",
                                               "once-per-round": "calls_in_iter('complete_with_tools') == 0"},
                       "provider.complete": {"single-final-completion": "calls_to('provider.complete') == 0"}},
         loops={TOOL_LOOP: {"invariant": ["iterations >= 0"], "decreases": "max_iterations - iterations", "property_level": ["decreases"],
                            "types": {"current_prompt": "str"}},
                "for call in tool_calls": {"invariant": ["len(tool_results) == _k"], "types": {"tool_results": "list:any"}}},
         ensures={"at-most-one-plain-completion": "calls_to('provider.complete') <= 1"})


# the stuck-worker detector the swarm contract assumes total: its own obligation (and a ratio is a ratio)
contract(FS + "::RegenerativeSwarm._calculate_entropy", "C18", params={"outputs": "list:str"}, raises=[], modifies=[],
         ensures={"in-unit-interval": "result >= 0 and result <= 1"})


def native_replay(rep):
    """budget obligations live inside cut loops: the witness is searched for with the adversary families on the real loops"""
    import os, sys
    sys.path.insert(0, os.path.dirname(os.path.dirname(os.path.abspath(__file__))))
    from native import c18_bounded
    tgt = rep["target"].split("::")[1]
    only = "heal" if "ChaperoneLoop" in tgt else ("supervise" if "Swarm" in tgt else "transcribe")
    n, bad = c18_bounded.search(3, only)
    if bad is None:
        return {"confirmed": False, "observed": f"no budget violation among {n} adversarial runs (limits 0..3)"}
    return {"confirmed": True, "observed": bad, "found_by": f"bounded adversary search ({n} runs)"}
