"""C04 — energy ledger: no overdraft, exact charging, free failures, bounded total spend.

Top-level postconditions are taken from the property statement; shapes/frames from the code
(operon_ai/state/metabolism.py, ATP_Store.__init__).
"""
from pyvc.spec import *

F = "operon_ai/state/metabolism.py"
T = F + "::ATP_Store"

shape("ATP_Store",
      atp="int", max_atp="int", gtp="int", max_gtp="int", nadh="int", max_nadh="int",
      regeneration_rate="real", max_debt="int", debt_interest="real",
      on_state_change="opt:callback", silent="bool",
      _debt="int", _state="enum:MetabolicState", _last_regeneration="datetime",
      _transactions="list:any", _lock="lock",
      _total_consumed="int", _total_regenerated="int", _operations_count="int", _failed_operations="int",
      _regeneration_thread="opt:any", _stop_regeneration="any")

construct("ATP_Store", "operon_ai.state.metabolism", {"budget": 10, "silent": True})


# ---- spec functions (single-expression defs, used symbolically and natively)
def net(s):
    return s.atp + s.gtp + s.nadh - s._debt


def phi(s):
    return s.atp + s.gtp + s.nadh + (s.max_debt - s._debt)


def balances_nonneg(s):
    return s.atp >= 0 and s.gtp >= 0 and s.nadh >= 0 and s._debt >= 0


invariant("ATP_Store", "nonneg", "self.atp >= 0 and self.gtp >= 0 and self.nadh >= 0 and self._debt >= 0")
assume_config("ATP_Store", "capacities",
              "self.max_atp >= 0 and self.max_gtp >= 0 and self.max_nadh >= 0 and self.max_debt >= 0")
# the property grants "interest aside": debt interest is a real in [0, oo)
assume_config("ATP_Store", "interest", "self.debt_interest >= 0")

# `_update_state` computes a ratio only to pick `_state`; the ledger clauses treat `_state` as arbitrary, so the
# quotient is abstracted (sound: more states explored, none fewer) — keeps every query linear.
OPT = {"div": "uninterpreted"}
CB = {"self.on_state_change": {"raises": (), "returns": "any"}, "other.on_state_change": {"raises": (), "returns": "any"}}

contract(T + ".__init__", "C04", is_init=True,
         requires=["budget >= 0", "gtp_budget >= 0", "nadh_reserve >= 0", "max_debt >= 0",
                   "regeneration_rate <= 0"],      # rate > 0 starts a thread: outside the sequential ledger claim
         params={"on_state_change": "opt:callback"},
         raises=[],
         ensures={
             "initial-balances": "self.atp == budget and self.gtp == gtp_budget and self.nadh == nadh_reserve "
                                 "and self._debt == 0",
             "capacities": "self.max_atp == budget and self.max_gtp == gtp_budget and self.max_nadh == nadh_reserve "
                           "and self.max_debt == max_debt",
         })

contract(T + ".consume", "C04",
         requires=["cost >= 0"],
         callbacks=CB, options=OPT,
         raises=[],
         ensures={
             "exact-charge": "implies(result, net(self) == net(old(self)) - cost)",
             "free-failure": "implies(not result, net(self) == net(old(self)) and self._debt == old(self)._debt)",
             "debt-limit": "self._debt <= max(old(self)._debt, self.max_debt)",
             "audit": "self._total_consumed == old(self)._total_consumed + (cost if result else 0)",
             "potential": "phi(self) == phi(old(self)) - (cost if result else 0)",
             "returns-bool": "result is True or result is False",
             "capacity-frame": "self.max_atp == old(self).max_atp and self.max_gtp == old(self).max_gtp and "
                               "self.max_nadh == old(self).max_nadh and self.max_debt == old(self).max_debt",
         })

contract(T + ".regenerate", "C04",
         requires=["amount >= 0"],
         callbacks=CB, options=OPT,
         raises=[],
         inline=False, returns="none",
         modifies=["self.atp", "self.gtp", "self.nadh", "self._debt", "self._total_regenerated", "self._state"],
         ensures={
             "capacity": "self.atp <= max(old(self).atp, self.max_atp) and self.gtp <= max(old(self).gtp, self.max_gtp) "
                         "and self.nadh <= max(old(self).nadh, self.max_nadh)",
             "no-creation": "net(self) <= net(old(self)) + amount",
             "debt-first": "implies(energy_type == EnergyType.ATP and old(self)._debt >= amount, "
                           "self.atp == old(self).atp and self._debt == old(self)._debt - amount)",
             "debt-monotone": "self._debt <= old(self)._debt",
             "other-balances": "implies(energy_type == EnergyType.ATP, self.gtp == old(self).gtp and self.nadh == old(self).nadh)",
         })

contract(T + ".transfer_to", "C04",
         requires=["amount >= 0"],
         callbacks=CB, options=OPT,
         raises=[],
         ensures={
             "no-creation": "net(self) + net(other) <= net(old(self)) + net(old(other))",
             "failure-free": "implies(not result, net(self) == net(old(self)) and net(other) == net(old(other)) "
                             "and self.atp == old(self).atp and self.gtp == old(self).gtp and self.nadh == old(self).nadh)",
             "debit-exact": "implies(result, net(self) == net(old(self)) - amount)",
             "credit-bounded": "net(other) <= net(old(other)) + amount",
             "returns-bool": "result is True or result is False",
         })

contract(T + ".convert_nadh_to_atp", "C04",
         requires=["amount >= 0"],
         raises=[],
         ensures={
             "conserves": "net(self) == net(old(self)) and self._debt == old(self)._debt and self.gtp == old(self).gtp",
             "capacity": "self.atp <= max(old(self).atp, self.max_atp)",
             "result-is-moved": "self.atp == old(self).atp + max(result, 0) and self.nadh == old(self).nadh - max(result, 0)",
         })

contract(T + ".enter_dormancy", "C04", raises=[],
         ensures={"ledger-unchanged": "net(self) == net(old(self)) and self._debt == old(self)._debt and "
                                      "self.atp == old(self).atp and self.gtp == old(self).gtp and self.nadh == old(self).nadh",
                  "dormant": "self._state == MetabolicState.DORMANT"})

contract(T + ".exit_dormancy", "C04", raises=[], callbacks=CB, options=OPT,
         ensures={"ledger-unchanged": "net(self) == net(old(self)) and self._debt == old(self)._debt and "
                                      "self.atp == old(self).atp and self.gtp == old(self).gtp and self.nadh == old(self).nadh"})

contract(T + ".apply_debt_interest", "C04", raises=[],
         ensures={"balances-unchanged": "self.atp == old(self).atp and self.gtp == old(self).gtp and self.nadh == old(self).nadh",
                  "interest-only-on-debt": "implies(old(self)._debt == 0, self._debt == 0)",
                  "debt-grows-only": "self._debt >= old(self)._debt"})

contract(T + ".reset", "C04", raises=[], callbacks=CB, options=OPT,
         ensures={"initial": "self.atp == self.max_atp and self.gtp == self.max_gtp and self.nadh == self.max_nadh "
                             "and self._debt == 0 and self._total_consumed == 0"})

contract(T + ".get_balance", "C04", raises=[],
         ensures={"reads": "result == (self.atp if energy_type == EnergyType.ATP else "
                           "(self.gtp if energy_type == EnergyType.GTP else self.nadh))",
                  "pure": "net(self) == net(old(self))"})
