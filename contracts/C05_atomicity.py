"""C05 — energy store operations are atomic under every thread interleaving.
Contracts cannot explore schedules; they prove the LOCK DISCIPLINE from which atomicity follows for all schedules at once, under the trusted
reduction argument (critical sections of a data-race-free program serialise in lock-acquisition order; not mechanised):
  owns            every read/write of a guarded field happens while self._lock is held
  lock-reentry    the non-reentrant lock is never re-acquired by its holder (every call returns)
  lock-order      no lock is acquired (directly or through a callee) while another lock is held => no set of calls can deadlock
  single-section  all guarded accesses of one public call lie in one critical section => the call's sequential contract (C04) is one atomic step"""
from pyvc.spec import *

F = "operon_ai/state/metabolism.py"
T = F + "::ATP_Store"
shape("ATP_Store",
      atp="int", max_atp="int", gtp="int", max_gtp="int", nadh="int", max_nadh="int", regeneration_rate="real", max_debt="int", debt_interest="real",
      on_state_change="opt:callback", silent="bool", _debt="int", _state="enum:MetabolicState", _last_regeneration="datetime",
      _transactions="list:any", _lock="lock", _total_consumed="int", _total_regenerated="int", _operations_count="int", _failed_operations="int",
      _regeneration_thread="opt:any", _stop_regeneration="any")
construct("ATP_Store", "operon_ai.state.metabolism", {"budget": 10, "silent": True})
assume_config("ATP_Store", "capacities", "self.max_atp >= 0 and self.max_gtp >= 0 and self.max_nadh >= 0 and self.max_debt >= 0")

GUARDED = ["atp", "gtp", "nadh", "_debt", "_state", "_total_consumed", "_total_regenerated", "_operations_count", "_failed_operations", "_transactions"]
LOCKS = {"owned": {"self._lock": GUARDED}, "discipline": True}
CB = {"self.on_state_change": {"raises": (), "returns": "any"}, "other.on_state_change": {"raises": (), "returns": "any"}}
OPT = {"div": "uninterpreted"}

contract(T + ".consume", "C05", requires=["cost >= 0"], callbacks=CB, options=OPT, locks=LOCKS, ensures={})
contract(T + ".regenerate", "C05", requires=["amount >= 0"], callbacks=CB, options=OPT, locks=LOCKS, inline=False, returns="none",
         modifies=["self.atp", "self.gtp", "self.nadh", "self._debt", "self._total_regenerated", "self._state"], ensures={})
contract(T + ".convert_nadh_to_atp", "C05", requires=["amount >= 0"], locks=LOCKS, ensures={})
contract(T + ".transfer_to", "C05", requires=["amount >= 0"], callbacks=CB, options=OPT, locks=LOCKS, ensures={})


def native_replay(rep):
    import os, sys
    sys.path.insert(0, os.path.dirname(os.path.dirname(os.path.abspath(__file__))))
    from native import c05_sched
    n, bad, seen = c05_sched.search()
    if bad is None:
        return {"confirmed": False, "observed": f"no unlisted non-serialisable outcome / unlocked access among {n} schedules"}
    return {"confirmed": True, "observed": bad, "found_by": f"deterministic two-thread scheduler ({n} schedules)"}
