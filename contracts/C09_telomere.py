"""C09 — lifecycle: legal transitions only, Hayflick bound, absorbing end states, no hang.
operon_ai/state/telomere.py::Telomere"""
from pyvc.spec import *

F = "operon_ai/state/telomere.py"
T = F + "::Telomere"

shape("Telomere",
      max_operations="int", max_lifetime="opt:timedelta", idle_timeout="opt:timedelta", error_threshold="int",
      allow_renewal="bool", on_phase_change="opt:callback", on_senescence="opt:callback", silent="bool",
      _telomere_length="int", _phase="enum:LifecyclePhase", _senescence_reason="opt:enum:SenescenceReason",
      _created_at="opt:datetime", _started_at="opt:datetime", _last_activity="opt:datetime", _terminated_at="opt:datetime",
      _operations_count="int", _error_count="int", _renewal_count="int", _events="list:any", _lock="lock",
      true_ticks="int")   # ghost: unit ticks that reported True since the last renew/reset/construction

construct("Telomere", "operon_ai.state.telomere", {"max_operations": 10, "silent": True})

N, A, S, P, X = ("LifecyclePhase.NASCENT", "LifecyclePhase.ACTIVE", "LifecyclePhase.SENESCENT",
                 "LifecyclePhase.APOPTOTIC", "LifecyclePhase.TERMINATED")


def same_or(o, n, pairs):
    return o == n or pairs


invariant("Telomere", "length-in-range", "0 <= self._telomere_length and self._telomere_length <= self.max_operations")
invariant("Telomere", "hayflick", "self.true_ticks >= 0 and self.true_ticks + self._telomere_length <= self.max_operations")
assume_config("Telomere", "limits", "self.max_operations >= 1 and self.error_threshold >= 1")
# an active lifecycle has a start time and a last-activity time: the time limits of check_timeouts are measured from them (without this a
# lifecycle whose start forgot to stamp them would never be forced into senescence by time)
invariant("Telomere", "active-is-stamped", "implies(self._phase == LifecyclePhase.ACTIVE or self._phase == LifecyclePhase.SENESCENT, "
          "self._started_at is not None and self._last_activity is not None)")       # SENESCENT is only entered from ACTIVE and renews back into it
invariant("Telomere", "counters", "self._operations_count >= 0 and self._error_count >= 0")

CB = {"self.on_phase_change": {"raises": (), "returns": "any"}, "self.on_senescence": {"raises": (), "returns": "any"}}
OPT = {"div": "uninterpreted"}     # ratios only select warnings / the (extra) error-rate trigger
KEEP = {"self.true_ticks": "old(self).true_ticks"}


def unchanged(s, o):
    return (s._phase == o._phase and s._telomere_length == o._telomere_length and s._error_count == o._error_count
            and s._operations_count == o._operations_count)


contract(T + ".__init__", "C09", is_init=True,
         requires=["max_operations >= 1", "error_threshold >= 1"],
         params={"on_phase_change": "opt:callback", "on_senescence": "opt:callback"},
         raises=[], ghost_exit={"self.true_ticks": "0"},
         ensures={"starts-nascent-full": "self._phase == LifecyclePhase.NASCENT and self._telomere_length == max_operations"})

contract(T + ".start", "C09", raises=[], callbacks=CB, options=OPT, ghost_exit=KEEP,
         ensures={"legal-transition": "same_or(old(self)._phase, self._phase, old(self)._phase == LifecyclePhase.NASCENT and self._phase == LifecyclePhase.ACTIVE)",
                  "starts-nascent": "implies(old(self)._phase == LifecyclePhase.NASCENT, self._phase == LifecyclePhase.ACTIVE)",
                  "length-unchanged": "self._telomere_length == old(self)._telomere_length"})

contract(T + ".tick", "C09", requires=["cost >= 0"], raises=[], callbacks=CB, options=OPT,
         ghost_exit={"self.true_ticks": "old(self).true_ticks + (1 if (result and cost == 1) else 0)"},
         ensures={
             "legal-transition": "same_or(old(self)._phase, self._phase, "
                                 "(old(self)._phase == LifecyclePhase.NASCENT and (self._phase == LifecyclePhase.ACTIVE or self._phase == LifecyclePhase.SENESCENT)) or "
                                 "(old(self)._phase == LifecyclePhase.ACTIVE and self._phase == LifecyclePhase.SENESCENT))",
             "end-states-never-tick": "implies(old(self)._phase == LifecyclePhase.APOPTOTIC or old(self)._phase == LifecyclePhase.TERMINATED, "
                                      "result is False and unchanged(self, old(self)))",
             "true-iff-active": "(result is True and self._phase == LifecyclePhase.ACTIVE) or (result is False and self._phase != LifecyclePhase.ACTIVE)",
             "shortens-by-cost": "implies(old(self)._phase != LifecyclePhase.APOPTOTIC and old(self)._phase != LifecyclePhase.TERMINATED, "
                                 "self._telomere_length == max(0, old(self)._telomere_length - cost))",
             "depletion-forces-senescence": "implies(self._telomere_length == 0, self._phase != LifecyclePhase.ACTIVE and self._phase != LifecyclePhase.NASCENT)",
             # the idle limit is measured from the last operation: a counted tick is activity
             "a-counted-tick-is-activity": "implies(old(self)._phase != LifecyclePhase.APOPTOTIC and old(self)._phase != LifecyclePhase.TERMINATED, "
                                           "self._last_activity is not None and clock_first() <= self._last_activity and self._last_activity <= clock_last())",
         })

contract(T + ".record_error", "C09", raises=[], callbacks=CB, options=OPT, ghost_exit=KEEP,
         ensures={
             "legal-transition": "same_or(old(self)._phase, self._phase, old(self)._phase == LifecyclePhase.ACTIVE and self._phase == LifecyclePhase.SENESCENT)",
             "error-limit-forces-senescence": "implies(old(self)._phase == LifecyclePhase.ACTIVE and self._error_count >= self.error_threshold, "
                                              "self._phase == LifecyclePhase.SENESCENT and result is False)",
             "error-rate-limit-forces-senescence": "implies(old(self)._phase == LifecyclePhase.ACTIVE and self._operations_count > 0 and "
                                                   "self._error_count / self._operations_count >= self.ERROR_SENESCENCE_RATE, "
                                                   "self._phase == LifecyclePhase.SENESCENT and result is False)",
             "reports-whether-still-active": "result == (self._phase == LifecyclePhase.ACTIVE)",
             "counts": "self._error_count == old(self)._error_count + 1 and self._telomere_length == old(self)._telomere_length",
         })

contract(T + ".heartbeat", "C09", raises=[], ghost_exit=KEEP,
         ensures={"no-transition": "unchanged(self, old(self))",
                  "activity-is-stamped-now": "self._last_activity == clock_first()"})

contract(T + ".check_timeouts", "C09", raises=[], callbacks=CB, options=OPT, ghost_exit=KEEP,
         ensures={
             "legal-transition": "same_or(old(self)._phase, self._phase, old(self)._phase == LifecyclePhase.ACTIVE and self._phase == LifecyclePhase.SENESCENT)",
             "lifetime-forces-senescence": "implies(old(self)._phase == LifecyclePhase.ACTIVE and self.max_lifetime is not None and self.max_lifetime.total_seconds() > 0 "
                                           "and old(self)._started_at is not None and clock_first() - old(self)._started_at >= self.max_lifetime, "
                                           "self._phase == LifecyclePhase.SENESCENT and result is False)",
             "idle-forces-senescence": "implies(old(self)._phase == LifecyclePhase.ACTIVE and self.idle_timeout is not None and self.idle_timeout.total_seconds() > 0 "
                                       "and old(self)._last_activity is not None and clock_first() - old(self)._last_activity >= self.idle_timeout, "
                                       "self._phase == LifecyclePhase.SENESCENT and result is False)",
             "length-unchanged": "self._telomere_length == old(self)._telomere_length",
             "within-its-limits-reports-active": "implies(self._phase == LifecyclePhase.ACTIVE, result is True)",
         })

contract(T + ".renew", "C09", requires=["amount is None or amount >= 0"], params={"amount": "opt:int"},
         raises=[], callbacks=CB, options=OPT,
         ghost_exit={"self.true_ticks": "0 if result else old(self).true_ticks"},
         ensures={
             "legal-transition": "same_or(old(self)._phase, self._phase, old(self)._phase == LifecyclePhase.SENESCENT and self._phase == LifecyclePhase.ACTIVE)",
             "refused-when-disallowed-or-terminated": "implies(not self.allow_renewal or old(self)._phase == LifecyclePhase.TERMINATED, "
                                                      "result is False and unchanged(self, old(self)))",
             "granted-otherwise": "implies(self.allow_renewal and old(self)._phase != LifecyclePhase.TERMINATED, result is True and "
                                  "self._telomere_length >= old(self)._telomere_length)",
             # SENESCENT -> (renewal) ACTIVE: a granted renewal of a senescent lifecycle makes it active again
             "granted-renewal-revives-a-senescent-lifecycle": "implies(result and old(self)._phase == LifecyclePhase.SENESCENT, self._phase == LifecyclePhase.ACTIVE)",
         })

contract(T + ".trigger_apoptosis", "C09", raises=[], callbacks=CB, options=OPT, ghost_exit=KEEP,
         ensures={
             "legal-transition": "(old(self)._phase == LifecyclePhase.TERMINATED and self._phase == LifecyclePhase.TERMINATED) or "
                                 "(old(self)._phase != LifecyclePhase.TERMINATED and self._phase == LifecyclePhase.APOPTOTIC)",
             "length-unchanged": "self._telomere_length == old(self)._telomere_length"})

contract(T + ".terminate", "C09", raises=[], callbacks=CB, options=OPT, ghost_exit=KEEP,
         ensures={"terminated": "self._phase == LifecyclePhase.TERMINATED",
                  "length-unchanged": "self._telomere_length == old(self)._telomere_length"})

contract(T + ".reset", "C09", raises=[], ghost_exit={"self.true_ticks": "0"},
         ensures={"as-constructed": "self._phase == LifecyclePhase.NASCENT and self._telomere_length == self.max_operations "
                                    "and self._error_count == 0 and self._operations_count == 0"})
