"""C20 — immutable configuration: values change only through authorised, logged mutations.
operon_ai/state/genome.py::Genome.  Statements over the whole value map are proved for an ARBITRARY gene name q (ghost parameter)."""
from pyvc.spec import *

F = "operon_ai/state/genome.py"
T = F + "::Genome"

shape("Genome", allow_mutations="bool", mutation_rate="real", on_mutation="opt:callback", silent="bool",
      _genes="dict:str,obj:Gene", _expression="dict:str,obj:ExpressionState", _mutations="list:obj:Mutation",
      _created_at="datetime", _generation="int", _parent_hash="opt:str")
shape("Gene", name="str", value="any", gene_type="enum:GeneType", description="str", required="bool", default_expression="enum:ExpressionLevel")
shape("Mutation", gene_name="str", original_value="any", new_value="any", timestamp="datetime", reason="str", approved="bool")
shape("ExpressionState", level="enum:ExpressionLevel", modified_at="datetime", modifier="str")

construct("Genome", "operon_ai.state.genome", {"silent": True})

APPROVE = {"self.on_mutation": {"returns": "any", "raises": ("Exception",)}}
Q = {"q": "str"}


def value_unchanged(self_now, self_old, q):
    """the stored value of gene q (and whether q is stored at all) is as it was"""
    return ((q in self_now._genes) == (q in self_old._genes)
            and ((q not in self_old._genes) or self_now._genes[q].value == self_old._genes[q].value))


contract(T + ".add_gene", "C20", params={"gene": "obj:Gene"}, ghost_params=Q, raises=[],
         ensures={
             "re-add-refused-unless-enabled": "implies(not self.allow_mutations and gene.name in old(self)._genes, result is False and value_unchanged(self, old(self), q))",
             "other-genes-untouched": "implies(q != gene.name, value_unchanged(self, old(self), q))",
             "added-is-stored": "implies(result, gene.name in self._genes and self._genes[gene.name] is gene)",
             # "exactly the non-silenced ... genes": a gene enters at the expression level it declares (a gene silenced by default is not expressed)
             "added-starts-at-its-declared-expression": "implies(result, gene.name in self._expression and self._expression[gene.name].level == gene.default_expression)",
             "mutation-log-untouched": "len(self._mutations) == len(old(self)._mutations)",
         })

contract(T + ".mutate", "C20", ghost_params=Q, callbacks=APPROVE, params={"new_value": "any"},
         inline=False, returns="bool", modifies=["self._genes", "self._mutations"],
         ensures={
             "unauthorised-changes-nothing": "implies(not result, value_unchanged(self, old(self), q))",
             "authorised-only-when-enabled-or-approved": "implies(result, gene_name in old(self)._genes and (self.allow_mutations or "
                                                         "(self.on_mutation is not None and calls_to('on_mutation') == 1 and truthy(returned('on_mutation')))))",
             "authorised-sets-exactly-that-gene": "implies(result, self._genes[gene_name].value == new_value and implies(q != gene_name, value_unchanged(self, old(self), q)))",
             "every-attempt-on-a-known-gene-is-logged": "implies(gene_name in old(self)._genes, len(self._mutations) == len(old(self)._mutations) + 1 "
                                                        "and self._mutations[-1].gene_name == gene_name and truthy(self._mutations[-1].approved) == result "
                                                        "and self._mutations[-1].original_value == old(self)._genes[gene_name].value)",
             "unknown-gene-refused": "implies(gene_name not in old(self)._genes, result is False and len(self._mutations) == len(old(self)._mutations))",
             "other-attributes-kept": "self._genes[gene_name].gene_type == old(self)._genes[gene_name].gene_type if (result and gene_name in old(self)._genes) else True",
         },
         xensures={"raising-approver-changes-nothing": "value_unchanged(self, old(self), q)"})

def approved_for(m, gene_name):
    return m.gene_name == gene_name and m.approved


RB_LOOP = "for mutation in reversed(self._mutations)"
contract(T + ".rollback_mutation", "C20", ghost_params=dict(Q, jm="int"), callbacks=APPROVE,
         loops={RB_LOOP: {"invariant": ["contract_calls('mutate') == 0", "value_unchanged(self, old(self), q)",
                                        "len(self._mutations) == len(old(self)._mutations)",
                                        # the records visited so far (the newest _k) are not approved mutations of the gene
                                        "implies(len(self._mutations) - _k <= jm and jm < len(self._mutations), not approved_for(self._mutations[jm], gene_name))"],
                          "keep": ["self._mutations", "self._genes"]}},      # only the returning iteration calls mutate (checked: loop-step keep[...])
         ensures={
             "rollback-goes-through-the-gate": "implies(result, contract_calls('mutate') == 1 and contract_arg('mutate', 0) == gene_name)",
             "refused-rollback-changes-nothing": "implies(not result, value_unchanged(self, old(self), q))",
             # the value handed to the gate is the pre-image of the LAST approved mutation of that gene: some logged record i is an approved
             # mutation of the gene, carries that value, and no logged record after it (arbitrary ghost index jm) is one
             "restores-the-value-before-the-last-approved-mutation": "implies(contract_calls('mutate') == 1, exists_index(old(self)._mutations, lambda i: "
                                                                     "contract_arg('mutate', 1) is old(self)._mutations[i].original_value and approved_for(old(self)._mutations[i], gene_name) "
                                                                     "and not (i < jm and jm < len(old(self)._mutations) and approved_for(old(self)._mutations[jm], gene_name))))",
             "an-approved-mutation-is-rolled-back": "implies(0 <= jm and jm < len(old(self)._mutations) and approved_for(old(self)._mutations[jm], gene_name), "
                                                    "contract_calls('mutate') == 1)",
         })

contract(T + ".set_expression", "C20", ghost_params=Q, raises=[], modifies=["self._expression"],
         ensures={"values-and-log-untouched": "value_unchanged(self, old(self), q) and len(self._mutations) == len(old(self)._mutations)"})
contract(T + ".silence_gene", "C20", ghost_params=Q, raises=[], modifies=["self._expression"],
         ensures={"values-and-log-untouched": "value_unchanged(self, old(self), q) and len(self._mutations) == len(old(self)._mutations)"})
contract(T + ".activate_gene", "C20", ghost_params=Q, raises=[], modifies=["self._expression"],
         ensures={"values-and-log-untouched": "value_unchanged(self, old(self), q) and len(self._mutations) == len(old(self)._mutations)"})


def expressed(g, name, ctx_has_name):
    """non-silenced, non-dormant, conditional only when named in the context"""
    e = g._expression.get(name)
    return (not (e is not None and e.level == ExpressionLevel.SILENCED)
            and g._genes[name].gene_type != GeneType.DORMANT
            and (g._genes[name].gene_type != GeneType.CONDITIONAL or ctx_has_name))


EX_LOOP = "for (name, gene) in self._genes.items()"
contract(T + ".express", "C20", params={"context": "opt:dict:str,any"}, ghost_params={"j": "int"}, raises=[], modifies=[],
         loops={EX_LOOP: {
             "invariant": ["implies(0 <= j and j < _k, (nth_key(self._genes, j) in config) == expressed(self, nth_key(self._genes, j), nth_key(self._genes, j) in context) and "
                           "implies(nth_key(self._genes, j) in config, config[nth_key(self._genes, j)] == self._genes[nth_key(self._genes, j)].value))",
                           "implies(0 <= j and j >= _k and j < len(self._genes), nth_key(self._genes, j) not in config)"],
             "types": {"config": "dict:str,any"},
             # dict keys are pairwise distinct (trusted fact about dict iteration), instantiated for the ghost index and the current one
             "assume_at_iter": ["implies(0 <= j and j < len(self._genes) and j != _k, nth_key(self._genes, j) != name)"],
             "property_level": ["implies(0 <= j and j < _k, (nth_key(self._genes, j) in config) == expressed(self, nth_key(self._genes, j), nth_key(self._genes, j) in context) and "
                                "implies(nth_key(self._genes, j) in config, config[nth_key(self._genes, j)] == self._genes[nth_key(self._genes, j)].value))"],
         }},
         ensures={
             "exactly-the-expressed-genes": "implies(0 <= j and j < len(self._genes), (nth_key(self._genes, j) in result) == "
                                            "expressed(self, nth_key(self._genes, j), context is not None and nth_key(self._genes, j) in context))",
             "with-their-stored-values": "implies(0 <= j and j < len(self._genes) and nth_key(self._genes, j) in result, "
                                         "result[nth_key(self._genes, j)] == self._genes[nth_key(self._genes, j)].value)",
         })

contract(T + ".replicate", "C20", params={"mutations": "opt:dict:str,any"}, ghost_params=Q,
         callbacks=dict(APPROVE, **{"Genome.get_hash": {"function": "genome_hash", "returns": "str"}}),
         options={"opaque_ctor": ["Genome"], "opaque_any_methods": True}, modifies=[],
         loops={"for (name, state) in self._expression.items()": {"invariant": ["True"]},
                # every requested mutation is ATTEMPTED on the child (authorised or not: mutate() logs the refused ones as unapproved, see its contract)
                "for (gene_name, new_value) in mutations.items()": {"invariant": ["True"], "exhaustive": True,
                                                                     "step": {"each-requested-mutation-is-attempted": "calls_in_iter('.mutate') == 1 and "
                                                                                                                      "arg_in_iter('.mutate', 0) == gene_name"},
                                                                     "property_level": ["each-requested-mutation-is-attempted"]},
                "for gene_name in child._genes": {"invariant": ["True"]}},
         ensures={"parent-untouched": "value_unchanged(self, old(self), q) and len(self._mutations) == len(old(self)._mutations)",
                  "requested-mutations-are-never-skipped": "implies(mutations is not None and len(mutations) > 0, reached_loop('in mutations.items()'))",
                  "child-is-a-new-genome": "result is not self"})


# ---------------------------------------------------------------- construction: the authorisation settings are the caller's
contract(T + ".__init__", "C20", is_init=True, params={"genes": "none", "on_mutation": "opt:callback"}, raises=[],
         ensures={"authorisation-settings-are-stored-as-given": "self.allow_mutations == allow_mutations and "
                                                                "(on_mutation is None) == (self.on_mutation is None)",
                  "starts-without-history": "len(self._mutations) == 0 and len(self._genes) == 0"})


def native_replay(rep):
    import os, sys
    sys.path.insert(0, os.path.dirname(os.path.dirname(os.path.abspath(__file__))))
    from native import c20_bounded
    if "Genome.validate" in str(rep.get("obligation", "")) or "Genome.get_" in str(rep.get("obligation", "")):
        # read-only entry points: stored values, expression levels, hash and log before and after, on the real Genome
        from operon_ai.state.genome import Genome, Gene, ExpressionLevel
        for required in (False, True):
            for level in list(ExpressionLevel):
                g = Genome(genes=[Gene(name="a", value=1, required=required), Gene(name="b", value="x")], silent=True)
                g.set_expression("a", level)

                def snap():
                    return ({k: v.value for k, v in g._genes.items()}, {k: v.level for k, v in g._expression.items()}, g.get_hash(),
                            len(g._mutations), g.express())
                before = snap()
                g.validate(); g.get_gene("a"); g.get_value("a"); g.get_value("zz", 3)
                if snap() != before:
                    return {"confirmed": True, "found_by": "read-only calls on small genomes",
                            "observed": f"gene a required={required} at {level.name}: validate/get_gene/get_value changed the genome: {before} -> {snap()}"}
    n0, bad0 = c20_bounded.search_readonly()
    if bad0 is not None:
        return {"confirmed": True, "observed": bad0, "found_by": f"read-only entry points with deep snapshots ({n0} cases)"}
    n, bad = c20_bounded.search(3)
    if bad is None:
        return {"confirmed": False, "observed": f"no deviation from the reference value map among {n} operation sequences (depth 3)"}
    return {"confirmed": True, "observed": bad, "found_by": f"bounded operation-sequence enumeration ({n} cases)"}


# ---------------------------------------------------------------- the configuration hash is a function of the stored values only
# "changing expression never changes the hash": get_hash reads nothing but the gene table (a read frame), and the expression operations
# above leave the gene table alone (their `values-and-log-untouched` clauses)
contract(T + ".get_hash", "C20", reads=["self._genes"], raises=["Exception"],     # json.dumps(default=str) of arbitrary user values may raise
         ensures={})

# ---------------------------------------------------------------- read-only entry points: validation and comparison never touch what is stored
def expression_unchanged(self_now, self_old, q):
    """gene q's expression entry (whether there is one, and its level) is as it was"""
    return ((q in self_now._expression) == (q in self_old._expression)
            and ((q not in self_old._expression) or self_now._expression[q].level == self_old._expression[q].level))


contract(T + ".validate", "C20", ghost_params=Q, raises=[], modifies=[],
         loops={"for (name, gene) in self._genes.items()": {"invariant": ["expression_unchanged(self, old(self), q)", "value_unchanged(self, old(self), q)"],
                                                            "types": {"errors": "list:str"},
                                                            "property_level": ["expression_unchanged(self, old(self), q)", "value_unchanged(self, old(self), q)"]}},
         ensures={"verdict-is-no-errors": "result[0] == (len(result[1]) == 0)",
                  "validation-changes-nothing": "value_unchanged(self, old(self), q) and expression_unchanged(self, old(self), q) "
                                                "and len(self._mutations) == len(old(self)._mutations)"})
contract(T + ".get_gene", "C20", params={"name": "str"}, raises=[], modifies=[], ensures={})
contract(T + ".get_value", "C20", params={"name": "str", "default": "any"}, raises=[], modifies=[], ensures={})
