"""C15 — deadlock detection agrees with the real wait-for relation.
operon_ai/coordination/{types,controller,watchdog}.py

Abstract view of the dependency graph: the set of triples (waiter, blocking, resource); statements about the whole view are proved for an
ARBITRARY triple (w0, b0, r0) (ghost parameters)."""
from pyvc.spec import *

FT = "operon_ai/coordination/types.py"
FC = "operon_ai/coordination/controller.py"

shape("DependencyGraph", edges="dict:str,list:tuple:str;str")
shape("ResourceLock", resource_id="str", owner="opt:str", owner_priority="int", hold_count="int", acquired_at="opt:datetime",
      allow_preemption="bool", waiting_list="list:any")
shape("OperationContext", operation_id="str", agent_id="str", priority="int", phase="enum:Phase",
      acquired_resources="dict:str,obj:ResourceLock", created_at="datetime")
shape("CellCycleController", resources="dict:str,obj:ResourceLock", active_operations="dict:str,obj:OperationContext",
      dependency_graph="obj:DependencyGraph", checkpoints="any")
invariant("ResourceLock", "held-iff-owned", "(self.owner is None) == (self.hold_count == 0) and self.hold_count >= 0")

TRIPLE = {"w0": "str", "b0": "str", "r0": "str"}


def in_view(g, w, b, r):
    return w in g.edges and (b, r) in g.edges[w]


contract(FT + "::DependencyGraph.add_dependency", "C15", ghost_params=TRIPLE, raises=[],
         ghost_instances=[{"w0": "waiter", "b0": "blocking", "r0": "resource"}],
         inline=False, returns="none", modifies=["self.edges"],
         ensures={"adds-exactly-that-edge": "in_view(self, w0, b0, r0) == (in_view(old(self), w0, b0, r0) or (w0 == waiter and b0 == blocking and r0 == resource))"})

# remove_all_for_agent(a) removes exactly the triples that mention a as waiter or as blocker: proved below (it used to be an assumed contract);
# inside acquire_resource / release_resource the call is still havocked, because the obligation there is the call-site clause itself
REMOVE_ALL = {"DependencyGraph.remove_all_for_agent": {"returns": "none", "raises": ()},
              "ResourceLock._add_to_waiting": {"returns": "none", "raises": ()}}

contract(FC + "::CellCycleController.acquire_resource", "C15",
         params={"ctx": "obj:OperationContext"}, ghost_params=TRIPLE,
         pre_state={"alias_values": {"ctx.acquired_resources": "self.resources"}}, callbacks=REMOVE_ALL, raises=["ValueError"],
         requires=["implies(resource_id in self.resources, self.resources[resource_id].resource_id == resource_id)"],
         callsite_pre={
             # exactness of the wait-for relation: when op obtains r, only op's OWN wait for r ends; edges in which other operations wait
             # on op (it may still own what they wait for) must survive — remove_all_for_agent drops them
             "remove_all_for_agent": {"keeps-edges-of-operations-waiting-on-the-acquirer": "False"},
         },
         ensures={
             "blocked-adds-the-wait-edge": "implies(result == LockResult.BLOCKED, in_view(self.dependency_graph, ctx.operation_id, "
                                           "self.resources[resource_id].owner, resource_id))",
             "foreign-edges-untouched-when-blocked": "implies(result == LockResult.BLOCKED and not (w0 == ctx.operation_id and r0 == resource_id), "
                                                     "in_view(self.dependency_graph, w0, b0, r0) == in_view(old(self).dependency_graph, w0, b0, r0))",
         })

contract(FC + "::CellCycleController.release_resource", "C15",
         params={"ctx": "obj:OperationContext"}, ghost_params=TRIPLE,
         pre_state={"alias_values": {"ctx.acquired_resources": "self.resources"}}, callbacks=REMOVE_ALL, raises=[],
         callsite_pre={"remove_all_for_agent": {"keeps-edges-of-operations-waiting-on-other-resources-of-the-releaser": "False"}},
         ensures={})

# the other half of exactness for a release: once the releaser has given the resource back, nobody is recorded as waiting on the releaser for it
# (a stale edge makes detect_cycle report deadlocks that are not there).  Uses the contract of remove_all_for_agent, which is proved here:
# the loop over a snapshot of the keys is cut with an invariant over an ARBITRARY triple (w0, b0, r0) in terms of the position at which the
# loop visits w0 (visit_index / in_visit: each key of the snapshot is visited exactly once); the filter comprehension keeps exact membership
# (x in result <=> x in source and b != agent); the invariants are instantiated for the key the iteration visits ("instances").
RM_LOOP = "for waiter in list(self.edges.keys())"
contract(FT + "::DependencyGraph.remove_all_for_agent", "C15", self_type="DependencyGraphD", ghost_params=TRIPLE, raises=[], inline=False, returns="none",
         modifies=["self.edges"],
         ghost_instances=[{"b0": "agent"}],
         loops={RM_LOOP: {
             "invariant": [
                 # keys already visited: only the triples that do not mention the agent as blocker are left
                 "implies(in_visit(w0) and visit_index(w0) < _k, in_view(self, w0, b0, r0) == (in_view(old(self), w0, b0, r0) and w0 != agent and b0 != agent))",
                 # keys still to be visited are as the first step left them, and are still keys
                 "implies(in_visit(w0) and visit_index(w0) >= _k, w0 in self.edges and "
                 "((b0, r0) in self.edges[w0]) == (in_view(old(self), w0, b0, r0) and w0 != agent))",
                 # nothing is added: a key outside the visited set stays outside the view
                 "implies(not in_visit(w0), w0 not in self.edges)",
                 "in_visit(w0) == (w0 in old(self).edges and w0 != agent)"],
             "instances": [{"w0": "waiter"}],
         }},
         ensures={"removes-exactly-the-agents-triples": "in_view(self, w0, b0, r0) == (in_view(old(self), w0, b0, r0) and w0 != agent and b0 != agent)"})
contract(FT + "::DependencyGraph.remove_dependency", "C15", ghost_params=TRIPLE, raises=[], modifies=["self.edges"],
         ensures={"removes-exactly-the-waiters-edges-on-that-blocker":
                  "in_view(self, w0, b0, r0) == (in_view(old(self), w0, b0, r0) and not (w0 == waiter and b0 == blocking))"})
contract(FC + "::CellCycleController.release_resource", "C15", variant="no-stale-edge",
         params={"ctx": "obj:OperationContext"}, ghost_params=TRIPLE,
         pre_state={"alias_values": {"ctx.acquired_resources": "self.resources"}},
         callbacks={"ResourceLock._add_to_waiting": {"returns": "none", "raises": ()}}, raises=[],
         options={"callee_instances": {"DependencyGraph.remove_all_for_agent": [{"b0": "ctx.operation_id", "r0": "resource_id"}]}},
         ensures={"released-resource-has-no-recorded-waiter": "implies(result, not in_view(self.dependency_graph, w0, ctx.operation_id, resource_id))"})


# ---------------------------------------------------------------- the DFS of detect_cycle: stack discipline (the nested closure is the target)
# What is proved: a search that reports nothing leaves `path` and `rec_stack` exactly as it found them (so a later search cannot see stale
# "on the stack" nodes and report a cycle that does not exist), `visited` only grows, and the recursion keeps rec_stack within visited.
# NOT proved (bounded stand-in): completeness of the search and that a reported list is a cycle of the wait-for relation.
shape("DependencyGraphD", edges="dict:str,list:tuple:str;str")
DFS_CLOS = {"self": "obj:DependencyGraphD", "visited": "set:str", "rec_stack": "set:str", "path": "list:str"}
DFS_LOOP = "for (blocking, resource) in self.edges[node]"
contract(FT + "::DependencyGraph.detect_cycle.dfs", "C15", ghost_params={"gx": "str", "gi": "int"},
         options={"closure": DFS_CLOS}, returns="opt:list:str", modifies=["visited", "rec_stack", "path"],
         ghost_instances=[{"gi": "len(path) - 1"}],       # the caller needs the restored path at its own top of stack
         raises=["ValueError"],     # path.index(blocking): that every node on the recursion stack is on the path is not carried (assumption)
         requires=["node not in visited", "implies(gx in rec_stack, gx in visited)"],
         loops={DFS_LOOP: {"invariant": [
             "len(path) == len(old(path)) + 1 and path[len(path) - 1] == node",
             "implies(0 <= gi and gi < len(old(path)), path[gi] == old(path)[gi])",
             "(gx in rec_stack) == (gx in old(rec_stack) or gx == node)",
             "implies(gx in old(visited), gx in visited)",
             "implies(gx in rec_stack, gx in visited)"]}},
         ensures={
             "unsuccessful-search-restores-the-path": "implies(result is None, len(path) == len(old(path)) and "
                                                      "implies(0 <= gi and gi < len(path), path[gi] == old(path)[gi]))",
             "unsuccessful-search-restores-the-stack": "implies(result is None, (gx in rec_stack) == (gx in old(rec_stack)))",
             "visited-only-grows": "implies(gx in old(visited), gx in visited)",
             "stack-stays-within-visited": "implies(result is None, implies(gx in rec_stack, gx in visited))",
         })


def native_replay(rep):
    import os, sys
    sys.path.insert(0, os.path.dirname(os.path.dirname(os.path.abspath(__file__))))
    from native import c15_bounded
    n, bad, seen = c15_bounded.search(4)
    if bad is None:
        return {"confirmed": False, "observed": f"no unlisted disagreement among {n} histories"}
    return {"confirmed": True, "observed": bad, "found_by": f"bounded history enumeration ({n} histories)"}
