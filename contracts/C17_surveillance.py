"""C17 — surveillance acts only on two signals and never softens a critical threat.
operon_ai/surveillance/{tcell,treg,thymus,immune_system,memory}.py"""
from pyvc.spec import *

D = "operon_ai/surveillance/"
shape("BaselineProfile", agent_id="str", output_length_bounds="tuple:real;real", response_time_bounds="tuple:real;real",
      confidence_bounds="tuple:real;real", error_rate_max="real", valid_vocabulary_hashes="set:str", valid_structure_hashes="set:str",
      canary_accuracy_min="real")
shape("MHCPeptide", agent_id="str", timestamp="datetime", output_length_mean="real", output_length_std="real", response_time_mean="real",
      response_time_std="real", vocabulary_hash="str", structure_hash="str", confidence_mean="real", confidence_std="real", error_rate="real",
      error_types="any", canary_accuracy="opt:real")
shape("TCell", profile="obj:BaselineProfile", repeated_anomaly_threshold="int", anergy_threshold="int", state="obj:ActivationState",
      anomaly_count="int", anergy_count="int", manual_flag="opt:str")
shape("ActivationState", agent_id="str", signal1="enum:Signal1", signal1_violations="list:str", signal2="enum:Signal2",
      signal2_evidence="opt:str", anomaly_without_confirmation_count="int", anergy_threshold="int")
shape("ImmuneResponse", agent_id="str", threat_level="enum:ThreatLevel", action="enum:ResponseAction", signal1="enum:Signal1",
      signal2="enum:Signal2", violations="list:str", is_anergic="bool", timestamp="datetime")
shape("ToleranceRecord", agent_id="str", clean_inspections="int", total_inspections="int", last_update="opt:datetime",
      update_tolerance_duration="timedelta", tolerated_violations="set:str")
shape("SuppressionRule", name="str", condition="callback", max_severity="enum:ThreatLevel", duration="opt:timedelta")
shape("SuppressionResult", suppressed="bool", original_action="enum:ResponseAction", modified_action="enum:ResponseAction",
      suppression_reason="opt:str")
shape("RegulatoryTCell", rules="list:obj:SuppressionRule", stability_threshold="int", records="dict:str,obj:ToleranceRecord")
shape("ThreatSignature", agent_id="str", vocabulary_hash="str", structure_hash="str", violation_types="list:str", threat_level="enum:ThreatLevel",
      effective_response="enum:ResponseAction", created_at="datetime", last_accessed="datetime", recall_count="int")
shape("ImmuneSystem", displays="dict:str,obj:MHCDisplay", tcells="dict:str,obj:TCell", thymus="any", treg="obj:RegulatoryTCell",
      memory="obj:ImmuneMemory", min_training_observations="int")
shape("MHCDisplay", agent_id="str", observations="list:any")
shape("ImmuneMemory", signatures="list:obj:ThreatSignature", capacity="int")


def in_baseline(b, p):
    """the trained baseline, from the statement: every statistic inside its bounds, error rate within the maximum, both hashes known"""
    return (b.output_length_bounds[0] <= p.output_length_mean and p.output_length_mean <= b.output_length_bounds[1]
            and b.response_time_bounds[0] <= p.response_time_mean and p.response_time_mean <= b.response_time_bounds[1]
            and b.confidence_bounds[0] <= p.confidence_mean and p.confidence_mean <= b.confidence_bounds[1]
            and p.error_rate <= b.error_rate_max
            and p.vocabulary_hash in b.valid_vocabulary_hashes and p.structure_hash in b.valid_structure_hashes
            and (p.canary_accuracy is None or p.canary_accuracy >= b.canary_accuracy_min))


def rank(a):
    return (0 if a == ResponseAction.IGNORE else (1 if a == ResponseAction.MONITOR else (2 if a == ResponseAction.ISOLATE else
            (3 if a == ResponseAction.SHUTDOWN else 1))))


def acts(t):
    return t == ThreatLevel.CONFIRMED or t == ThreatLevel.CRITICAL


construct("BaselineProfile", "operon_ai.surveillance.thymus", {"agent_id": "a", "output_length_bounds": (0.0, 1.0), "response_time_bounds": (0.0, 1.0), "confidence_bounds": (0.0, 1.0), "error_rate_max": 0.1, "valid_vocabulary_hashes": set(), "valid_structure_hashes": set(), "canary_accuracy_min": 0.5})
construct("TCell", "operon_ai.surveillance.tcell", {"profile": "@new:BaselineProfile"})
construct("RegulatoryTCell", "operon_ai.surveillance.treg", {})

contract(D + "thymus.py::BaselineProfile.check", "C17", params={"peptide": "obj:MHCPeptide"}, raises=[],
         inline=False, returns="list:str", modifies=[],
         ensures={"no-violation-iff-in-baseline": "(len(result) == 0) == in_baseline(self, peptide)"})

contract(D + "tcell.py::TCell.inspect", "C17", params={"peptide": "obj:MHCPeptide"}, raises=[],
         inline=False, returns="obj:ImmuneResponse", modifies=["self.anomaly_count", "self.state"],
         ensures={
             "response-table": "(result.threat_level == ThreatLevel.NONE and result.action == ResponseAction.IGNORE) or "
                               "(result.threat_level == ThreatLevel.SUSPICIOUS and result.action == ResponseAction.MONITOR) or "
                               "(result.threat_level == ThreatLevel.CONFIRMED and result.action == ResponseAction.ISOLATE) or "
                               "(result.threat_level == ThreatLevel.CRITICAL and result.action == ResponseAction.SHUTDOWN)",
             "two-signals-needed": "implies(acts(result.threat_level), not in_baseline(self.profile, peptide) and result.signal2 != Signal2.NONE)",
             "signal2-is-independent-evidence": "implies(result.signal2 != Signal2.NONE, old(self).manual_flag is not None or "
                                                "(peptide.canary_accuracy is not None and peptide.canary_accuracy < self.profile.canary_accuracy_min) or "
                                                "self.anomaly_count >= self.repeated_anomaly_threshold)",
             "inside-baseline-is-no-threat": "implies(in_baseline(self.profile, peptide), result.threat_level == ThreatLevel.NONE and result.action == ResponseAction.IGNORE)",
             "desensitised-watcher-is-silent": "implies(old(self).anergy_count >= old(self).anergy_threshold, result.threat_level == ThreatLevel.NONE "
                                               "and result.action == ResponseAction.IGNORE and self.anomaly_count == old(self).anomaly_count)",
             "isolate-or-shutdown-only-when-acting": "implies(result.action == ResponseAction.ISOLATE or result.action == ResponseAction.SHUTDOWN, acts(result.threat_level))",
         })

RULE_LOOP = "for rule in self.rules"
# the history-carrying state of the watcher (the statement quantifies over resets, false-alarm resets and manual flags): a handled response
# consumes every pending second signal -- the manual flag and the anomaly streak -- so that a later lone anomaly is again unconfirmed
contract(D + "tcell.py::TCell.reset", "C17", raises=[],
         ensures={"no-second-signal-survives-a-handled-response": "self.manual_flag is None and self.anomaly_count == 0 and self.state.signal2 == Signal2.NONE "
                                                                  "and self.state.signal1 == Signal1.SELF",
                  "desensitisation-count-kept": "self.anergy_count == old(self).anergy_count"})
contract(D + "tcell.py::TCell.reset_without_confirmation", "C17", raises=[],
         ensures={"streak-cleared": "self.anomaly_count == 0 and self.state.signal2 == Signal2.NONE and self.state.signal1 == Signal1.SELF",
                  "false-alarm-counts-towards-anergy": "self.anergy_count == old(self).anergy_count + "
                                                       "(1 if (old(self).state.signal1 == Signal1.NON_SELF and old(self).state.signal2 == Signal2.NONE) else 0)"})
contract(D + "tcell.py::TCell.flag_manually", "C17", raises=[],
         ensures={"flag-recorded-only": "self.manual_flag == reason and self.anomaly_count == old(self).anomaly_count and self.anergy_count == old(self).anergy_count"})

contract(D + "treg.py::RegulatoryTCell.evaluate", "C17",
         params={"response": "obj:ImmuneResponse", "record": "obj:ToleranceRecord"},
         # well-formed responses (TCell.inspect's response table): a merely SUSPICIOUS response recommends at most MONITOR
         requires=["response.action != ResponseAction.ALERT",
                   "implies(response.threat_level == ThreatLevel.SUSPICIOUS, rank(response.action) <= 1)"],
         callbacks={"*.condition": {"returns": "any", "raises": ("Exception",)}},
         inline=False, returns="obj:SuppressionResult", modifies=[],
         loops={RULE_LOOP: {"invariant": ["True"]}},
         ensures={
             "critical-never-softened": "implies(response.threat_level == ThreatLevel.CRITICAL, result.modified_action == response.action and not result.suppressed)",
             "at-most-one-step-down": "rank(result.modified_action) == rank(response.action) or rank(result.modified_action) == rank(response.action) - 1",
             "unsuppressed-is-unchanged": "implies(not result.suppressed, result.modified_action == response.action)",
             "response-untouched": "response.threat_level == old(response).threat_level and response.action == old(response).action",
         })

contract(D + "treg.py::RegulatoryTCell._downgrade_action", "C17", raises=[],
         requires=["action != ResponseAction.ALERT"],
         ensures={"one-step": "rank(result) == max(rank(action) - 1, 0)"})

# training installs the trained baseline as THE baseline the agent's watcher judges against (first training and every re-training alike):
# "immediately after successful training on a window, inspecting that same window reports no threat" needs the watcher to use that profile
shape("ImmuneSystemT", displays="dict:str,obj:MHCDisplay", tcells="dict:str,obj:TCell", profiles="dict:str,obj:BaselineProfile", thymus="callback",
      min_training_samples="int")
TRAIN_LOOP = "for _ in range(self.min_training_samples)"
contract(D + "immune_system.py::ImmuneSystem.train_agent", "C17", self_type="ImmuneSystemT", raises=["ValueError"],
         callbacks={"MHCDisplay.generate_peptide": {"returns": "opt:obj:MHCPeptide", "raises": ()},
                    "self.thymus.train": {"returns": "tuple:opt:obj:BaselineProfile;enum:SelectionResult", "raises": ()}},
         loops={TRAIN_LOOP: {"invariant": ["len(samples) == _k"], "types": {"samples": "list:obj:MHCPeptide"}}},
         ensures={"watcher-judges-against-the-trained-baseline": "implies(result == SelectionResult.POSITIVE and returned('thymus.train')[0] is not None, "
                                                                 "agent_id in self.tcells and self.tcells[agent_id].profile is returned('thymus.train')[0] "
                                                                 "and self.profiles[agent_id] is returned('thymus.train')[0])",
                  "failed-training-leaves-the-watcher": "implies(result != SelectionResult.POSITIVE, len(self.tcells) == len(old(self).tcells))"},
         xensures={"only-unregistered-agents-are-refused": "agent_id not in old(self).displays"})

contract(D + "immune_system.py::ImmuneSystem.inspect", "C17",
         callbacks={"MHCDisplay.generate_peptide": {"returns": "opt:obj:MHCPeptide", "raises": ()},
                    "ImmuneMemory.recall_by_hashes": {"returns": "opt:obj:ThreatSignature", "raises": ()},
                    "ImmuneMemory.store": {"returns": "none", "raises": ()},
                    "ToleranceRecord.record_inspection": {"returns": "none", "raises": ()}},
         # registry consistency: a trained agent is a registered agent
         requires=["implies(agent_id in self.tcells, agent_id in self.displays)"],
         raises=["ValueError"],
         ensures={
             # the clause the memory path must meet too: the RETURNED response acts only when the current behaviour violates the baseline
             "acts-only-on-current-violation": "implies(acts(result.threat_level) and calls_to('generate_peptide') == 1 and returned('generate_peptide') is not None, "
                                               "not in_baseline(self.tcells[agent_id].profile, returned('generate_peptide')))",
             "desensitised-watcher-is-silent": "implies(self.tcells[agent_id].anergy_count >= self.tcells[agent_id].anergy_threshold, not acts(result.threat_level))",
             "treg-keeps-threat-level": "implies(returned('TCell.inspect') is not None, result.threat_level == returned('TCell.inspect').threat_level)",
             "treg-lowers-at-most-one-step": "implies(returned('TCell.inspect') is not None, "
                                             "rank(result.action) == rank(returned('TCell.inspect').action) or rank(result.action) == rank(returned('TCell.inspect').action) - 1)",
             "critical-never-softened": "implies(returned('TCell.inspect') is not None and returned('TCell.inspect').threat_level == ThreatLevel.CRITICAL, "
                                        "result.action == returned('TCell.inspect').action)",
         })


# the operator's entry for the manual second signal: it reaches the watcher of exactly that agent (an unknown agent is ignored, nobody else is flagged)
contract(D + "immune_system.py::ImmuneSystem.flag_agent", "C17",
         callbacks={"TCell.flag_manually": {"returns": "none", "raises": ()}}, raises=[],
         ensures={"flags-exactly-the-known-agent": "calls_to('.flag_manually') == (1 if agent_id in self.tcells else 0)"})


def native_replay(rep):
    import os, sys
    sys.path.insert(0, os.path.dirname(os.path.dirname(os.path.abspath(__file__))))
    from native import c17_bounded
    if "ImmuneMemory" in str(rep.get("obligation", "")):
        n, bad = c17_bounded.search_memory()
        if bad is not None:
            return {"confirmed": True, "observed": bad, "found_by": f"bounded memory enumeration ({n} cases)"}
    n, bad = c17_bounded.search(0, 40)
    if bad is None:
        return {"confirmed": False, "observed": f"no violation among {n} generated fingerprints/histories/windows"}
    return {"confirmed": True, "observed": bad, "found_by": f"bounded generation ({n} cases)"}


# ---------------------------------------------------------------- collaborators that ImmuneSystem.inspect assumes total: their own totality obligations
shape("ImmuneMemoryT", signatures="list:obj:ThreatSignature", capacity="int")
contract(D + "treg.py::ToleranceRecord.record_inspection", "C17", raises=[], ensures={})
contract(D + "memory.py::ImmuneMemory.store", "C17", params={"signature": "obj:ThreatSignature"}, raises=[], ensures={})      # incl. pruning at capacity
contract(D + "memory.py::ImmuneMemory.recall_by_hashes", "C17", self_type="ImmuneMemoryT", raises=[],
         loops={"for sig in self.signatures": {"invariant": ["True"]}},
         ensures={"recalled-signature-matches-the-query": "implies(result is not None, result.agent_id == agent_id and result.vocabulary_hash == vocabulary_hash "
                                                          "and result.structure_hash == structure_hash)"})

# the remembered-threat second signal's other entry points: what `recall` hands back really is a stored signature of the queried agent (with equal
# hashes unless a partial match was asked for); pruning by age only removes and reports how many; importing never exceeds the capacity
contract(D + "memory.py::ImmuneMemory.recall", "C17", self_type="ImmuneMemoryT", params={"query": "obj:ThreatSignature", "partial": "bool"}, raises=[],
         loops={"for sig in self.signatures": {"invariant": ["True"]}},
         ensures={"recalled-signature-is-of-the-queried-agent": "implies(result is not None, result.agent_id == query.agent_id)",
                  "exact-recall-matches-both-hashes": "implies(result is not None and not partial, result.vocabulary_hash == query.vocabulary_hash "
                                                      "and result.structure_hash == query.structure_hash)",
                  "memory-keeps-its-size": "len(self.signatures) == len(old(self).signatures)"})
contract(D + "memory.py::ImmuneMemory.prune_old", "C17", self_type="ImmuneMemoryT", params={"max_age": "timedelta"}, raises=[],
         ensures={"removed-count-reported": "result == len(old(self).signatures) - len(self.signatures)",
                  "only-removes": "result >= 0"})
contract(D + "memory.py::ImmuneMemory.import_signatures", "C17", self_type="ImmuneMemoryT", params={"data": "list:dict:str,any"},
         callbacks={"ThreatSignature.from_dict": {"returns": "obj:ThreatSignature", "raises": ("Exception",)}}, raises=["Exception"],
         loops={"for item in data": {"invariant": ["imported >= 0", "len(self.signatures) == len(old(self).signatures) + imported",
                                                   "len(self.signatures) <= max(len(old(self).signatures), self.capacity)"],
                                     "property_level": ["len(self.signatures) <= max(len(old(self).signatures), self.capacity)",
                                                        "len(self.signatures) == len(old(self).signatures) + imported"]}},
         ensures={"imported-count-reported": "result == len(self.signatures) - len(old(self).signatures)",
                  "import-respects-capacity": "len(self.signatures) <= max(len(old(self).signatures), self.capacity)"})

# feeding observations is not an entry to the verdict: it reaches exactly the named agent's display, once, and leaves every trained baseline and
# every watcher (with its pending second signals) alone; an unregistered agent is refused
contract(D + "immune_system.py::ImmuneSystem.record_observation", "C17", self_type="ImmuneSystemT",
         params={"agent_id": "str", "output": "opt:str", "response_time": "real", "confidence": "real", "error": "opt:str"},
         callbacks={"MHCDisplay.record": {"returns": "any", "raises": ()}}, raises=["ValueError"],
         ensures={"recorded-once-for-the-named-agent": "calls_to('.record') == 1 and agent_id in old(self).displays",
                  "baselines-and-watchers-untouched": "len(self.tcells) == len(old(self).tcells) and len(self.profiles) == len(old(self).profiles) "
                                                      "and len(self.displays) == len(old(self).displays)"},
         xensures={"refused-only-when-unregistered": "agent_id not in old(self).displays and calls_to('.record') == 0"})
contract(D + "immune_system.py::ImmuneSystem.record_canary_result", "C17", self_type="ImmuneSystemT", params={"agent_id": "str", "passed": "bool"},
         callbacks={"MHCDisplay.record_canary_result": {"returns": "any", "raises": ()}}, raises=["ValueError"],
         ensures={"recorded-once-for-the-named-agent": "calls_to('.record_canary_result') == 1 and agent_id in old(self).displays",
                  "baselines-and-watchers-untouched": "len(self.tcells) == len(old(self).tcells) and len(self.profiles) == len(old(self).profiles) "
                                                      "and len(self.displays) == len(old(self).displays)"},
         xensures={"refused-only-when-unregistered": "agent_id not in old(self).displays and calls_to('.record_canary_result') == 0"})
shape("ImmuneSystemR", displays="dict:str,obj:MHCDisplay", tcells="dict:str,obj:TCell", profiles="dict:str,obj:BaselineProfile", treg="obj:RegulatoryTCell",
      window_size="int", min_observations="int")
contract(D + "immune_system.py::ImmuneSystem.register_agent", "C17", self_type="ImmuneSystemR", params={"agent_id": "str"},
         callbacks={"RegulatoryTCell.register_agent": {"returns": "any", "raises": ()}}, options={"opaque_ctor": ["MHCDisplay"]}, raises=[],
         ghost_params={"q": "str"},
         ensures={"display-created-for-the-named-agent": "agent_id in self.displays and calls_to('.register_agent') == 1",
                  "other-agents-and-all-baselines-untouched": "implies(q != agent_id, (q in self.displays) == (q in old(self).displays)) and "
                                                              "len(self.tcells) == len(old(self).tcells) and len(self.profiles) == len(old(self).profiles)"})
