"""C13 — waste handling never hangs, stays bounded and accounts for every item.
operon_ai/organelles/lysosome.py::Lysosome (the default digester table is taken from the real __init__ on every run)."""
from pyvc.spec import *

F = "operon_ai/organelles/lysosome.py"
T = F + "::Lysosome"

shape("Lysosome", max_queue_size="int", auto_digest_threshold="int", retention_period="timedelta",
      on_toxic="opt:callback", silent="bool", _queue="list:obj:Waste", _lock="lock",
      _digesters="dict:enum:WasteType,callback", _total_ingested="int", _total_digested="int", _total_recycled="int",
      _by_type="dict:enum:WasteType,int", _recycling_bin="dict:str,any")
shape("Waste", waste_type="enum:WasteType", content="any", source="str", priority="int", created_at="datetime",
      metadata="dict:str,any")
shape("DigestResult", success="bool", recycled="dict:str,any", disposed="int", errors="list:str")

construct("Lysosome", "operon_ai.organelles.lysosome", {"silent": True})

GUARDED = ["_queue", "_total_ingested", "_total_digested", "_total_recycled", "_recycling_bin", "_by_type"]
OWNED = {"owned": {"self._lock": GUARDED}}
CB = {"self.on_toxic": {"raises": ("Exception",), "returns": "any"}}
DEFAULTS = {"from_init": ["_digesters"]}

invariant("Lysosome", "queue-bounded", "len(self._queue) <= self.max_queue_size")
assume_config("Lysosome", "sizes", "self.max_queue_size >= 2 and self.auto_digest_threshold >= 1")
invariant("Lysosome", "all-types-counted", "all(t in self._by_type for t in WasteType)")
invariant("Lysosome", "counters", "self._total_ingested >= 0 and self._total_digested >= 0")

# ---- default digesters
contract(T + "._digest_toxic", "C13", callbacks=CB, params={"waste": "obj:Waste"},
         ensures={"nothing-recycled": "len(result) == 0", "toxic-callback-once": "calls_to('on_toxic') == (0 if self.on_toxic is None else 1)"},
         xensures={"toxic-callback-once": "calls_to('on_toxic') == 1"})
contract(T + "._digest_expired", "C13", params={"waste": "obj:Waste"}, raises=[], ensures={"nothing-recycled": "len(result) == 0"})
contract(T + "._digest_default", "C13", params={"waste": "obj:Waste"}, raises=[], ensures={"nothing-recycled": "len(result) == 0"})

DIGEST_LOOP = "for waste in items_to_process"
contract(T + ".digest", "C13",
         params={"max_items": "opt:int"}, requires=["max_items is None or max_items >= 0"],
         callbacks=CB, pre_state=DEFAULTS, locks=OWNED, raises=[], inline=False, returns="obj:DigestResult",
         modifies=["self._queue", "self._total_digested", "self._total_recycled", "self._recycling_bin"],
         options={"opaque_any_methods": True},
         loops={DIGEST_LOOP: {
             "invariant": ["disposed + len(errors) == _k", "disposed >= 0"],
             "types": {"recycled": "dict:str,any", "errors": "list:str"},
             "step": {
                 "toxic-never-recycled": "implies(waste.waste_type == WasteType.TOXIC_BYPRODUCT, recycled == at_head(recycled))",
                 "toxic-callback-exactly-once": "implies(waste.waste_type == WasteType.TOXIC_BYPRODUCT and self.on_toxic is not None, "
                                                "calls_in_iter('on_toxic') == 1)",
                 "each-item-digested-or-reported": "(disposed == at_head(disposed) + 1 and len(errors) == len(at_head(errors))) or "
                                                   "(disposed == at_head(disposed) and len(errors) == len(at_head(errors)) + 1)",
             },
             "property_level": ["toxic-never-recycled", "toxic-callback-exactly-once", "each-item-digested-or-reported",
                                "disposed + len(errors) == _k"],
         }},
         ensures={
             "every-taken-item-accounted": "len(old(self)._queue) - len(self._queue) == result.disposed + len(result.errors)",
             "digested-counter": "self._total_digested == old(self)._total_digested + result.disposed",
             "takes-at-most-max-items": "implies(max_items is not None and max_items > 0, len(old(self)._queue) - len(self._queue) <= max_items)",
             "takes-all-by-default": "implies(max_items is None, len(self._queue) == 0)",
             "success-iff-no-errors": "result.success == (len(result.errors) == 0)",
             "disposed-nonneg": "result.disposed >= 0",
             "ingested-unchanged": "self._total_ingested == old(self)._total_ingested",
         })

EMERGENCY_LOOP = "for waste in self._queue[:items_to_process]"
EMERGENCY = {EMERGENCY_LOOP: {"invariant": ["self._total_digested >= old(self)._total_digested",
                                            "self._total_digested <= old(self)._total_digested + _k"],
                              "keep": ["self._queue"]}}
contract(T + ".ingest", "C13",
         params={"waste": "obj:Waste"},
         callbacks=CB, pre_state=DEFAULTS, locks=OWNED, raises=[],
         options={"opaque_any_methods": True},
         loops=EMERGENCY,
         ensures={
             "counted": "self._total_ingested == old(self)._total_ingested + 1",
             "never-loses-more-than-digest-paths": "len(self._queue) <= len(old(self)._queue) + 1",
             "emergency-drop-is-half": "implies(len(old(self)._queue) < self.max_queue_size and len(old(self)._queue) + 1 < self.auto_digest_threshold, "
                                       "len(self._queue) == len(old(self)._queue) + 1 and self._total_digested == old(self)._total_digested)",
         })

contract(T + ".ingest_sensitive", "C13", params={"data": "any"},
         callbacks=CB, pre_state=DEFAULTS, raises=[], loops=EMERGENCY,
         options={"opaque_any_methods": True},
         ensures={"counted": "self._total_ingested == old(self)._total_ingested + 1"})

contract(T + ".autophagy", "C13", locks=OWNED, raises=[],
         options={"opaque_filter": True},
         ensures={"expired-count-reported": "result == len(old(self)._queue) - len(self._queue)",
                  "never-grows": "result >= 0",
                  "counters-unchanged": "self._total_ingested == old(self)._total_ingested and self._total_digested == old(self)._total_digested"})


# ---------------------------------------------------------------- construction: the bounds the queue clauses speak about are the caller's
contract(T + ".__init__", "C13", is_init=True, params={"digesters": "none", "on_toxic": "opt:callback"}, raises=[],
         requires=["max_queue_size >= 2", "auto_digest_threshold >= 1"],
         ensures={"bounds-are-stored-as-given": "self.max_queue_size == max_queue_size and self.auto_digest_threshold == auto_digest_threshold",
                  "starts-empty": "len(self._queue) == 0 and self._total_ingested == 0 and self._total_digested == 0"})


# the convenience entry for failures: exactly one item, of the failed-operation kind, goes through ingest (and so through its accounting and bounds)
contract(T + ".ingest_error", "C13", params={"error": "any", "context": "opt:dict:str,any"}, options={"opaque_any_methods": True},
         callbacks={"Lysosome.ingest": {"returns": "any", "raises": ()}},
         callsite_pre={".ingest": {"one-failed-operation-item": "calls_to('.ingest') == 0 and arg0.waste_type == WasteType.FAILED_OPERATION and arg0.source == source"}},
         ensures={"ingested-once": "calls_to('.ingest') == 1"})


# ---- the recycling bin's own entry points: clearing empties the bin and touches neither the queue nor the accounting; reading is pure
contract(T + ".clear_recycling_bin", "C13", raises=[], modifies=["self._recycling_bin"],
         ensures={"bin-emptied": "len(self._recycling_bin) == 0",
                  "queue-and-accounting-untouched": "len(self._queue) == len(old(self)._queue) and self._total_ingested == old(self)._total_ingested "
                                                    "and self._total_digested == old(self)._total_digested and self._total_recycled == old(self)._total_recycled"})
contract(T + ".get_recycled", "C13", params={"key": "opt:str"}, raises=[], modifies=[],
         ensures={"reading-changes-nothing": "len(self._recycling_bin) == len(old(self)._recycling_bin) and len(self._queue) == len(old(self)._queue)"})


def native_replay(rep):
    """queues are symbolic object lists: witnesses (hangs, unlocked writes, bound/accounting breaks) are searched for with
    small configurations and operation sequences on the real Lysosome under a watchdog"""
    import os, sys
    sys.path.insert(0, os.path.dirname(os.path.dirname(os.path.abspath(__file__))))
    from native import c13_bounded
    if rep.get("kind") == "owns":
        # an unlocked access of a guarded field: the witness is a two-thread schedule
        import subprocess, json as _json
        p_ = subprocess.run(["/venv/bin/python", os.path.join(os.path.dirname(os.path.dirname(os.path.abspath(__file__))), "native", "c13_sched.py")],
                            capture_output=True, text=True, timeout=120)
        try:
            o_ = _json.loads(p_.stdout.strip().splitlines()[-1])
            if o_.get("status") == "violation":
                return {"confirmed": True, "observed": o_["detail"], "found_by": f"two-thread schedules ({o_['cases']} cases)"}
        except (IndexError, ValueError):
            pass
    if "._digest_" in str(rep.get("obligation", "")):
        # the per-type digesters: one item of every type with every content shape (incl. a resource whose cleanup raises), digested once or twice
        from operon_ai.organelles.lysosome import Lysosome, Waste, WasteType

        class _Res:
            def __init__(self, bad):
                self.bad = bad

            def cleanup(self):
                if self.bad:
                    raise RuntimeError("cleanup failed")
        contents = [None, "x", {"raw_input": "r" * 300, "error": ValueError("e")}, {"error_type": "T", "context": {"k": 1}}, {"raw_input": 5},
                    _Res(False), _Res(True)]
        for wt in list(WasteType):
            for ci, content in enumerate(contents):
                for rounds in (1, 2):
                    l = Lysosome(max_queue_size=4, auto_digest_threshold=100, silent=True)
                    l.ingest(Waste(waste_type=wt, content=content))
                    errs = 0
                    for _ in range(rounds):
                        errs += len(l.digest().errors)
                    st = (l._total_ingested, len(l._queue), l._total_digested, errs)
                    if st[0] != st[1] + st[2] + st[3]:
                        return {"confirmed": True, "found_by": "one item per waste type x content shape, digested once or twice",
                                "observed": f"{wt.name} item with content#{ci} ({type(content).__name__}) after {rounds} digest call(s): "
                                            f"{st[0]} ingested but {st[1]} queued + {st[2]} digested + {st[3]} digestion errors"}
    n, bad = c13_bounded.search(3)
    if bad is None:
        return {"confirmed": False, "observed": f"no failing history among {n} enumerated (depth 3)"}
    return {"confirmed": True, "observed": bad, "found_by": f"bounded history enumeration ({n} cases)"}


# ---- the remaining default digesters: whatever they extract, they are not an entry to the queue or the accounting -- an item being digested is
# never put back (it would be queued and counted as digested at once) and no counter moves; failures of a resource's own cleanup stay inside
NOQ = {"digester-leaves-queue-and-accounting-alone": "len(self._queue) == len(old(self)._queue) and self._total_ingested == old(self)._total_ingested "
                                                     "and self._total_digested == old(self)._total_digested"}
contract(T + "._digest_orphaned", "C13", params={"waste": "obj:Waste"}, options={"opaque_any_methods": True}, raises=[], ensures=dict(NOQ, **{"nothing-recycled": "len(result) == 0"}))
contract(T + "._digest_misfolded", "C13", params={"waste": "obj:Waste"}, options={"opaque_any_methods": True}, raises=["Exception"], ensures=NOQ)
contract(T + "._digest_failed_op", "C13", params={"waste": "obj:Waste"}, options={"opaque_any_methods": True}, raises=["Exception"], ensures=NOQ)
