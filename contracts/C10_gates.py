"""C10 — prompt-injection gates block every signature hit, stay blocked, and never crash.
operon_ai/organelles/membrane.py::Membrane, operon_ai/surveillance/innate.py::InnateImmunity + validators.

`matches` of a signature is a deterministic function M(signature, content) in the gate proofs (its substring
semantics and the case/embedding lemmas are separate obligations); universal statements over the signature
list are proved for an ARBITRARY index j (ghost parameter), hence for all."""
from pyvc.spec import *

FM = "operon_ai/organelles/membrane.py"
FI = "operon_ai/surveillance/innate.py"
TM = FM + "::Membrane"

shape("Membrane", signatures="list:obj:ThreatSignature", threshold="enum:ThreatLevel", enable_adaptive="bool", rate_limit="opt:int",
      on_threat="opt:callback", silent="bool", _learned_patterns="dict:str,obj:ThreatSignature", _request_times="list:real",
      _blocked_hashes="set:str", _rate_lock="lock", _audit_log="list:any", _total_filtered="int", _total_blocked="int")
shape("ThreatSignature", pattern="str", level="enum:ThreatLevel", description="str", is_regex="bool", _compiled="opt:callback")
shape("Signal", content="str", source="str", metadata="dict:str,any")
shape("FilterResult", allowed="bool", threat_level="enum:ThreatLevel", matched_signatures="list:obj:ThreatSignature",
      sanitized_content="opt:str", audit_hash="str", processing_time_ms="real")

construct("Membrane", "operon_ai.organelles.membrane", {"silent": True})

MATCH = {"ThreatSignature.matches": {"function": "M_sig", "returns": "bool"},
         "self.on_threat": {"raises": (), "returns": "any"}}


def h16(c):
    import hashlib
    return hashlib.sha256(c.encode("utf-8", "surrogatepass")).hexdigest()[:16]


def same_signature(sig, pattern, level, is_regex):
    """the stored signature detects what the given one detects: same pattern text, same kind (substring / regex), same level"""
    return sig.pattern == pattern and sig.level == level and sig.is_regex == is_regex


# every ThreatSignature that exists was built by its constructor, which compiles a regex pattern or raises (class invariant, assumed for
# pre-state objects; __post_init__ is the only place that sets _compiled)
invariant("ThreatSignature", "regex-patterns-compile", "implies(self.is_regex, compiles(self.pattern))")
invariant("Membrane", "rate-window-bounded", "self.rate_limit is None or len(self._request_times) <= max(self.rate_limit, 0)")

SIG_LOOP = "for sig in self.signatures"
LEARNED_LOOP = "for sig in self._learned_patterns.values()"
construct("ThreatSignature", "operon_ai.organelles.membrane", {"pattern": "p", "level": "@enum:ThreatLevel.DANGEROUS", "description": "d"})
construct("TLRPattern", "operon_ai.surveillance.innate", {"pattern": "p", "category": "@enum:PAMPCategory.INSTRUCTION_OVERRIDE", "description": "d"})
construct("JSONValidator", "operon_ai.surveillance.innate", {})
construct("LengthValidator", "operon_ai.surveillance.innate", {})
construct("InnateImmunity", "operon_ai.surveillance.innate", {"silent": True})

contract(TM + "._check_rate_limit", "C10", raises=[], inline=False, returns="bool", modifies=["self._request_times"],
         locks={"owned": {"self._rate_lock": ["_request_times"]}},
         ensures={"no-limit-admits": "implies(self.rate_limit is None, result is False)",
                  "admission-appends-exactly-one": "implies(result is False and self.rate_limit is not None, len(self._request_times) <= len(old(self)._request_times) + 1 "
                                                   "and len(self._request_times) >= 1 and len(self._request_times) <= self.rate_limit)",
                  "refusal-when-window-full": "implies(result is True, self.rate_limit is not None and len(self._request_times) >= self.rate_limit)"})

contract(TM + ".filter", "C10", params={"signal": "obj:Signal"},
         callbacks=MATCH, ghost_params={"j": "int", "j2": "int"}, raises=[],
         loops={
             SIG_LOOP: {"invariant": [
                 "implies(0 <= j and j < _k and self.signatures[j].matches(content), self.signatures[j].level.value <= max_level.value)",
                 "max_level.value >= 0"],
                 "types": {"matched": "list:obj:ThreatSignature"},
                 "property_level": ["implies(0 <= j and j < _k and self.signatures[j].matches(content), self.signatures[j].level.value <= max_level.value)"]},
             LEARNED_LOOP: {"invariant": [
                 "implies(0 <= j and j < len(self.signatures) and self.signatures[j].matches(content), self.signatures[j].level.value <= max_level.value)",
                 "implies(0 <= j2 and j2 < _k and nth_value(self._learned_patterns, j2).matches(content), "
                 "nth_value(self._learned_patterns, j2).level.value <= max_level.value)"],
                 "types": {"matched": "list:obj:ThreatSignature"},
                 "property_level": ["implies(0 <= j2 and j2 < _k and nth_value(self._learned_patterns, j2).matches(content), "
                                    "nth_value(self._learned_patterns, j2).level.value <= max_level.value)"]},
         },
         ensures={
             "allowed-only-below-threshold": "implies(result.allowed, result.threat_level.value < self.threshold.value)",
             "every-matching-builtin-or-custom-signature-is-below-threshold": "implies(result.allowed and 0 <= j and j < len(self.signatures) and "
                                                                             "self.signatures[j].matches(signal.content), self.signatures[j].level.value < self.threshold.value)",
             "every-matching-learned-signature-is-below-threshold": "implies(result.allowed and 0 <= j2 and j2 < len(self._learned_patterns) and "
                                                                    "nth_value(self._learned_patterns, j2).matches(signal.content), "
                                                                    "nth_value(self._learned_patterns, j2).level.value < self.threshold.value)",
             "memory-precedes-rules": "implies(h16(signal.content) in old(self)._blocked_hashes, not result.allowed)",
             "rate-limited-is-blocked": "implies(returned('_check_rate_limit') is True, not result.allowed)",
             "signature-block-is-remembered": "implies(not result.allowed and returned('_check_rate_limit') is False, h16(signal.content) in self._blocked_hashes)",
             "every-decision-audited": "len(self._audit_log) == len(old(self)._audit_log) + 1",
         })

contract(TM + ".learn_threat", "C10", raises=["error"],
         ensures={"learned-is-scanned": "implies(self.enable_adaptive, pattern in self._learned_patterns and same_signature(self._learned_patterns[pattern], pattern, level, is_regex))",
                  "memory-kept": "implies(True, len(self._blocked_hashes) == len(old(self)._blocked_hashes))"})
contract(TM + ".import_antibodies", "C10", params={"antibodies": "list:obj:ThreatSignature"}, raises=[],
         loops={"for ab in antibodies": {"invariant": ["True"], "step": {"imported-is-scanned": "ab.pattern in self._learned_patterns and "
                                                                                                "same_signature(self._learned_patterns[ab.pattern], ab.pattern, ab.level, ab.is_regex)"},
                                         "property_level": ["imported-is-scanned"]}},
         ensures={})
contract(TM + ".set_threshold", "C10", raises=[],
         ensures={"memory-survives-relaxed-rules": "self.threshold == threshold and len(self._blocked_hashes) == len(old(self)._blocked_hashes)"})
contract(TM + ".forget_threat", "C10", raises=[],
         ensures={"memory-survives-forgetting": "len(self._blocked_hashes) == len(old(self)._blocked_hashes) and pattern not in self._learned_patterns"})

# ---------------------------------------------------------------- substring signatures: semantics + case/embedding lemmas
contract(FM + "::ThreatSignature.matches", "C10", raises=[], callbacks={"self._compiled.search": {"returns": "any", "raises": ()}},
         ensures={"substring-semantics": "implies(not self.is_regex, result == (self.pattern.lower() in content.lower()))"})
contract(FI + "::TLRPattern.matches", "C10", raises=[], callbacks={"self._compiled.search": {"returns": "any", "raises": ()}},
         ensures={"substring-semantics": "implies(not self.is_regex, result == (self.pattern.lower() in content.lower()))"})
shape("TLRPattern", pattern="str", category="enum:PAMPCategory", description="str", is_regex="bool", severity="int", _compiled="opt:callback")

# ---------------------------------------------------------------- innate immunity
shape("InnateImmunity", patterns="list:obj:TLRPattern", validators="list:callback", severity_threshold="int",
      inflammation_decay="timedelta", on_inflammation="opt:callback", silent="bool", inflammation_state="any",
      _check_count="int", _block_count="int")
shape("InflammationResponse", level="enum:InflammationLevel")
shape("InnateCheckResult", allowed="bool", matched_patterns="list:obj:TLRPattern", structural_errors="list:str",
      inflammation="obj:InflammationResponse", processing_time_ms="real")
PAT_LOOP = "for pattern in self.patterns"
VAL_LOOP = "for validator in self.validators"
contract(FI + "::InnateImmunity.check", "C10",
         callbacks={"TLRPattern.matches": {"function": "M_tlr", "returns": "bool"},
                    "*.validate": {"returns": "tuple:bool;opt:str", "raises": ()},
                    "InnateImmunity._evaluate_inflammation": {"returns": "obj:InflammationResponse", "raises": ()},
                    "self.on_inflammation": {"raises": (), "returns": "any"}},
         ghost_params={"j": "int"}, raises=[],
         loops={PAT_LOOP: {"invariant": ["implies(0 <= j and j < _k and self.patterns[j].matches(content), self.patterns[j].severity <= max_severity)",
                                         "max_severity >= 0"],
                           "types": {"matched_patterns": "list:obj:TLRPattern"},
                           "property_level": ["implies(0 <= j and j < _k and self.patterns[j].matches(content), self.patterns[j].severity <= max_severity)"]},
                VAL_LOOP: {"invariant": ["implies(0 <= j and j < len(self.patterns) and self.patterns[j].matches(content), self.patterns[j].severity <= max_severity)",
                                         "len(structural_errors) >= 0"],
                           "types": {"structural_errors": "list:str"},
                           "step": {"rejection-with-reason-is-recorded": "implies(not truthy(returned_in_iter('validate')[0]) and truthy(returned_in_iter('validate')[1]), "
                                                                         "len(structural_errors) == len(at_head(structural_errors)) + 1)"},
                           "property_level": ["rejection-with-reason-is-recorded"]}},
         ensures={
             "allowed-needs-all-three": "implies(result.allowed, len(result.structural_errors) == 0)",
             "every-matching-pattern-below-threshold": "implies(result.allowed and 0 <= j and j < len(self.patterns) and self.patterns[j].matches(content), "
                                                       "self.patterns[j].severity < self.severity_threshold)",
         })

# the inflammation bookkeeping InnateImmunity.check assumes total: its own totality obligation (only the user's callback may raise)
shape("InnateImmunityE", patterns="list:obj:TLRPattern", validators="list:callback", severity_threshold="int", inflammation_decay="timedelta",
      on_inflammation="opt:callback", silent="bool", inflammation_state="obj:InflammationState", _check_count="int", _block_count="int")
shape("InflammationState", level="enum:InflammationLevel", triggered_at="opt:datetime", trigger_count="int", cooldown_until="opt:datetime", recent_alerts="list:str")
contract(FI + "::InnateImmunity._evaluate_inflammation", "C10", self_type="InnateImmunityE",
         params={"patterns": "list:obj:TLRPattern", "errors": "list:str"}, raises=[],
         callbacks={"self.on_inflammation": {"raises": (), "returns": "any"}},
         loops={"for p in patterns": {"invariant": ["True"]}},
         ensures={})

# ---------------------------------------------------------------- shipped structural validators: total, and a rejection carries a reason
shape("JSONValidator", max_depth="int", max_size="int")
shape("LengthValidator", min_length="int", max_length="int")
contract(FI + "::JSONValidator.validate", "C10", raises=[],
         callbacks={"JSONValidator._measure_depth": {"returns": "int", "raises": ("RecursionError",)}},
         ensures={"rejection-carries-reason": "implies(not result[0], result[1] is not None)",
                  # "no structural validator rejects it": what the shipped JSON validator is configured to reject, it rejects
                  "oversize-is-rejected": "implies(len(content) > self.max_size, result[0] is False)",
                  "unparseable-is-rejected": "implies(not json_ok(content), result[0] is False)",
                  "too-deep-is-rejected": "implies(calls_to('_measure_depth') == 1 and not raised('_measure_depth') and returned('_measure_depth') > self.max_depth, "
                                          "result[0] is False)"})
contract(FI + "::LengthValidator.validate", "C10", raises=[],
         ensures={"rejection-carries-reason": "implies(not result[0], result[1] is not None)",
                  "accepts-exactly-in-range": "result[0] == (len(content) >= self.min_length and len(content) <= self.max_length)"})

# ---------------------------------------------------------------- case / embedding lemmas for substring signatures
# A-ascii: lower() is a monoid homomorphism (lower(a+c+b) = lower(a)+lower(c)+lower(b)) and lower(swapcase(c)) = lower(c);
# under it a substring match survives embedding in benign text and case changes:
lemma("C10", "substring-match-survives-embedding", {"p": "str", "c": "str", "a": "str", "b": "str"},
      ["p in c"], "p in (a + c + b)", "p, c stand for the lowered pattern and content")


# ---------------------------------------------------------------- construction: threshold and rate limit are the caller's; the innate signatures are always scanned
contract(TM + ".__init__", "C10", is_init=True, params={"signatures": "none", "rate_limit": "opt:int", "on_threat": "opt:callback"}, raises=[],
         ensures={"threshold-and-limit-are-stored-as-given": "self.threshold == threshold and self.enable_adaptive == enable_adaptive and "
                                                             "(rate_limit is None) == (self.rate_limit is None) and implies(rate_limit is not None, self.rate_limit == rate_limit)",
                  "innate-signatures-are-installed": "len(self.signatures) == len(Membrane.INNATE_SIGNATURES)",
                  "starts-without-memory": "len(self._blocked_hashes) == 0 and len(self._learned_patterns) == 0"})
# registration entry points: what is registered is scanned (appended to the list the gates iterate over, nothing replaced)
contract(TM + ".add_signature", "C10", params={"signature": "obj:ThreatSignature"}, raises=[], modifies=["self.signatures"],
         ensures={"the-signature-is-appended": "len(self.signatures) == len(old(self).signatures) + 1 and self.signatures[len(self.signatures) - 1] is signature"})
contract(FI + "::InnateImmunity.add_pattern", "C10", params={"pattern": "obj:TLRPattern"}, raises=[], modifies=["self.patterns"],
         ensures={"the-pattern-is-appended": "len(self.patterns) == len(old(self).patterns) + 1 and self.patterns[len(self.patterns) - 1] is pattern"})
contract(FI + "::InnateImmunity.add_validator", "C10", params={"validator": "callback"}, raises=[], modifies=["self.validators"],
         ensures={"the-validator-is-appended": "len(self.validators) == len(old(self).validators) + 1"})

# "... no active signature (built-in, CUSTOM, learned or imported) ...": the caller's signatures are installed after the innate ones
# (per shape: one and two custom signatures, arbitrary signature objects; list.extend over a symbolic-length list is outside the engine)
for _n in (1, 2):
    contract(TM + ".__init__", "C10", is_init=True, variant=f"{_n}-custom-signatures",
             params={"signatures": "tuple:" + ";".join(["obj:ThreatSignature"] * _n), "rate_limit": "opt:int", "on_threat": "opt:callback"}, raises=[],
             ensures={"custom-signatures-are-installed-after-the-innate-ones":
                      f"len(self.signatures) == len(Membrane.INNATE_SIGNATURES) + {_n} and " +
                      " and ".join(f"self.signatures[len(Membrane.INNATE_SIGNATURES) + {i}] is signatures[{i}]" for i in range(_n))})


def native_replay(rep):
    import os, sys
    sys.path.insert(0, os.path.dirname(os.path.dirname(os.path.abspath(__file__))))
    from native import c10_bounded
    n, bad = c10_bounded.search(quick=True, first="innate" if "innate.py" in rep.get("target", "") else None)
    if bad is None:
        return {"confirmed": False, "observed": f"no violation among {n} generated inputs/histories"}
    return {"confirmed": True, "observed": bad, "found_by": f"bounded input/history generation ({n} cases)"}

# exporting learned signatures is a read: nothing the membrane decides with is changed by it
contract(TM + ".export_antibodies", "C10", raises=[], modifies=[], ensures={})
