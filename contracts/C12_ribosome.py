"""C12 — template rendering follows the documented grammar; bound values stay data.  operon_ai/organelles/ribosome.py::Ribosome
The opacity clause is the taint/ownership contract checked by pyvc/scan_c12.py; conformance to the grammar is the bounded stand-in
(regex matching semantics are external).  This file carries the deductive contract of the entry point."""
from pyvc.spec import *

F = "operon_ai/organelles/ribosome.py"
T = F + "::Ribosome"
shape("Ribosome", templates="dict:str,obj:mRNA", filters="dict:str,callback", strict="bool", silent="bool", _translations_count="int", _errors_count="int")
shape("mRNA", sequence="str", name="str", description="str")
shape("Protein", sequence="str", source_mrna="str", variables_bound="any", warnings="list:str")

PASSES = {"Ribosome._process_conditionals": {"function": "pass_conditionals", "returns": "str"},
          "Ribosome._process_loops": {"function": "pass_loops", "returns": "str"},
          "Ribosome._process_includes": {"function": "pass_includes", "returns": "str"},
          "Ribosome._process_variables": {"function": "pass_variables", "returns": "str"},
          "mRNA.get_required_variables": {"returns": "list:str", "raises": ()}}
REQ_LOOP = "for var_name in mrna.get_required_variables()"
contract(T + ".translate", "C12", params={"template": "union:str|obj:mRNA"}, callbacks=PASSES, raises=["ValueError"],
         loops={REQ_LOOP: {"invariant": ["len(warnings) <= _k", "self._errors_count == old(self)._errors_count"], "types": {"warnings": "list:str"},
                           "step": {"missing-variable-is-warned": "implies(var_name not in context, len(warnings) == len(at_head(warnings)) + 1)"},
                           "property_level": ["missing-variable-is-warned"]}},
         ensures={
             "passes-compose-in-the-documented-order": "result.sequence == self._process_variables(self._process_includes(self._process_loops("
                                                       "self._process_conditionals(mrna.sequence, context), context), context), context, result.warnings)",
             "known-template-only": "implies(is_str(template), template in self.templates)",
         },
         xensures={
             "error-only-for-unknown-template-or-strict-missing": "(is_str(template) and template not in old(self).templates) or self.strict",
             "errors-are-counted": "self._errors_count == old(self)._errors_count + 1",
         })


# template analysis: every match of the three variable forms contributes exactly one codon -- required exactly for the plain form {{x}} -- and the
# accumulated list is what the template keeps ("missing variables are reported": get_required_variables reads these codons)
shape("Codon", codon_type="enum:CodonType", name="str", default="opt:str", required="bool")


def _codon_step(req):
    return {"invariant": ["len(codons) >= 0"], "types": {"codons": "list:obj:Codon"},
            "step": {"one-codon-per-match": "len(codons) == len(at_head(codons)) + 1 and codons[len(codons) - 1].required is %s and "
                                            "codons[len(codons) - 1].codon_type == CodonType.VARIABLE" % req},
            "property_level": ["one-codon-per-match"], "exhaustive": True}


contract(F + "::mRNA._detect_codons", "C12", raises=[], callbacks={"*.group": {"returns": "str", "raises": ()}},
         loops={"for match in re.finditer('\\\\{\\\\{(\\\\w+)\\\\}\\\\}', self.sequence)": _codon_step("True"),
                "for match in re.finditer('\\\\{\\\\{\\\\?(\\\\w+)\\\\}\\\\}', self.sequence)": _codon_step("False"),
                "for match in re.finditer('\\\\{\\\\{(\\\\w+)\\\\|([^}]*)\\\\}\\\\}', self.sequence)": _codon_step("False")},
         ensures={"every-detected-codon-is-returned": "is_bound('codons') and result is codons"})

# template registration: the template object rendered later under a name is the one registered under it; other names are untouched
contract(F + "::Ribosome.register_template", "C12", params={"template": "obj:mRNA", "name": "opt:str"}, raises=["ValueError"], modifies=["self.templates"],
         ghost_params={"q": "str"},
         ensures={"registered-under-the-given-name": "implies(name is not None and len(name) > 0, name in self.templates and self.templates[name] is template)",
                  "other-templates-untouched": "implies(q != (name if (name is not None and len(name) > 0) else template.name), "
                                               "(q in self.templates) == (q in old(self).templates))"},
         xensures={"a-nameless-template-is-refused": "(name is None or len(name) == 0) and len(template.name) == 0"})


# the convenience front end: the template that reaches the registry carries exactly the given text and name (nothing is rewritten on the way in)
contract(F + "::Ribosome.create_template", "C12", params={"sequence": "str", "name": "str", "description": "str"},
         callbacks={"Ribosome.register_template": {"returns": "any", "raises": ("ValueError",)},
                    "mRNA._detect_codons": {"returns": "list:any", "raises": ()}}, raises=["ValueError"],
         callsite_pre={".register_template": {"registers-the-text-as-given": "calls_to('.register_template') == 0 and arg0.sequence == sequence and arg0.name == name"}},
         ensures={"registered-once-and-returned": "calls_to('.register_template') == 1 and result.sequence == sequence and result.name == name"})


def native_replay(rep):
    import os, sys
    sys.path.insert(0, os.path.dirname(os.path.dirname(os.path.abspath(__file__))))
    from native import c12_bounded
    if str(rep.get("target", "")).endswith("Ribosome.create_template"):
        # the front end on texts with edge whitespace, braces, empty text: what is registered and returned carries the given text and name
        from operon_ai.organelles.ribosome import Ribosome
        for seq in ("", "x", " x", "x ", "\n{{a}}\n", "  {{#if a}} y {{/if}}  ", "{{>inc}}", "\t", "A{{a|upper}}"):
            for name in ("t", " t ", "T{{a}}"):
                r = Ribosome(silent=True)
                t = r.create_template(seq, name, "d")
                reg = r.templates.get(name)
                if t.sequence != seq or t.name != name or reg is not t:
                    return {"confirmed": True, "found_by": "create_template on edge texts",
                            "observed": f"create_template({seq!r}, {name!r}) -> sequence {t.sequence!r}, name {t.name!r}, registered under the name: {reg is t}"}
    n, bad, seen = c12_bounded.search(0, 200)
    if bad is None:
        return {"confirmed": False, "observed": f"no unlisted disagreement among {n} generated templates"}
    return {"confirmed": True, "observed": bad, "found_by": f"bounded template generation ({n} cases)"}


# ---------------------------------------------------------------- per-slot substitution contracts (the closures handed to re.sub)
# The nested replacement functions are verified with their free variables (context, warnings, self) as arbitrary inputs and the regex
# match object as an opaque object whose .group(n) is a deterministic function of n.  What is proved is the value substituted for ONE
# slot; that re.sub calls the function once per non-overlapping match, left to right, is the (external) regex contract.
GROUP = {"match.group": {"function": "match_group", "returns": "str"}}
CLOS = {"self": "obj:Ribosome", "context": "dict:str,any", "warnings": "list:str"}
PV = T + "._process_variables"
contract(PV + ".replace_optional", "C12", params={"match": "callback"}, callbacks=GROUP, raises=[], options={"closure": CLOS},
         ensures={"bound-optional-renders-its-value": "implies(match.group(1) in context, result == str(context[match.group(1)]))",
                  "unbound-optional-renders-empty": "implies(match.group(1) not in context, result == '')",
                  "no-warning": "len(warnings) == len(old(warnings))"})
contract(PV + ".replace_simple", "C12", params={"match": "callback"}, callbacks=GROUP, raises=[], options={"closure": CLOS},
         ensures={"bound-variable-renders-its-value": "implies(match.group(1) in context, result == str(context[match.group(1)]) and len(warnings) == len(old(warnings)))",
                  "unbound-variable-is-kept-and-warned": "implies(match.group(1) not in context, result == match.group(0) and len(warnings) == len(old(warnings)) + 1)"})
contract(PV + ".replace_filtered", "C12", params={"match": "callback"}, raises=["Exception"], options={"closure": CLOS},    # a registered filter may raise
         callbacks=GROUP,
         ensures={"unbound-is-left-for-later-passes": "implies(match.group(1) not in context, result == match.group(0))",
                  "unknown-filter-renders-plain-value-and-warns": "implies(match.group(1) in context and match.group(2) not in self.filters, "
                                                                  "result == str(context[match.group(1)]) and len(warnings) == len(old(warnings)) + 1)"})


# ---------------------------------------------------------------- construction: one renderer's custom filters are its own
# `{{name|x}}` is a filter application or a defaulted variable depending on `x in self.filters`: a filter table shared between instances would let
# one renderer's configuration change what another renderer's templates mean.  The engine reports every write into a class-level container.
contract(T + ".__init__", "C12", is_init=True, params={"templates": "opt:dict:str,obj:mRNA", "filters": "opt:dict:str,callback"}, raises=[],
         ensures={"custom-filters-are-registered": "implies(filters is not None and gq in filters, gq in self.filters)",
                  "builtin-filters-are-registered": "'upper' in self.filters and 'lower' in self.filters"},
         ghost_params={"gq": "str"})
