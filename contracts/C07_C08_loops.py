"""C07 (two-key guard) and C08 (circuit breaker) — operon_ai/topology/loops.py::CoherentFeedForwardLoop.

The two agents are collaborators: `BioAgent.express` is havocked (returns an arbitrary ActionProtein whose
action_type is an arbitrary string — not just the seven named verdicts — or raises an arbitrary Exception).
"""
import hashlib
from pyvc.spec import *

F = "operon_ai/topology/loops.py"
T = F + "::CoherentFeedForwardLoop"

shape("CoherentFeedForwardLoop",
      budget="obj:ATP_Store", gate_logic="enum:GateLogic", enable_circuit_breaker="bool", failure_threshold="int",
      recovery_timeout="timedelta", enable_cache="bool", cache_ttl="timedelta", timeout_seconds="real",
      on_block="opt:callback", on_permit="opt:callback", silent="bool",
      executor="obj:BioAgent", assessor="obj:BioAgent",
      _circuit_state="enum:CircuitState", _failure_count="int", _success_count="int",
      _last_failure="opt:datetime", _last_success="opt:datetime", _trips_count="int",
      _cache="dict:str,tuple:obj:LoopResult;datetime", _lock="lock",
      _total_requests="int", _total_blocked="int", _total_permitted="int", _total_errors="int",
      _results_log="list:any")
shape("BioAgent", name="str", role="str", atp="obj:ATP_Store")
shape("ATP_Store", atp="int", gtp="int", nadh="int", _debt="int")
shape("ActionProtein", action_type="str", payload="any", confidence="real", source_agent="opt:str",
      timestamp="datetime", metadata="dict:str,any")
shape("LoopResult", success="bool", action="str", executor_output="opt:obj:ActionProtein",
      assessor_output="opt:obj:ActionProtein", approval_token="opt:obj:ApprovalToken", blocked="bool",
      block_reason="str", cached="bool", processing_time_ms="real", gate_logic="opt:enum:GateLogic")
shape("ApprovalToken", request_hash="str", issuer="str", reason="str", confidence="real",
      integrity="enum:IntegrityLabel", timestamp="datetime", metadata="dict:str,any")

construct("ATP_Store", "operon_ai.state.metabolism", {"budget": 1000, "silent": True})
construct("CoherentFeedForwardLoop", "operon_ai.topology.loops", {"budget": "@new:ATP_Store", "silent": True})
construct("ActionProtein", "operon_ai.core.types", {"action_type": "PERMIT", "payload": "", "confidence": 1.0})

AGENTS = {"BioAgent.express": {"returns": "obj:ActionProtein", "raises": ("Exception",)},
          "self.on_block": {"raises": (), "returns": "any"}, "self.on_permit": {"raises": (), "returns": "any"}}


# ------------------------------------------------------------------ spec functions
def permits_z(z):
    return z == "EXECUTE" or z == "PERMIT"


def G(logic, z, y):
    """the gate table, transcribed from the property statement"""
    return ((permits_z(z) and y == "PERMIT") if (logic == GateLogic.AND or logic == GateLogic.UNANIMOUS) else
            ((permits_z(z) or y == "PERMIT") if logic == GateLogic.OR else
             ((permits_z(z) and y != "BLOCK") if logic == GateLogic.EXECUTOR_PRIORITY else
              ((y == "PERMIT" and z != "FAILURE") if logic == GateLogic.ASSESSOR_PRIORITY else False))))


def req_hash(p):
    return hashlib.sha256(p.encode()).hexdigest()[:16]


def cache_key(p):
    return hashlib.md5(p.encode()).hexdigest()[:16]


def budget_net(b):
    return b.atp + b.gtp + b.nadh - b._debt


def token_ok(res, y_out, prompt, issuer):
    return res.approval_token is None or (y_out.action_type == "PERMIT"
                                          and res.approval_token.request_hash == req_hash(prompt)
                                          and res.approval_token.issuer == issuer)


# ------------------------------------------------------------------ C07
construct("BioAgent", "operon_ai.core.agent", {"name": "a", "role": "Executor", "atp_store": "@new:ATP_Store"})

contract(T + "._apply_gate_logic", "C07",
         requires=["encodable(user_prompt)"],
         raises=[], inline=False, returns="obj:LoopResult", modifies=[],
         ensures={
             "not-blocked-only-if-gate": "implies(not result.blocked, G(self.gate_logic, z_out.action_type, y_out.action_type))",
             "success-unblocked-only-if-gate": "implies(result.success and not result.blocked, "
                                               "G(self.gate_logic, z_out.action_type, y_out.action_type))",
             "blocked-is-bool": "result.blocked is True or result.blocked is False",
             "token-only-with-assessor-permit": "token_ok(result, y_out, user_prompt, self.assessor.name)",
             "unblocked-is-success": "implies(not result.blocked, result.success and result.action == 'SUCCESS')",
             "failure-is-blocked": "implies(not result.success, result.blocked)",
             "fresh-not-cached": "result.cached is False",
             "failure-action-means-unsuccessful": "implies(result.action == 'FAILURE', not result.success and result.blocked)",
             "circuit-open-not-from-gate": "result.action != 'CIRCUIT_OPEN'",
             "outputs-recorded": "result.executor_output is z_out and result.assessor_output is y_out",
         })

# the identity of the hash is taken from the code (the statement only needs "a collision-free function of exactly this prompt"): a failure of
# these clauses is a violation only with a replayed cache confusion (native_replay below), otherwise undecided -- e.g. a change of algorithm
CODE_DERIVED = {"unconfirmed": "undecided"}
contract(T + "._get_cache_key", "C07", requires=["encodable(prompt)"], raises=[], options=CODE_DERIVED,
         ensures={"is-md5-prefix": "result == cache_key(prompt)"})

contract(T + "._check_cache", "C07", options=CODE_DERIVED,
         requires=["encodable(prompt)"], raises=[], inline=False, returns="opt:obj:LoopResult",
         modifies=["self._cache"],
         ensures={
             "hit-is-stored-object": "implies(result is not None, cache_key(prompt) in old(self)._cache and "
                                     "result is old(self)._cache[cache_key(prompt)][0])",
             "hit-is-fresh": "implies(result is not None, clock_last() - old(self)._cache[cache_key(prompt)][1] < self.cache_ttl)",
         })

contract(T + "._cache_result", "C07", options=CODE_DERIVED,
         requires=["encodable(prompt)"], raises=[], inline=False, returns="none",
         modifies=["self._cache"],
         ensures={
             "stored-under-prompt-key": "implies(len(old(self)._cache) < 1000, cache_key(prompt) in self._cache and "
                                        "self._cache[cache_key(prompt)][0] is old(result))",   # old(result): the parameter named `result`
         })

contract(T + ".run", "C07",
         requires=["encodable(user_prompt)", "self.failure_threshold >= 1"],
         callbacks=AGENTS, raises=[],
         ensures={
             "not-blocked-only-if-gate": "implies(not result.blocked and not result.cached, calls_to('executor.express') == 1 and "
                                         "calls_to('assessor.express') == 1 and "
                                         "G(self.gate_logic, returned('executor.express').action_type, returned('assessor.express').action_type))",
             "agent-exception-blocks": "implies(raised('.express'), result.blocked and not result.success and result.action == 'ERROR' "
                                       "and result.approval_token is None)",
             "token-only-with-assessor-permit": "implies(not result.cached and not raised('.express') and result.action != 'CIRCUIT_OPEN', "
                                                "token_ok(result, returned('assessor.express'), user_prompt, self.assessor.name))",
             "cached-reply-verdict-unchanged": "implies(result.cached, result is returned('_check_cache') and "
                                               "result.blocked == old(result).blocked and result.success == old(result).success "
                                               "and result.action == old(result).action and result.approval_token is old(result).approval_token "
                                               "and result.block_reason == old(result).block_reason "
                                               "and result.executor_output is old(result).executor_output "
                                               "and result.assessor_output is old(result).assessor_output)",
             "each-agent-at-most-once": "calls_to('executor.express') <= 1 and calls_to('assessor.express') <= 1",
         })

# ------------------------------------------------------------------ C08
invariant("CoherentFeedForwardLoop", "open-only-after-threshold",
          "implies(self._circuit_state != CircuitState.CLOSED, self._failure_count >= self.failure_threshold)")
invariant("CoherentFeedForwardLoop", "closed-below-threshold",
          "implies(self._circuit_state == CircuitState.CLOSED, self._failure_count < self.failure_threshold)")
invariant("CoherentFeedForwardLoop", "open-has-failure-time",
          "implies(self._circuit_state == CircuitState.OPEN, self._last_failure is not None)")
invariant("CoherentFeedForwardLoop", "count-nonneg", "self._failure_count >= 0")
assume_config("CoherentFeedForwardLoop", "threshold", "self.failure_threshold >= 1")
assume_config("CoherentFeedForwardLoop", "timeouts", "self.recovery_timeout >= 0")


def elapsed_at(self_old, t):
    return self_old._last_failure is not None and t - self_old._last_failure >= self_old.recovery_timeout


contract(T + "._check_circuit", "C08", raises=[],
         ensures={
             "closed-admits": "implies(old(self)._circuit_state == CircuitState.CLOSED, result is True and self._circuit_state == CircuitState.CLOSED)",
             "open-blocks-until-timeout": "implies(old(self)._circuit_state == CircuitState.OPEN and not elapsed_at(old(self), clock_last()), "
                                          "result is False and self._circuit_state == CircuitState.OPEN)",
             "open-admits-probe-after-timeout": "implies(old(self)._circuit_state == CircuitState.OPEN and elapsed_at(old(self), clock_first()), "
                                                "result is True and self._circuit_state == CircuitState.HALF_OPEN)",
             "half-open-admits": "implies(old(self)._circuit_state == CircuitState.HALF_OPEN, result is True and self._circuit_state == CircuitState.HALF_OPEN)",
             "count-unchanged": "self._failure_count == old(self)._failure_count and self._last_failure == old(self)._last_failure",
         })

contract(T + "._record_success", "C08", raises=[],
         ensures={
             "half-open-closes-and-clears": "implies(old(self)._circuit_state == CircuitState.HALF_OPEN, "
                                            "self._circuit_state == CircuitState.CLOSED and self._failure_count == 0)",
             "otherwise-unchanged": "implies(old(self)._circuit_state != CircuitState.HALF_OPEN, "
                                    "self._circuit_state == old(self)._circuit_state and self._failure_count == old(self)._failure_count)",
         })

contract(T + "._record_failure", "C08", raises=[],
         ensures={
             "counts-one": "self._failure_count == old(self)._failure_count + 1",
             "restarts-timeout": "self._last_failure is not None and self._last_failure >= clock_first()",
             "half-open-reopens": "implies(old(self)._circuit_state == CircuitState.HALF_OPEN, self._circuit_state == CircuitState.OPEN)",
             "closed-trips-at-threshold": "implies(old(self)._circuit_state == CircuitState.CLOSED, "
                                          "(self._circuit_state == CircuitState.OPEN) == (self._failure_count >= self.failure_threshold) and "
                                          "(self._circuit_state == CircuitState.CLOSED) == (self._failure_count < self.failure_threshold))",
             "open-stays-open": "implies(old(self)._circuit_state == CircuitState.OPEN, self._circuit_state == CircuitState.OPEN)",
         })

contract(T + ".reset_circuit_breaker", "C08", raises=[],
         ensures={"closed-and-cleared": "self._circuit_state == CircuitState.CLOSED and self._failure_count == 0"})

contract(T + ".__init__", "C08", is_init=True,
         requires=["failure_threshold >= 1", "recovery_timeout_seconds >= 0"],
         params={"budget": "obj:ATP_Store", "on_block": "opt:callback", "on_permit": "opt:callback"},
         options={"opaque_ctor": ["BioAgent"]},
         ensures={"starts-closed": "self._circuit_state == CircuitState.CLOSED and self._failure_count == 0",
                  "config": "self.failure_threshold == failure_threshold and self.enable_circuit_breaker == enable_circuit_breaker"})

contract(T + ".run", "C08",
         requires=["encodable(user_prompt)"],
         callbacks=AGENTS, raises=[],
         ensures={
             "open-isolates": "implies(self.enable_circuit_breaker and old(self)._circuit_state == CircuitState.OPEN "
                              "and not elapsed_at(old(self), clock_last()), "
                              "result.action == 'CIRCUIT_OPEN' and result.blocked and not result.success "
                              "and calls_to('.express') == 0 and budget_net(self.budget) == budget_net(old(self.budget)) "
                              "and self._circuit_state == CircuitState.OPEN and self._failure_count == old(self)._failure_count)",
             "probe-admitted-after-timeout": "implies(self.enable_circuit_breaker and old(self)._circuit_state == CircuitState.OPEN "
                                             "and elapsed_at(old(self), clock_first()), result.cached or (result.action != 'CIRCUIT_OPEN' and "
                                             "calls_to('.express') >= 1))",
             "closed-or-half-open-admits": "implies(old(self)._circuit_state != CircuitState.OPEN and not result.cached, result.action != 'CIRCUIT_OPEN')",
             "probe-success-closes": "implies(self.enable_circuit_breaker and old(self)._circuit_state != CircuitState.CLOSED and not result.cached and "
                                     "result.action != 'CIRCUIT_OPEN' and result.success and not result.blocked, "
                                     "self._circuit_state == CircuitState.CLOSED and self._failure_count == 0)",
             "probe-failure-reopens": "implies(self.enable_circuit_breaker and old(self)._circuit_state != CircuitState.CLOSED and result.action != 'CIRCUIT_OPEN' and "
                                      "not result.cached and (raised('.express') or result.action == 'FAILURE'), "
                                      "self._circuit_state == CircuitState.OPEN and self._last_failure is not None "
                                      "and self._last_failure >= clock_first())",
             "failure-counted": "implies(not result.cached and (raised('.express') or result.action == 'FAILURE'), "
                                "self._failure_count == old(self)._failure_count + 1)",
             # an intentional block = the gate's verdict (a veto, a skip), as opposed to an agent that failed or raised -- whatever its `success` flag says
             "intentional-block-not-counted": "implies(not result.cached and result.blocked and not raised('.express') and result.action != 'FAILURE' "
                                              "and result.action != 'ERROR' and result.action != 'CIRCUIT_OPEN', "
                                              "self._failure_count == old(self)._failure_count and "
                                              "self._circuit_state == old_state_after_check(old(self), self))",
             "success-never-counts": "implies(result.success and not result.blocked, self._failure_count <= old(self)._failure_count)",
             "cache-hit-leaves-breaker": "implies(result.cached, self._failure_count == old(self)._failure_count)",
             "disabled-never-open-result": "implies(not self.enable_circuit_breaker and not result.cached, result.action != 'CIRCUIT_OPEN' and "
                                           "calls_to('.express') >= 1)",
             "circuit-open-only-when-open": "implies(result.action == 'CIRCUIT_OPEN' and not result.cached, self.enable_circuit_breaker and "
                                            "old(self)._circuit_state == CircuitState.OPEN and calls_to('.express') == 0)",
         })


def old_state_after_check(o, s):
    """an intentional block leaves the breaker where _check_circuit put it: OPEN->HALF_OPEN only via an admitted probe"""
    return (s._circuit_state if (o._circuit_state == CircuitState.OPEN and s._circuit_state == CircuitState.HALF_OPEN)
            else o._circuit_state)


def native_replay(rep):
    """cache obligations speak about hashes (uninterpreted in the proof): the witness is searched for with prompt pairs that differ only in
    case / spacing / one character, through the real run(); every other obligation uses the default state replay (return None)"""
    tgt = rep.get("target", "")
    import io, contextlib, hashlib
    from operon_ai.topology.loops import CoherentFeedForwardLoop
    from operon_ai.state.metabolism import ATP_Store
    if rep.get("property") == "C07" and (tgt.endswith(".run") or any(tgt.endswith(x) for x in ("._check_cache", "._cache_result"))):
        # "cached replies are identical in verdict to the original": the same request twice through the real loop (blocked and permitted ones)
        for prompt in ("delete all customer records", "Summarise the weekly report", "rm -rf /", "hello"):
            with contextlib.redirect_stdout(io.StringIO()):
                loop = CoherentFeedForwardLoop(budget=ATP_Store(budget=10000, silent=True), silent=True)
                r1 = loop.run(prompt)
                v1 = (r1.blocked, r1.success, r1.action)
                r2 = loop.run(prompt)
            if (r2.blocked, r2.success, r2.action) != v1:
                return {"confirmed": True, "found_by": "repeat of the same request",
                        "observed": f"run({prompt!r}) twice: first (blocked, success, action)={v1}, repeat (cached={r2.cached}) = {(r2.blocked, r2.success, r2.action)}"}
    if rep.get("property") == "C08":
        # breaker histories on the real loop with scripted agents: vetoes (every gate logic, every veto shape) are never counted as failures and never open the
        # breaker; agent failures are counted and open it at the threshold
        from operon_ai.topology.loops import GateLogic, CircuitState
        from operon_ai.core.types import ActionProtein

        class Scripted:
            def __init__(self, name, verdict):
                self.name, self.verdict = name, verdict

            def express(self, signal):
                if self.verdict == "RAISE":
                    raise RuntimeError("agent down")
                return ActionProtein(action_type=self.verdict, payload="scripted", confidence=1.0)
        for logic in GateLogic:
            for ex_v, as_v, intentional in (("BLOCK", "BLOCK", True), ("EXECUTE", "BLOCK", True), ("BLOCK", "PERMIT", True), ("EXECUTE", "PERMIT", None),
                                            ("FAILURE", "PERMIT", False), ("RAISE", "PERMIT", False)):
                with contextlib.redirect_stdout(io.StringIO()):
                    loop = CoherentFeedForwardLoop(budget=ATP_Store(budget=10 ** 6, silent=True), gate_logic=logic, failure_threshold=2, enable_cache=False, silent=True)
                    loop.executor, loop.assessor = Scripted("executor", ex_v), Scripted("assessor", as_v)
                    results = [loop.run(f"request {i}") for i in range(3)]
                blocked_all = all(r.blocked for r in results)
                if intentional is True and blocked_all and all(r.action not in ("FAILURE", "ERROR", "CIRCUIT_OPEN") for r in results[:1]):
                    if loop._failure_count != 0 or loop._circuit_state != CircuitState.CLOSED or any(r.action == "CIRCUIT_OPEN" for r in results):
                        return {"confirmed": True, "found_by": "scripted breaker histories",
                                "observed": f"gate {logic.name}, executor says {ex_v}, assessor says {as_v} (a veto, no agent failed), threshold 2, three requests: "
                                            f"failure_count={loop._failure_count}, breaker {loop._circuit_state.name}, actions {[r.action for r in results]}"}
                if intentional is False:
                    if loop._circuit_state != CircuitState.OPEN or results[2].action != "CIRCUIT_OPEN":
                        return {"confirmed": True, "found_by": "scripted breaker histories",
                                "observed": f"gate {logic.name}, executor {ex_v}: two consecutive agent failures at threshold 2 did not open the breaker "
                                            f"(state {loop._circuit_state.name}, third answer {results[2].action})"}
        return None
    if not any(tgt.endswith(x) for x in ("._get_cache_key", "._check_cache", "._cache_result")):
        return None
    pairs = [("Run Report", "run report"), ("rm  -rf /tmp/build", "rm -rf /tmp/build"), ("a b", "a  b"), ("A", "a"), ("hello", "hello "), ("x", "y"), ("", " ")]
    n = 0
    for a, b in pairs:
        for first, second in ((a, b), (b, a)):
            n += 1
            with contextlib.redirect_stdout(io.StringIO()):
                loop = CoherentFeedForwardLoop(budget=ATP_Store(budget=10000, silent=True), silent=True)
                k1, k2 = loop._get_cache_key(first), loop._get_cache_key(second)
                fresh = CoherentFeedForwardLoop(budget=ATP_Store(budget=10000, silent=True), silent=True).run(second)
                loop.run(first)
                r2 = loop.run(second)
            if k1 == k2:
                return {"confirmed": True, "found_by": f"prompt pairs ({n})",
                        "observed": f"distinct prompts {first!r} and {second!r} share the cache key {k1}: run({second!r}) after run({first!r}) is answered from the cache "
                                    f"(cached={r2.cached}, blocked={r2.blocked}; a fresh loop answers blocked={fresh.blocked})"}
            if r2.cached or r2.blocked != fresh.blocked:
                return {"confirmed": True, "found_by": f"prompt pairs ({n})",
                        "observed": f"run({second!r}) after run({first!r}): cached={r2.cached}, blocked={r2.blocked}; a fresh loop answers blocked={fresh.blocked}"}
    return {"confirmed": False, "observed": f"no cache confusion among {n} prompt pairs"}
