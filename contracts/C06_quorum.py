"""C06 — quorum decisions follow the votes: no PERMIT without sufficient permit support.
operon_ai/topology/quorum.py::QuorumSensing / EmergencyQuorum

Ballots are symbolic lists of Vote objects of ANY length (not 1..7); weights/confidences are reals with
weight >= 0 and 0 <= confidence <= 1; custom thresholds fractional in (0,1) (or a count for THRESHOLD)."""
from pyvc.spec import *

F = "operon_ai/topology/quorum.py"
T = F + "::QuorumSensing"

shape("QuorumSensing", budget="obj:ATP_Store", strategy="enum:VotingStrategy", custom_threshold="opt:real", min_voters="int",
      timeout_seconds="real", enable_reliability_tracking="bool", on_quorum_reached="opt:callback", on_quorum_failed="opt:callback",
      silent="bool", colony="list:obj:AgentProfile", _total_votes="int", _quorums_reached="int", _quorums_failed="int",
      _vote_history="list:any", _lock="lock")
shape("Vote", agent_id="str", vote_type="enum:VoteType", confidence="real", weight="real", reasoning="str", timestamp="datetime")
shape("AgentProfile", agent="obj:BioAgent", weight="real", reliability_score="real", votes_cast="int", correct_votes="int")
shape("BioAgent", name="str", role="str")
shape("ActionProtein", action_type="str", payload="any", confidence="real", source_agent="opt:str", timestamp="datetime",
      metadata="dict:str,any")
shape("QuorumResult", reached="bool", decision="enum:VoteType", total_votes="int", permit_votes="int", block_votes="int",
      abstain_votes="int", weighted_score="real", confidence_score="real", threshold_used="real", strategy="enum:VotingStrategy",
      votes="list:obj:Vote", processing_time_ms="real")

assume_config("QuorumSensing", "thresholds", "self.custom_threshold is None or (self.custom_threshold > 0 and "
              "(self.custom_threshold < 1 or self.strategy == VotingStrategy.THRESHOLD))")
assume_config("QuorumSensing", "electorate", "self.min_voters >= 0 and len(self.colony) >= 1")

VOTE_FACTS = {"Vote": ["x.weight >= 0", "x.confidence >= 0", "x.confidence <= 1"]}
COUNTERS = {"Vote": {"permit": "x.vote_type == VoteType.PERMIT", "block": "x.vote_type == VoteType.BLOCK",
                     "abstain": "x.vote_type == VoteType.ABSTAIN", "defer": "x.vote_type == VoteType.DEFER"}}
# 4-way partition identity of the finite enum tag VoteType (lemma library: length_filter partition; Lean-checked statement in lemmas/)
PARTITION = [("Vote", "permit + block + abstain + defer == n")]


# ---------------------------------------------------------------- criteria, from the property statement
def ratio_crit(p, b, t):
    """majority / supermajority / weighted / confidence: share of permit support among permit+block support exceeds t"""
    return (p + b) > 0 and p > t * (p + b)


def thr(self, dflt):
    return self.custom_threshold if self.custom_threshold is not None else dflt


def counts_ok(result, votes, permit_votes, block_votes, abstain_votes):
    return (result.permit_votes == len(permit_votes) and result.block_votes == len(block_votes)
            and result.abstain_votes == len(abstain_votes) and result.total_votes == len(votes) and result.votes is votes)


def verdict_ok(result, permit_votes):
    """reached <=> PERMIT; never PERMIT without at least one permit vote"""
    return ((result.reached and result.decision == VoteType.PERMIT and len(permit_votes) >= 1)
            or (not result.reached and result.decision != VoteType.PERMIT))


AGG_PARAMS = {"votes": "list:obj:Vote", "permit_votes": "list:obj:Vote", "block_votes": "list:obj:Vote", "abstain_votes": "list:obj:Vote"}
COMMON = {"counts": "counts_ok(result, votes, permit_votes, block_votes, abstain_votes)",
          "verdict": "verdict_ok(result, permit_votes)"}


def agg(name, crit, extra=None, **kw):
    ens = dict(COMMON)
    ens["criterion"] = f"result.reached == ({crit})"
    ens.update(extra or {})
    contract(T + "." + name, "C06", params=AGG_PARAMS, elem_facts=VOTE_FACTS, raises=[], ensures=ens,
             inline=False, returns="obj:QuorumResult", modifies=[], **kw)


agg("_simple_majority", "ratio_crit(len(permit_votes), len(block_votes), thr(self, 0.5))")
agg("_supermajority", "ratio_crit(len(permit_votes), len(block_votes), thr(self, 0.666))")
agg("_unanimous", "len(block_votes) == 0 and len(permit_votes) >= 1",
    extra={"any-block-defeats": "implies(len(block_votes) >= 1, not result.reached)"})
agg("_weighted_vote", "ratio_crit(sum(v.effective_weight for v in permit_votes), sum(v.effective_weight for v in block_votes), thr(self, 0.5))")
agg("_threshold_vote", "len(permit_votes) >= count_threshold(self)")


def count_threshold(self):
    """the stated criterion of the count strategy: at least k permit votes, k >= 1; a fractional custom threshold (as the emergency
    quorum passes) means that fraction of the electorate, rounded up"""
    return (len(self.colony) // 2 + 1) if self.custom_threshold is None else (
        max(1, ceil_int(self.custom_threshold * len(self.colony))) if self.custom_threshold < 1 else trunc_int(self.custom_threshold))


contract(T + "._protein_to_vote", "C06", params={"protein": "obj:ActionProtein", "profile": "obj:AgentProfile"},
         options={"opaque_any_methods": True},
         ensures={"permit-only-for-permit-or-execute": "(result.vote_type == VoteType.PERMIT) == (protein.action_type == 'PERMIT' or protein.action_type == 'EXECUTE')",
                  "block-only-for-block": "(result.vote_type == VoteType.BLOCK) == (protein.action_type == 'BLOCK')",
                  # "reported counts equal the ballots cast": the abstain count of _aggregate_votes counts ABSTAIN ballots only, so a DEFER
                  # ballot and an unknown verdict must not be confused with each other
                  "defer-only-for-defer": "(result.vote_type == VoteType.DEFER) == (protein.action_type == 'DEFER')",
                  "weight-from-profile": "result.weight == profile.weight * profile.reliability_score"})

# the same function with a dictionary payload (the case the confidence clause is about): the reported confidence of a ballot is exactly the
# one the voter stated -- in particular a stated 0 stays 0 (CONFIDENCE / WEIGHTED must not count it as support)
shape("ActionProteinD", action_type="str", payload="dict:str,real", confidence="real", source_agent="opt:str", timestamp="datetime")
contract(T + "._protein_to_vote", "C06", variant="dict-payload", params={"protein": "obj:ActionProteinD", "profile": "obj:AgentProfile"},
         options={"opaque_any_methods": True}, raises=[],
         ensures={"stated-confidence-is-reported": "implies('confidence' in protein.payload, result.confidence == protein.payload['confidence'])",
                  "default-confidence-only-when-unstated": "implies('confidence' not in protein.payload, result.confidence == 1.0)"})

# "that strategy's stated criterion": after a strategy switch the criterion applied is the new strategy's with the threshold given WITH the switch
# (none given = the strategy's own default), never a threshold left over from an earlier configuration
contract(T + ".set_strategy", "C06", params={"threshold": "opt:real"}, raises=[],
         ensures={"strategy-and-threshold-are-the-ones-given": "self.strategy == strategy and (threshold is None) == (self.custom_threshold is None) and "
                                                               "implies(threshold is not None, self.custom_threshold == threshold)"})

contract(T + "._aggregate_votes", "C06", params={"votes": "list:obj:Vote"},
         elem_facts=VOTE_FACTS, counters=COUNTERS, counter_axioms=PARTITION, raises=[],
         inline=False, returns="obj:QuorumResult", modifies=[],
         ensures={
             "reported-counts-equal-ballots": "result.permit_votes == count_of(votes, 'permit') and result.block_votes == count_of(votes, 'block') "
                                              "and result.abstain_votes == count_of(votes, 'abstain') and result.total_votes == len(votes)",
             "verdict": "(result.reached and result.decision == VoteType.PERMIT and count_of(votes, 'permit') >= 1) or "
                        "(not result.reached and result.decision != VoteType.PERMIT)",
             "min-voters-gate": "implies(count_of(votes, 'permit') + count_of(votes, 'block') < self.min_voters, not result.reached)",
             "any-block-defeats-unanimous": "implies(self.strategy == VotingStrategy.UNANIMOUS and count_of(votes, 'block') >= 1, not result.reached)",
         })

VOTE_LOOP = "for profile in self.colony"
contract(T + ".run_vote", "C06", params={"context": "any"},
         callbacks={"BioAgent.express": {"returns": "obj:ActionProtein", "raises": ("Exception",)},
                    "QuorumSensing._protein_to_vote": {"returns": "obj:Vote", "raises": ("Exception",)},
                    "self.on_quorum_reached": {"raises": (), "returns": "any"}, "self.on_quorum_failed": {"raises": (), "returns": "any"}},
         counters=COUNTERS, counter_axioms=PARTITION,
         loops={VOTE_LOOP: {
             "invariant": ["len(votes) == _k"],
             "types": {"votes": "list:obj:Vote"},
             "step": {"one-ballot-per-voter": "len(votes) == len(at_head(votes)) + 1",
                      "failed-voter-abstains-with-zero-confidence": "implies(raised('.express') or raised('_protein_to_vote'), "
                                                                    "count_of(votes, 'abstain') == count_of(at_head(votes), 'abstain') + 1 and "
                                                                    "count_of(votes, 'permit') == count_of(at_head(votes), 'permit'))"},
             "property_level": ["one-ballot-per-voter", "failed-voter-abstains-with-zero-confidence", "len(votes) == _k"],
         }},
         ensures={"one-ballot-per-voter": "result.total_votes == len(self.colony)"})

# ---------------------------------------------------------------- lemmas over the criteria (pure arithmetic)
RV = {"p": "real", "b": "real", "t": "real", "d": "real"}
lemma("C06", "ratio-criterion-monotone-in-support", RV, ["p >= 0", "b >= 0", "t > 0", "t < 1", "d >= 0", "d <= b", "ratio_crit(p, b, t)"],
      "ratio_crit(p + d, b - d, t) and ratio_crit(p + d, b, t)",
      "turning block support into permit support, or adding permit support, never loses the quorum")
lemma("C06", "ratio-criterion-unanimous-permit", RV, ["p > 0", "b == 0", "t > 0", "t < 1"], "ratio_crit(p, b, t)",
      "an all-permit ballot with positive counted support reaches the quorum")
lemma("C06", "ratio-criterion-no-permit", RV, ["p == 0", "b >= 0", "t > 0"], "not ratio_crit(p, b, t)")

agg("_confidence_vote",
    "ratio_crit(sum(v.effective_weight for v in permit_votes if v.confidence >= 0.3), "
    "sum(v.effective_weight for v in block_votes if v.confidence >= 0.3), thr(self, 0.5))")

# Bayesian: the statement's criterion — posterior above the threshold AND never PERMIT without a permit vote, posterior non-decreasing in
# permit support.  The loops multiply priors; their invariants are kept trivial on purpose (the clause already fails for an empty permit list).
contract(T + "._bayesian_vote", "C06", params=AGG_PARAMS, elem_facts=VOTE_FACTS, raises=[],
         inline=False, returns="obj:QuorumResult", modifies=[],
         loops={"for vote in permit_votes": {"invariant": ["prior_permit >= 0"], "types": {}},
                "for vote in block_votes": {"invariant": ["prior_block >= 0"], "types": {}}},
         ensures=dict(COMMON))


# ---------------------------------------------------------------- construction: strategy, threshold and minimum electorate are the caller's
contract(T + ".__init__", "C06", is_init=True, params={"n_agents": "int", "budget": "obj:ATP_Store", "threshold": "opt:real",
                                                        "on_quorum_reached": "opt:callback", "on_quorum_failed": "opt:callback"},
         raises=[], options={"opaque_ctor": ["BioAgent"]},
         loops={"for i in range(n_agents)": {"invariant": ["len(self.colony) == _k"], "modifies": ["self.colony"]}},
         requires=["n_agents >= 0"],
         ensures={"configuration-is-stored-as-given": "self.strategy == strategy and self.min_voters == min_voters and "
                                                      "(threshold is None) == (self.custom_threshold is None) and "
                                                      "implies(threshold is not None, self.custom_threshold == threshold)",
                  "one-voter-per-requested-agent": "len(self.colony) == n_agents"})


def native_replay(rep):
    """ballots are symbolic lists of Vote objects: witnesses are searched for over small electorates on the real aggregators"""
    import os, sys
    sys.path.insert(0, os.path.dirname(os.path.dirname(os.path.abspath(__file__))))
    from native import c06_bounded
    if rep.get("target", "").endswith(".update_reliability"):
        # reliability bookkeeping on a three-voter colony: every named voter x outcome x prior counts, the whole electorate compared before and after
        from operon_ai.topology.quorum import QuorumSensing
        from operon_ai.state.metabolism import ATP_Store
        k = 0
        for tracking in (True, False):
            for cast, correct in ((0, 0), (1, 0), (2, 1), (4, 4)):
                for who in (0, 1, 2, None):
                    for was_correct in (True, False):
                        k += 1
                        q = QuorumSensing(n_agents=3, budget=ATP_Store(budget=100, silent=True), silent=True, enable_reliability_tracking=tracking)
                        for i, p_ in enumerate(q.colony):
                            p_.votes_cast, p_.correct_votes, p_.weight, p_.reliability_score = cast, correct, 1.0 + i, 0.5
                        before = [(p_.agent.name, p_.weight, p_.reliability_score, p_.votes_cast, p_.correct_votes) for p_ in q.colony]
                        name = q.colony[who].agent.name if who is not None else "nobody"
                        q.update_reliability(name, was_correct)
                        after = [(p_.agent.name, p_.weight, p_.reliability_score, p_.votes_cast, p_.correct_votes) for p_ in q.colony]
                        exp = list(before)
                        if tracking and who is not None:
                            c2 = correct + (1 if was_correct else 0)
                            exp[who] = (name, before[who][1], (c2 / cast) if cast > 0 else 0.5, cast, c2)
                        if after != exp:
                            return {"confirmed": True, "found_by": f"reliability updates on a three-voter colony ({k} cases)",
                                    "observed": f"update_reliability({name!r}, {was_correct}) with tracking={tracking}, prior counts cast={cast} correct={correct}: "
                                                f"{before} -> {after}, expected {exp}"}
    if rep.get("target", "").endswith("_protein_to_vote"):
        # the ballot conversion: every stated confidence (incl. 0) and every action type, through the real run_vote of a one-voter colony
        import io, contextlib
        from operon_ai.topology.quorum import QuorumSensing, VotingStrategy, VoteType
        from operon_ai.core.types import ActionProtein
        from operon_ai.state.metabolism import ATP_Store
        k = 0
        for action in ("PERMIT", "EXECUTE", "BLOCK", "DEFER", "UNKNOWN", "FAILURE"):
            for payload, want in (({"confidence": 0}, 0.0), ({"confidence": 0.0}, 0.0), ({"confidence": 0.2}, 0.2), ({"confidence": 1}, 1.0), ({}, 1.0),
                                  ({"other": 3}, 1.0), ("text", 1.0), (None, 1.0)):
                k += 1
                with contextlib.redirect_stdout(io.StringIO()):
                    q = QuorumSensing(n_agents=1, budget=ATP_Store(budget=100, silent=True), strategy=VotingStrategy.WEIGHTED, silent=True)
                    v = q._protein_to_vote(ActionProtein(action_type=action, payload=payload, confidence=1.0), q.colony[0])
                exp_type = {"PERMIT": VoteType.PERMIT, "EXECUTE": VoteType.PERMIT, "BLOCK": VoteType.BLOCK, "DEFER": VoteType.DEFER}.get(action, VoteType.ABSTAIN)
                if v.confidence != want or v.vote_type != exp_type:
                    return {"confirmed": True, "found_by": f"ballot conversion table ({k} cases)",
                            "observed": f"_protein_to_vote(action={action!r}, payload={payload!r}) -> {v.vote_type.name} with confidence {v.confidence} (stated: {want}, type {exp_type.name})"}
    n, bad, seen = c06_bounded.search(3)
    if bad is None:
        return {"confirmed": False, "observed": f"no unlisted violation among {n} ballots (electorates 1..3)"}
    return {"confirmed": True, "observed": bad, "found_by": f"bounded ballot enumeration ({n} cases)"}


# the electorate is managed here: one voter more / at most one fewer, weights change only for the electorate that is there
contract(T + ".add_agent", "C06", options={"opaque_ctor": ["BioAgent"]}, raises=[], modifies=["self.colony"],
         ensures={"one-more-voter-with-the-given-weight": "len(self.colony) == len(old(self).colony) + 1 and result.weight == weight and "
                                                          "self.colony[len(self.colony) - 1] is result"})
contract(T + ".set_agent_weight", "C06", raises=[],
         loops={"for profile in self.colony": {"invariant": ["True"],
                                               "step": {"only-the-named-voter-is-reweighted": "implies(_exit == 'return', profile.agent.name == name and profile.weight == weight) and "
                                                                                              "implies(_exit != 'return', profile.agent.name != name)"},
                                               "property_level": ["only-the-named-voter-is-reweighted"]}},
         ensures={"electorate-unchanged": "len(self.colony) == len(old(self).colony)"})
contract(T + ".remove_agent", "C06", raises=[], modifies=["self.colony"],
         loops={"for (i, profile) in enumerate(self.colony)": {"invariant": ["len(self.colony) == len(old(self).colony)"],
                                                               "step": {"only-the-named-voter-is-removed": "(_exit == 'return') == (profile.agent.name == name)"},
                                                               "property_level": ["only-the-named-voter-is-removed"]}},
         ensures={"removes-at-most-one-voter": "len(self.colony) == len(old(self).colony) - (1 if result else 0)"})

# "(including the emergency quorum)": the emergency front end is the THRESHOLD strategy with the caller's emergency threshold and a one-voter minimum
contract(F + "::EmergencyQuorum.__init__", "C06", is_init=True, params={"budget": "obj:ATP_Store", "kwargs": "empty"}, raises=[],      # (**kwargs: verified for calls without extra keyword arguments)
         options={"opaque_ctor": ["BioAgent"]},
         loops={"for i in range(n_agents)": {"invariant": ["len(self.colony) == _k"], "modifies": ["self.colony"], "types": {"self.colony": "list:obj:AgentProfile"}}},
         requires=["n_agents >= 0"],
         ensures={"emergency-configuration": "self.strategy == VotingStrategy.THRESHOLD and self.custom_threshold == emergency_threshold and self.min_voters == 1"})

# reliability bookkeeping (a voter's effective weight is weight * reliability_score): only the named voter's score moves, it is recomputed from that
# voter's own counts, configured weights and the electorate are left alone, and with tracking switched off nothing moves at all
contract(T + ".update_reliability", "C06", params={"agent_name": "str", "was_correct": "bool"}, raises=[],
         loops={"for profile in self.colony": {"invariant": ["len(self.colony) == len(old(self).colony)"],
                                               "step": {"only-the-named-voter-is-rescored":
                                                        "(_exit == 'break') == (profile.agent.name == agent_name) and profile.weight == at_head(profile).weight and "
                                                        "implies(profile.agent.name != agent_name, profile.reliability_score == at_head(profile).reliability_score "
                                                        "and profile.correct_votes == at_head(profile).correct_votes) and "
                                                        "implies(profile.agent.name == agent_name and profile.votes_cast > 0, "
                                                        "profile.reliability_score * profile.votes_cast == profile.correct_votes) and "
                                                        "profile.votes_cast == at_head(profile).votes_cast and "
                                                        "implies(profile.agent.name == agent_name, profile.correct_votes == at_head(profile).correct_votes + (1 if was_correct else 0))"},
                                               "property_level": ["only-the-named-voter-is-rescored"]}},
         ensures={"electorate-unchanged": "len(self.colony) == len(old(self).colony)"})
