"""C19 — cascade gates fail closed and halted pipelines run nothing further.
operon_ai/topology/cascade.py::Cascade.run / _run_single_stage"""
from pyvc.spec import *

F = "operon_ai/topology/cascade.py"
T = F + "::Cascade"

shape("Cascade", name="str", mode="enum:CascadeMode", max_amplification="real", halt_on_failure="bool",
      on_stage_complete="opt:callback", on_cascade_complete="opt:callback", silent="bool",
      _stages="list:obj:CascadeStage", _lock="lock", _runs_count="int", _successful_runs="int", _failed_runs="int",
      _total_amplification="real", _results_history="list:any")
shape("CascadeStage", name="str", processor="callback", amplification="real", checkpoint="opt:callback",
      on_error="opt:callback", timeout_seconds="real", required="bool")
shape("StageResult", stage_name="str", status="enum:StageStatus", input_signal="any", output_signal="any",
      amplification_factor="real", processing_time_ms="real", error="opt:str", metadata="dict:str,any")
shape("CascadeResult", success="bool", final_output="any", stages_completed="int", stages_total="int",
      total_amplification="real", total_time_ms="real", stage_results="list:obj:StageResult", blocked_at="opt:str")

construct("Cascade", "operon_ai.topology.cascade", {"name": "replay", "silent": True})

CB = {"self.on_stage_complete": {"raises": (), "returns": "any"}, "self.on_cascade_complete": {"raises": (), "returns": "any"}}
COUNTERS = {"StageResult": {"completed": "x.status == StageStatus.COMPLETED"}}

LOOP = "for (i, stage) in enumerate(self._stages)"

# the constructor stores the configuration it is given: the halting / clamping clauses of run() speak about self.halt_on_failure and
# self.max_amplification, which must BE the caller's settings (whatever the declared mode)
contract(T + ".__init__", "C19", is_init=True, raises=[],
         params={"on_stage_complete": "opt:callback", "on_cascade_complete": "opt:callback"},
         ensures={"configuration-is-stored-as-given": "self.halt_on_failure == halt_on_failure and self.max_amplification == max_amplification and "
                                                      "self.mode == mode and self.name == name and self.silent == silent",
                  "starts-empty": "len(self._stages) == 0"})

contract(T + ".run", "C19",
         callbacks=CB, counters=COUNTERS,
         options={"div": "uninterpreted"},
         callsite_pre={
             ".processor": {
                 # a gated stage processes a signal only if its checkpoint returned true for exactly that signal
                 "gate": "stage.checkpoint is None or gate_passed('.checkpoint', arg0)",
                 "once-per-stage": "calls_in_iter('.processor') == 0",
                 "gets-current-signal": "arg0 is current_signal",
             },
             ".checkpoint": {"gets-current-signal": "arg0 is current_signal", "once-per-stage": "calls_in_iter('.checkpoint') == 0"},
         },
         loops={LOOP: {
             "invariant": [
                 # halted pipelines run nothing further: with halt_on_failure the loop is only ever re-entered un-halted
                 "implies(self.halt_on_failure, blocked_at is None)",
                 "len(stage_results) <= _k",
                 "count_of(stage_results, 'completed') <= len(stage_results)",
                 "cumulative_amplification <= max(self.max_amplification, 1.0)",
                 # nothing blocked and everything completed so far => the current signal is what the pipeline produced
             ],
             "property_level": ["implies(self.halt_on_failure, blocked_at is None)", "halt-stops", "amplification-clamped-product",
                                "composition", "false-or-raising-gate-never-completes", "blocked-stage-not-completed",
                                "unrecovered-failure-of-a-required-stage-halts"],
             "types": {"stage_results": "list:obj:StageResult", "blocked_at": "opt:str", "current_signal": "any",
                       "cumulative_amplification": "real"},
             "step": {
                 "blocked-stage-not-completed": "implies(calls_in_iter('.processor') == 0 and calls_in_iter('.on_error') == 0, "
                                                "count_of(stage_results, 'completed') == count_of(at_head(stage_results), 'completed'))",
                 "halt-stops": "implies(self.halt_on_failure and blocked_at is not None, _exit == 'break')",
                 # a required stage whose processor failed and was not recovered by its error handler halts a halt-on-failure pipeline
                 "unrecovered-failure-of-a-required-stage-halts": "implies(self.halt_on_failure and stage.required and raised('.processor') and "
                                                                  "(stage.on_error is None or raised('.on_error')), _exit == 'break' and blocked_at is not None)",
                 "amplification-clamped-product": "cumulative_amplification == (min(self.max_amplification, at_head(cumulative_amplification) * stage.amplification) "
                                                  "if (calls_in_iter('.processor') == 1 and not raised('.processor')) else at_head(cumulative_amplification))",
                 "composition": "implies(calls_in_iter('.processor') == 1 and not raised('.processor'), current_signal is returned_in_iter('.processor'))",
                 "false-or-raising-gate-never-completes": "implies(stage.checkpoint is not None and not gate_passed('.checkpoint', at_head(current_signal)), "
                                                          "calls_in_iter('.processor') == 0 and count_of(stage_results, 'completed') == count_of(at_head(stage_results), 'completed'))",
             },
         }},
         ensures={
             "success-means-all-completed": "implies(result.success, result.stages_completed == len(self._stages) and result.blocked_at is None "
                                            "and result.stages_completed <= len(result.stage_results))",
             "output-withheld-on-failure": "implies(not result.success, result.final_output is None)",
             # with the per-stage clauses `gets-current-signal` and `composition` (each stage is fed the previous stage's output and the running
             # signal becomes its own output) this is "the final output is the composition of the stage functions"
             "successful-run-releases-the-last-stage-output": "implies(result.success, result.final_output is current_signal)",
             "amplification-clamped": "result.total_amplification <= max(self.max_amplification, 1.0)",
             "counts-reported": "result.stages_total == len(self._stages)",
         })

contract(T + "._run_single_stage", "C19",
         callsite_pre={".processor": {"gate": "stage.checkpoint is None or gate_passed('.checkpoint', arg0)"}},
         raises=[],
         ensures={"completed-only-if-processed": "implies(result.status == StageStatus.COMPLETED, calls_to('.processor') == 1 and not raised('.processor'))"})


# pipeline construction: the stage objects run() consults are the ones the caller handed over
contract(T + ".add_stage", "C19", params={"stage": "obj:CascadeStage"}, raises=[], modifies=["self._stages"],
         ensures={"the-stage-is-appended": "len(self._stages) == len(old(self)._stages) + 1 and self._stages[len(self._stages) - 1] is stage and result is self"})

contract(T + ".insert_stage", "C19", params={"stage": "obj:CascadeStage"}, raises=[], modifies=["self._stages"],
         ensures={"one-more-stage": "len(self._stages) == len(old(self)._stages) + 1 and result is self"})
contract(T + ".remove_stage", "C19", raises=[], modifies=["self._stages"],
         loops={"for (i, stage) in enumerate(self._stages)": {"invariant": ["len(self._stages) == len(old(self)._stages)"],
                                                              "step": {"only-the-named-stage-is-removed": "(_exit == 'return') == (stage.name == name)"},
                                                              "property_level": ["only-the-named-stage-is-removed"]}},
         ensures={"removes-at-most-one": "len(self._stages) == len(old(self)._stages) - (1 if result else 0)"})

# the agent-based front end builds its stages here: a gate given for an agent stage must BE the gate of the stage that run() consults
# ("a pipeline stage that has a checkpoint ..." presupposes that the checkpoint the caller supplied is installed)
shape("AgentCascade", name="str", mode="enum:CascadeMode", max_amplification="real", halt_on_failure="bool", silent="bool", budget="any",
      _stages="list:obj:CascadeStage", _agents="list:any")
contract(F + "::AgentCascade.add_agent_stage", "C19", params={"checkpoint": "opt:callback"},
         callbacks={"Cascade.add_stage": {"returns": "any", "raises": ()}, "AgentCascade.add_stage": {"returns": "any", "raises": ()}},
         options={"opaque_ctor": ["BioAgent"]}, raises=[],
         callsite_pre={".add_stage": {"stage-carries-the-given-gate-and-factor":
                                      "(arg0.checkpoint is None) == (checkpoint is None) and implies(checkpoint is not None, arg0.checkpoint is checkpoint) "
                                      "and arg0.amplification == amplification and arg0.name == agent_name"}},
         ensures={"the-stage-is-added": "calls_to('.add_stage') == 1"})


def native_replay(rep):
    """loop-internal obligations have no single-call pre-state to rebuild: the witness is searched for by the bounded
    stand-in (all pipelines of 1..3 stages) on the real Cascade"""
    import os, sys
    sys.path.insert(0, os.path.dirname(os.path.dirname(os.path.abspath(__file__))))
    if rep.get("target", "").endswith("add_agent_stage"):
        # the agent front end: a rejecting / raising gate given to add_agent_stage must keep the agent stage from running
        import io, contextlib
        from operon_ai.topology.cascade import AgentCascade
        from operon_ai.state.metabolism import ATP_Store
        for label, gate in (("rejecting", lambda s: False), ("raising", lambda s: 1 / 0)):
            with contextlib.redirect_stdout(io.StringIO()):
                c = AgentCascade("replay", budget=ATP_Store(budget=100, silent=True), silent=True)
                c.add_agent_stage("a1", amplification=3.0, checkpoint=gate)
                st = c._stages[-1]
                try:
                    r = c.run("signal")
                except Exception as e:      # noqa
                    return {"confirmed": True, "observed": f"AgentCascade.run raised {type(e).__name__} with a {label} gate"}
            if st.checkpoint is not gate or r.success or r.final_output is not None:
                return {"confirmed": True, "found_by": "agent-stage gate table",
                        "observed": f"AgentCascade.add_agent_stage(checkpoint=<{label} gate>): installed gate is {st.checkpoint!r}; run() -> success={r.success}, "
                                    f"final_output={r.final_output!r}, stages_completed={r.stages_completed}"}
    from native import c19_bounded
    n, bad = c19_bounded.search(3 if rep.get("kind") != "callsite-pre" else 2)
    if bad is None:
        return {"confirmed": False, "observed": f"no failing pipeline among {n} enumerated (<= 3 stages)"}
    return {"confirmed": True, "observed": "; ".join(bad["errors"][:2]) + f" | pipeline={bad['spec']} halt_on_failure={bad['halt_on_failure']} "
            f"mode={bad['mode']}", "witness": bad, "found_by": f"bounded pipeline enumeration ({n} cases)"}
