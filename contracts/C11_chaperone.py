"""C11 — output validator: 'valid' implies the schema holds; clean JSON is taken verbatim.
operon_ai/organelles/chaperone.py::Chaperone.

json.loads and schema.model_validate are deterministic partial externals: they succeed iff json_ok(s) / mv#ok(schema, d) and then return
json_loads(s) / mv(schema, d). 'Instance of the schema that re-validates' is the assumed contract of pydantic's model_validate result; the
proof obligation is that every VALID result carries exactly such a value, obtained from JSON found in (or repaired from) the raw text."""
from pyvc.spec import *

F = "operon_ai/organelles/chaperone.py"
T = F + "::Chaperone"

shape("Chaperone", max_retries="int", strategies="list:enum:FoldingStrategy", co_chaperones="dict:any,callback", on_misfold="opt:callback",
      silent="bool", _total_folds="int", _successful_folds="int", _strategy_success="dict:enum:FoldingStrategy,int",
      _strategy_attempts="dict:enum:FoldingStrategy,int")
shape("FoldedProtein", valid="bool", structure="any", raw_peptide_chain="str", error_trace="opt:str", folding_attempts="int")
shape("EnhancedFoldedProtein", valid="bool", structure="any", raw_peptide_chain="str", error_trace="opt:str", attempts="list:any",
      confidence="real", coercions_applied="list:str", strategy_used="opt:enum:FoldingStrategy")
shape("FoldingAttempt", strategy="enum:FoldingStrategy", success="bool", duration_ms="real", error="opt:str")

MV = {"schema.model_validate": {"function": "mv", "returns": "any", "partial": "ValidationError"},
      "target_schema.model_validate": {"function": "mv", "returns": "any", "partial": "ValidationError"}}
SCHEMA = {"schema": "callback"}


def from_json(schema, text):
    """the value a successful fold of `text` must carry"""
    return schema.model_validate(json.loads(text))


STRICT_ENS = {
    "valid-iff-clean-json-validates": "result.valid == (json_ok(raw.strip()) and mv_ok(schema, json.loads(raw.strip())))",
    "valid-carries-exactly-the-validated-json": "implies(result.valid, result.structure == from_json(schema, raw.strip()))",
    "invalid-has-no-structure-but-a-trace": "implies(not result.valid, result.structure is None and result.error_trace is not None)",
}
construct("Chaperone", "operon_ai.organelles.chaperone", {"silent": True})

contract(T + "._fold_strict", "C11", params=SCHEMA, callbacks=MV, raises=["RecursionError", "ValueError"], ensures=STRICT_ENS)
contract(T + "._fold_strict_enhanced", "C11", params=SCHEMA, callbacks=MV, raises=["RecursionError", "ValueError"],
         ensures=dict(STRICT_ENS, **{"full-confidence-only-here": "implies(result.valid, result.confidence == 1.0 and result.strategy_used == FoldingStrategy.STRICT)"}))

MATCH_LOOP = "for match in matches"
EXTR_STEP = {"step": {"first-validating-match-wins": "implies(_exit != 'return', not (json_ok(match.strip()) and mv_ok(schema, json.loads(match.strip()))))"},
             "invariant": ["True"], "property_level": ["first-validating-match-wins"],
             "exhaustive": "no-break"}      # every candidate of a pattern is tried until one validates: a failing candidate must not end the search
EXTR_ENS = {
    "valid-carries-validated-json-from-the-text": "implies(result.valid, is_bound('match') and json_ok(match.strip()) and result.structure == from_json(schema, match.strip()))",
    "invalid-has-no-structure-but-a-trace": "implies(not result.valid, result.structure is None and result.error_trace is not None)",
}
contract(T + "._fold_extraction", "C11", params=SCHEMA, callbacks=MV, raises=["RecursionError", "ValueError"],
         loops={MATCH_LOOP: EXTR_STEP}, ensures=EXTR_ENS)
contract(T + "._fold_extraction_enhanced", "C11", params=SCHEMA, callbacks=MV, raises=["RecursionError", "ValueError"],
         loops={MATCH_LOOP: EXTR_STEP},
         ensures=dict(EXTR_ENS, **{"confidence": "implies(result.valid, result.confidence == 0.9 and result.strategy_used == FoldingStrategy.EXTRACTION)"}))

COERCE = dict(MV, **{"Chaperone._coerce_types_tracked": {"function": "coerce", "returns": "tuple:any;list:str"},
                     "Chaperone._coerce_types": {"function": "coerce_plain", "returns": "any"},
                     "Chaperone._extract_json": {"function": "extract_json", "returns": "opt:any", "partial": "RecursionError"}})
LEN_ENS = {
    "valid-carries-validated-coerced-json": "implies(result.valid, self._extract_json(raw) is not None and mv_ok(schema, result_data(self, raw, schema)) and "
                                            "result.structure == schema.model_validate(result_data(self, raw, schema)))",
    "invalid-has-no-structure-but-a-trace": "implies(not result.valid, result.structure is None and result.error_trace is not None)",
}


def result_data(self, raw, schema):
    return self._coerce_types(self._extract_json(raw), schema)


def result_data_tracked(self, raw, schema):
    return self._coerce_types_tracked(self._extract_json(raw), schema)[0]


contract(T + "._fold_lenient", "C11", params=SCHEMA, callbacks=COERCE, raises=["RecursionError", "ValueError"], ensures=LEN_ENS)
contract(T + "._fold_lenient_enhanced", "C11", params=SCHEMA, callbacks=COERCE, raises=["RecursionError", "ValueError"],
         ensures={"valid-carries-validated-coerced-json": "implies(result.valid, self._extract_json(raw) is not None and "
                                                          "result.structure == schema.model_validate(result_data_tracked(self, raw, schema)))",
                  "invalid-has-no-structure-but-a-trace": LEN_ENS["invalid-has-no-structure-but-a-trace"],
                  "confidence-in-range": "implies(result.valid, result.confidence >= 0.5 and result.confidence <= 0.85 and result.strategy_used == FoldingStrategy.LENIENT)"})

# "the plain and enhanced folds agree on validity and structure": the two lenient folds differ only in which coercion helper they call; the plain
# helper is the first component of the tracked one (for the same data and schema), so result_data and result_data_tracked above are the same value
contract(T + "._coerce_types", "C11", params={"data": "any", "schema": "any"},
         callbacks={"Chaperone._coerce_types_tracked": {"function": "coerce", "returns": "tuple:any;list:str"}}, raises=[], modifies=[],
         ensures={"plain-coercion-is-the-tracked-coercion": "result == self._coerce_types_tracked(data, schema)[0]"})

REP_ENS = {"valid-carries-validated-repaired-json": "implies(result.valid, json_ok(repaired) and result.structure == from_json(schema, repaired))",
           "invalid-has-no-structure-but-a-trace": "implies(not result.valid, result.structure is None and result.error_trace is not None)"}
contract(T + "._fold_repair", "C11", params=SCHEMA, callbacks=MV, raises=["RecursionError", "ValueError"], ensures=REP_ENS)
contract(T + "._fold_repair_enhanced", "C11", params=SCHEMA, callbacks=MV, raises=["RecursionError", "ValueError"],
         ensures=dict(REP_ENS, **{"confidence-in-range": "implies(result.valid, result.confidence >= 0.4 and result.confidence <= 0.75 and result.strategy_used == FoldingStrategy.REPAIR)"}))

# ---------------------------------------------------------------- the cascades
STRAT_LOOP = "for strategy in strategies"
ATTEMPT = {"Chaperone._attempt_fold": {"returns": "obj:FoldedProtein", "raises": ("Exception",)},
           "Chaperone._attempt_fold_enhanced": {"returns": "obj:EnhancedFoldedProtein", "raises": ("Exception",)},
           "self.on_misfold": {"raises": (), "returns": "any"}, "*.co_chaperones": {"raises": ()}}
contract(T + ".fold", "C11", params={"target_schema": "any", "strategies": "opt:list:enum:FoldingStrategy"},
         callbacks=ATTEMPT, raises=[],
         requires=["target_schema not in self.co_chaperones", "all(s in self._strategy_attempts for s in FoldingStrategy)",
                   "all(s in self._strategy_success for s in FoldingStrategy)"],
         loops={STRAT_LOOP: {"invariant": ["all(s in self._strategy_attempts for s in FoldingStrategy)", "all(s in self._strategy_success for s in FoldingStrategy)"],
                             "types": {"attempts": "list:any"},
                             "step": {"invalid-attempt-is-not-returned": "implies(_exit != 'return', raised('_attempt_fold') or not returned_in_iter('_attempt_fold').valid)"},
                             "property_level": ["invalid-attempt-is-not-returned"]}},
         ensures={
             "valid-is-a-valid-attempt": "implies(result.valid, calls_in_iter('_attempt_fold') >= 0 and returned('_attempt_fold') is not None and "
                                         "returned('_attempt_fold').valid and result.structure == returned('_attempt_fold').structure)",
             "invalid-has-no-structure-but-a-trace": "implies(not result.valid, result.structure is None and result.error_trace is not None)",
             "keeps-the-raw-text": "result.raw_peptide_chain == raw_peptide_chain",
         })
contract(T + ".fold_enhanced", "C11", params={"target_schema": "any", "strategies": "opt:list:enum:FoldingStrategy"},
         callbacks=ATTEMPT, raises=[],
         requires=["target_schema not in self.co_chaperones", "all(s in self._strategy_attempts for s in FoldingStrategy)",
                   "all(s in self._strategy_success for s in FoldingStrategy)"],
         loops={STRAT_LOOP: {"invariant": ["all(s in self._strategy_attempts for s in FoldingStrategy)", "all(s in self._strategy_success for s in FoldingStrategy)"],
                             "types": {"attempts": "list:any"},
                             "step": {"invalid-attempt-is-not-returned": "implies(_exit != 'return', raised('_attempt_fold_enhanced') or not returned_in_iter('_attempt_fold_enhanced').valid)"},
                             "property_level": ["invalid-attempt-is-not-returned"]}},
         ensures={
             "valid-is-a-valid-attempt": "implies(result.valid, result is returned('_attempt_fold_enhanced') and returned('_attempt_fold_enhanced').valid)",
             "invalid-has-no-structure-but-zero-confidence": "implies(not result.valid, result.structure is None and result.error_trace is not None and result.confidence == 0.0)",
         })

contract(T + "._attempt_fold_enhanced", "C11", params=SCHEMA,
         callbacks={"Chaperone._fold_strict_enhanced": {"returns": "obj:EnhancedFoldedProtein", "raises": ("Exception",)},
                    "Chaperone._fold_extraction_enhanced": {"returns": "obj:EnhancedFoldedProtein", "raises": ("Exception",)},
                    "Chaperone._fold_lenient_enhanced": {"returns": "obj:EnhancedFoldedProtein", "raises": ("Exception",)},
                    "Chaperone._fold_repair_enhanced": {"returns": "obj:EnhancedFoldedProtein", "raises": ("Exception",)}},
         ensures={"dispatches-to-the-named-strategy": "(strategy == FoldingStrategy.STRICT) == (calls_to('_fold_strict_enhanced') == 1)"})


def native_replay(rep):
    import os, sys
    sys.path.insert(0, os.path.dirname(os.path.dirname(os.path.abspath(__file__))))
    from native import c11_bounded
    n, bad = c11_bounded.search(0, 60)
    if bad is None:
        return {"confirmed": False, "observed": f"no violation among {n} generated raw texts"}
    return {"confirmed": True, "observed": bad, "found_by": f"bounded generation ({n} cases)"}

# registration of a preprocessor is configuration only: it is stored for exactly the given schema and nothing the folds count with is touched
contract(T + ".register_co_chaperone", "C11", params={"schema": "any", "preprocessor": "callback"}, raises=[], modifies=["self.co_chaperones"],
         ensures={"stored-for-the-given-schema": "schema in self.co_chaperones and self.co_chaperones[schema] is preprocessor",
                  "strategies-and-counters-untouched": "len(self.strategies) == len(old(self).strategies) and self.max_retries == old(self).max_retries "
                                                       "and self._total_folds == old(self)._total_folds and self._successful_folds == old(self)._successful_folds"})
