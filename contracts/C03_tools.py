"""C03 — tools outside the allowed capability set are never executed, on any path.
Call-site precondition on the protocol method Tool.execute (here: SimpleTool.execute, a havocked collaborator)."""
from pyvc.spec import *

F = "operon_ai/organelles/mitochondria.py"
T = F + "::Mitochondria"

shape("Mitochondria", timeout="real", max_ros="real", silent="bool", allowed_capabilities="opt:set:enum:Capability",
      tools="dict:str,obj:SimpleTool", _total_atp_produced="real", _ros_accumulated="real", _operations_count="int")
shape("SimpleTool", name="str", description="str", func="callback", required_capabilities="set:enum:Capability",
      parameters_schema="any")
shape("ToolCall", id="str", name="str", arguments="dict:str,any")
shape("ToolResult", call_id="str", output="opt:str", success="bool", error="opt:str")

construct("Mitochondria", "operon_ai.organelles.mitochondria", {"silent": True})


def authorised(m, tool):
    """caps(T) as the code derives it: required_capabilities (or `capabilities`, which SimpleTool does not have) or {}"""
    return m.allowed_capabilities is None or tool.required_capabilities <= m.allowed_capabilities


TOOLS = {"SimpleTool.execute": {"returns": "any", "raises": ("Exception",)},
         "Mitochondria._compute_node": {"returns": "any", "raises": ("ValueError", "Exception")}}
GATE = {".execute": {"authorised": "authorised(self, tool)",
                     "is-the-registered-tool": "tool is self.tools[tool_name if is_bound('tool_name') else call.name]"}}

contract(T + "._oxidative_phosphorylation", "C03",
         callbacks=TOOLS, callsite_pre=GATE,
         ensures={"at-most-one-tool-run": "calls_to('.execute') <= 1"},
         xensures={"refusal-has-no-side-effect": "implies(exc == 'PermissionError', calls_to('.execute') == 0)"})

contract(T + ".execute_tool_call", "C03",
         params={"call": "obj:ToolCall"},
         callbacks=TOOLS, callsite_pre=GATE, raises=[], inline=False, returns="obj:ToolResult",
         modifies=["self._ros_accumulated"],
         ensures={
             "refused-when-unauthorised": "implies(call.name in self.tools and not authorised(self, self.tools[call.name]), "
                                          "result.success is False and calls_to('.execute') == 0)",
             "unknown-tool-fails": "implies(call.name not in self.tools, result.success is False and calls_to('.execute') == 0)",
             "success-means-ran": "implies(result.success, calls_to('.execute') == 1 and not raised('.execute'))",
         })

contract(T + ".engulf_tool", "C03", params={"tool": "obj:SimpleTool"}, raises=[],
         ensures={"registered-under-its-name": "tool.name in self.tools and self.tools[tool.name] is tool",
                  "capabilities-config-untouched": "(self.allowed_capabilities is None) == (old(self).allowed_capabilities is None)"})

shape("Nucleus", provider="callback", base_energy_cost="int", transcription_log="list:any")
contract("operon_ai/organelles/nucleus.py::Nucleus.transcribe_with_tools", "C03",
         params={"mitochondria": "obj:Mitochondria", "config": "any", "max_iterations": "int", "auto_execute": "bool"},
         callbacks={"self.provider.complete_with_tools": {"returns": "tuple:any;list:obj:ToolCall", "raises": ("Exception",)},
                    "self.provider.complete": {"returns": "any", "raises": ("Exception",)},
                    "Mitochondria.export_tool_schemas": {"returns": "list:any", "raises": ()},
                    "SimpleTool.execute": {"returns": "any", "raises": ("Exception",)}},
         callsite_pre={".execute": {"never-directly": "False"}},
         loops={"while iterations < max_iterations": {"invariant": ["iterations >= 0"], "types": {"current_prompt": "str"}},
                "for call in tool_calls": {"invariant": ["len(tool_results) == _k"], "types": {"tool_results": "list:any"}}},
         ensures={"tools-only-through-the-gated-entry-point": "calls_to('.execute') == 0"})


# ---------------------------------------------------------------- construction: the capability set the gate consults IS the one the caller configured
contract(T + ".__init__", "C03", is_init=True, params={"tools": "none", "allowed_capabilities": "opt:set:enum:Capability"}, raises=[],
         ghost_params={"cap0": "enum:Capability"},
         # the same set of capabilities (for an arbitrary capability cap0) -- not necessarily the same object: a correct defensive copy is fine
         ensures={"allowed-set-is-stored-as-given": "(allowed_capabilities is None) == (self.allowed_capabilities is None) and "
                                                    "implies(allowed_capabilities is not None, (cap0 in self.allowed_capabilities) == (cap0 in allowed_capabilities))",
                  "starts-without-tools": "len(self.tools) == 0"})


# the convenience registration: the tool that reaches the registry declares exactly the capabilities the caller gave (none given = none required)
contract(T + ".register_function", "C03", params={"func": "callback", "required_capabilities": "opt:set:enum:Capability", "parameters_schema": "opt:dict:str,any"},
         callbacks={"Mitochondria.engulf_tool": {"returns": "any", "raises": ()}}, raises=[],
         callsite_pre={".engulf_tool": {"registers-the-declared-capabilities":
                                        "arg0.name == name and implies(required_capabilities is not None and len(required_capabilities) > 0, "
                                        "arg0.required_capabilities is required_capabilities)"}},
         ensures={"registered-once": "calls_to('.engulf_tool') == 1"})

# the schema export the tool loop assumes total: its own totality obligation (tools typed as SimpleTool: a name, a description, a schema)
shape("MitochondriaS", tools="dict:str,obj:SimpleTool", silent="bool")
contract(F + "::Mitochondria.export_tool_schemas", "C03", self_type="MitochondriaS", raises=[], modifies=[],
         loops={"for (name, tool) in self.tools.items()": {"invariant": ["True"], "types": {"schemas": "list:any"}}},
         options={"opaque_ctor": ["ToolSchema"]}, ensures={})


def native_replay(rep):
    """registries are symbolic maps: the witness is searched for over small capability sets and all entry points on the real code"""
    import os, sys
    sys.path.insert(0, os.path.dirname(os.path.dirname(os.path.abspath(__file__))))
    from native import c03_bounded
    if "repair" in str(rep.get("obligation", "")):
        # bookkeeping entry point: the allowed set and the tool table before and after, on the real engine
        from operon_ai.organelles.mitochondria import Mitochondria
        from operon_ai.core.types import Capability
        caps = list(Capability)
        for allowed in (None, set(), {caps[0]}, set(caps)):
            for amount in (0, 0.25, 0.5, 1, 1.0, 2.5, 100):
                m = Mitochondria(silent=True, allowed_capabilities=None if allowed is None else set(allowed))
                m.register_function("t", lambda: 1, "d")
                tools0 = dict(m.tools)
                m._ros_accumulated = 0.7
                m.repair(amount)
                now = m.allowed_capabilities
                if (now is None) != (allowed is None) or (now is not None and set(now) != allowed) or dict(m.tools) != tools0 or m._ros_accumulated < 0:
                    return {"confirmed": True, "found_by": "repair on small configurations",
                            "observed": f"Mitochondria(allowed_capabilities={allowed!r}).repair({amount!r}) -> allowed_capabilities={now!r}, "
                                        f"tools={sorted(m.tools)}, ros={m._ros_accumulated!r}"}
    n, bad = c03_bounded.search()
    if bad is None:
        return {"confirmed": False, "observed": f"no unauthorised execution among {n} enumerated cases"}
    return {"confirmed": True, "observed": bad, "found_by": f"bounded enumeration ({n} cases)"}

# damage repair is bookkeeping only: it leaves the tool table and the allowed-capability set (what the refusal clauses speak about) alone
contract(T + ".repair", "C03", params={"amount": "real"}, ghost_params={"cap0": "enum:Capability"}, raises=[], modifies=["self._ros_accumulated"],
         ensures={"damage-never-negative": "self._ros_accumulated >= 0",
                  "allowed-set-and-tools-untouched": "(self.allowed_capabilities is None) == (old(self).allowed_capabilities is None) and "
                                                     "implies(self.allowed_capabilities is not None, (cap0 in self.allowed_capabilities) == (cap0 in old(self).allowed_capabilities)) "
                                                     "and len(self.tools) == len(old(self).tools)"})
