"""C14 — coordinated operations release every resource on every exit path.
operon_ai/coordination/{types,controller,system,watchdog}.py"""
from pyvc.spec import *

FT = "operon_ai/coordination/types.py"
FC = "operon_ai/coordination/controller.py"
FS = "operon_ai/coordination/system.py"
FW = "operon_ai/coordination/watchdog.py"

shape("ResourceLock", resource_id="str", owner="opt:str", owner_priority="int", hold_count="int",
      acquired_at="opt:datetime", allow_preemption="bool", waiting_list="list:any")
shape("OperationContext", operation_id="str", agent_id="str", priority="int", phase="enum:Phase",
      acquired_resources="dict:str,obj:ResourceLock", resources_acquired="bool", execution_complete="bool",
      validation_passed="bool", result="any", created_at="datetime", phase_entered_at="datetime", error="opt:str",
      metadata="dict:str,any")
shape("CellCycleController", resources="dict:str,obj:ResourceLock", active_operations="dict:str,obj:OperationContext",
      dependency_graph="obj:DependencyGraph", checkpoints="any")
shape("CoordinationSystem", controller="obj:CellCycleController", watchdog="obj:Watchdog", priority_manager="obj:PriorityInheritance")
shape("PriorityInheritance")
shape("Watchdog", events="list:any", deadlock_strategy="str")
shape("CoordinationResult", operation_id="str", success="bool", phase_reached="enum:Phase", result="any", error="opt:str",
      duration_ms="real")
shape("OperationResult", operation_id="str", agent_id="str", success="bool", result="any", error="opt:str", duration="timedelta")

invariant("ResourceLock", "held-iff-owned", "(self.owner is None) == (self.hold_count == 0) and self.hold_count >= 0")

GRAPH = {"DependencyGraph.remove_all_for_agent": {"raises": (), "returns": "none"},
         "DependencyGraph.add_dependency": {"raises": (), "returns": "none"},
         "ResourceLock._add_to_waiting": {"raises": (), "returns": "none"},
         "OperationContext.enter_phase": {"raises": (), "returns": "none"}}
ALIAS = {"alias_values": {"ctx.acquired_resources": "self.resources"}}

# ------------------------------------------------------------------ the lock itself
construct("ResourceLock", "operon_ai.coordination.types", {"resource_id": "r"})

contract(FT + "::ResourceLock.try_acquire", "C14", callbacks=GRAPH, raises=[],
         ensures={
             "acquired-or-reentrant-or-preempted-means-owned": "implies(result != LockResult.BLOCKED, self.owner == owner and self.hold_count >= 1)",
             "blocked-changes-nothing": "implies(result == LockResult.BLOCKED, self.owner == old(self).owner and self.hold_count == old(self).hold_count "
                                        "and self.owner is not None and self.owner != owner)",
             "reentrant-counts": "implies(old(self).owner == owner, result == LockResult.REENTRANT and self.hold_count == old(self).hold_count + 1)",
             "never-timeout": "result != LockResult.TIMEOUT",
         })
contract(FT + "::ResourceLock.release", "C14", raises=[],
         ensures={
             "only-owner-releases": "implies(old(self).owner != owner, result is False and self.owner == old(self).owner and self.hold_count == old(self).hold_count)",
             "one-hold-per-release": "implies(old(self).owner == owner, result is True and self.hold_count == max(old(self).hold_count - 1, 0))",
             "freed-at-zero": "implies(old(self).owner == owner and old(self).hold_count <= 1, self.owner is None)",
         })

# the collaborators the controller contracts assume total: their own totality obligations (add_dependency / remove_all_for_agent: C15)
shape("ResourceLockW", resource_id="str", owner="opt:str", owner_priority="int", hold_count="int", acquired_at="opt:datetime", allow_preemption="bool",
      waiting_list="list:tuple:str;int")
contract(FC + "::OperationContext.enter_phase", "C14", raises=[], ensures={"phase-entered": "self.phase == phase"})
contract(FC + "::OperationContext.set_result", "C14", params={"result": "any"}, raises=[], ensures={})     # (its parameter is called `result`: no clause about it, the name is the return value in a postcondition)
contract(FT + "::ResourceLock._add_to_waiting", "C14", self_type="ResourceLockW", raises=[], modifies=["self.waiting_list"], ensures={})

# the two registry invariants the kill / shutdown / watchdog contracts assume are ESTABLISHED here: a lock is registered under its own id, an operation is
# listed under its own id (and starts owning and tracking nothing of its own making); both leave every other entry alone (arbitrary key r0)
contract(FC + "::CellCycleController.register_resource", "C14", params={"lock": "obj:ResourceLock"}, ghost_params={"r0": "str"}, raises=[], modifies=["self.resources"],
         ensures={"registered-under-its-own-id": "lock.resource_id in self.resources and self.resources[lock.resource_id] is lock",
                  "other-entries-untouched": "implies(r0 != lock.resource_id, (r0 in self.resources) == (r0 in old(self).resources) and "
                                             "implies(r0 in self.resources, self.resources[r0] is old(self).resources[r0]))"})
contract(FC + "::CellCycleController.start_operation", "C14", ghost_params={"r0": "str"}, raises=[], modifies=["self.active_operations"],
         ensures={"listed-under-its-own-id": "operation_id in self.active_operations and self.active_operations[operation_id] is result and "
                                             "result.operation_id == operation_id",
                  "starts-tracking-nothing": "len(result.acquired_resources) == 0 and result.resources_acquired is False",
                  "other-operations-untouched": "implies(r0 != operation_id, (r0 in self.active_operations) == (r0 in old(self).active_operations))"})

# ------------------------------------------------------------------ controller
contract(FC + "::CellCycleController.acquire_resource", "C14",
         params={"ctx": "obj:OperationContext"}, pre_state=ALIAS, callbacks=GRAPH, raises=["ValueError"],
         # registry well-formedness, instantiated for the requested id (the registry is keyed by each lock's own id)
         requires=["implies(resource_id in self.resources, self.resources[resource_id].resource_id == resource_id)"],
         inline=False, returns="enum:LockResult", modifies=["ctx.acquired_resources", "self.resources[*]"], ghost_params={"r0": "str"},
         ensures={
             "granted-means-owned-and-tracked": "implies(result != LockResult.BLOCKED, self.resources[resource_id].owner == ctx.operation_id "
                                                "and resource_id in ctx.acquired_resources and ctx.acquired_resources[resource_id] is self.resources[resource_id])",
             "blocked-means-not-owned": "implies(result == LockResult.BLOCKED, self.resources[resource_id].owner != ctx.operation_id)",
             # registry-wide frame, for an arbitrary other resource id r0: its lock and its tracking are untouched
             "other-resources-untouched": "implies(r0 != resource_id and r0 in self.resources, self.resources[r0].owner == old(self).resources[r0].owner and "
                                          "self.resources[r0].hold_count == old(self).resources[r0].hold_count)",
             "other-tracking-untouched": "implies(r0 != resource_id, (r0 in ctx.acquired_resources) == (r0 in old(ctx).acquired_resources))",
             "lock-ids-unchanged": "implies(r0 in self.resources, self.resources[r0].resource_id == old(self).resources[r0].resource_id)",
             "tracking-only-grows-by-a-grant": "implies(result == LockResult.BLOCKED, (resource_id in ctx.acquired_resources) == (resource_id in old(ctx).acquired_resources))",
         },
         xensures={"unknown-resource-changes-nothing": "implies(r0 in self.resources, self.resources[r0].owner == old(self).resources[r0].owner and "
                                                       "self.resources[r0].hold_count == old(self).resources[r0].hold_count and "
                                                       "self.resources[r0].resource_id == old(self).resources[r0].resource_id) and "
                                                       "(r0 in ctx.acquired_resources) == (r0 in old(ctx).acquired_resources)"})

REL_LOOP = "for resource_id in list(ctx.acquired_resources.keys())"
REL_SPEC = {
             "invariant": [
                 # whole-registry statement for an ARBITRARY resource id r0: a tracked resource whose turn has passed is not owned by the operation ...
                 "implies(in_visit(r0) and visit_index(r0) < _k and r0 in self.resources, self.resources[r0].owner != ctx.operation_id)",
                 # ... and a resource the operation does not track is exactly as it was (owner and hold count)
                 "implies(not in_visit(r0) and r0 in self.resources, self.resources[r0].owner == old(self).resources[r0].owner and "
                 "self.resources[r0].hold_count == old(self).resources[r0].hold_count)",
                 "in_visit(r0) == (r0 in old(ctx).acquired_resources)",
                 # releasing never hands a resource to anybody: an owner is kept or cleared
                 "implies(r0 in self.resources, self.resources[r0].owner is None or self.resources[r0].owner == old(self).resources[r0].owner)"],
             "step": {
                 # per resource the operation tracked: after its turn it is neither owned by the operation nor tracked any more
                 "each-tracked-resource-fully-released": "implies(resource_id in self.resources, self.resources[resource_id].owner != ctx.operation_id)",   # tracked lock IS the registered one (alias)
             },
             "property_level": ["each-tracked-resource-fully-released",
                                "implies(in_visit(r0) and visit_index(r0) < _k and r0 in self.resources, self.resources[r0].owner != ctx.operation_id)",
                                "implies(not in_visit(r0) and r0 in self.resources, self.resources[r0].owner == old(self).resources[r0].owner and "
                                "self.resources[r0].hold_count == old(self).resources[r0].hold_count)"],
             "exhaustive": True,      # the per-resource clause speaks about every tracked resource only if no element is skipped
             "modifies": [],
         }
contract(FC + "::CellCycleController.release_all_resources", "C14",
         params={"ctx": "obj:OperationContext"}, pre_state=ALIAS, callbacks=GRAPH, raises=[],
         ghost_params={"r0": "str"},
         loops={REL_LOOP: REL_SPEC},
         ensures={
             "no-tracked-resource-is-still-owned": "implies(r0 in old(ctx).acquired_resources and r0 in self.resources, self.resources[r0].owner != ctx.operation_id)",
             "untracked-resources-are-untouched": "implies(r0 not in old(ctx).acquired_resources and r0 in self.resources, "
                                                  "self.resources[r0].owner == old(self).resources[r0].owner and "
                                                  "self.resources[r0].hold_count == old(self).resources[r0].hold_count)",
             "owners-are-kept-or-cleared": "implies(r0 in self.resources, self.resources[r0].owner is None or self.resources[r0].owner == old(self).resources[r0].owner)"})

# complete / abort: release_all_resources is INLINED here (its loop is cut with the same specification), so the registry-wide clauses are
# postconditions of the two operations that end a coordinated operation -- for an arbitrary resource id r0
contract(FC + "::CellCycleController.complete_operation", "C14",
         params={"ctx": "obj:OperationContext"}, pre_state=ALIAS, raises=[], ghost_params={"r0": "str", "a0": "str"},
         callbacks=GRAPH, loops={REL_LOOP: REL_SPEC},
         inline=False, returns="obj:OperationResult", modifies=["self.active_operations", "ctx.acquired_resources", "self.resources[*]"],
         ensures={"no-tracked-resource-is-still-owned": "implies(r0 in old(ctx).acquired_resources and r0 in self.resources, self.resources[r0].owner != ctx.operation_id)",
                  "untracked-resources-are-untouched": "implies(r0 not in old(ctx).acquired_resources and r0 in self.resources, "
                                                       "self.resources[r0].owner == old(self).resources[r0].owner and "
                                                       "self.resources[r0].hold_count == old(self).resources[r0].hold_count)",
                  "owners-are-kept-or-cleared": "implies(r0 in self.resources, self.resources[r0].owner is None or self.resources[r0].owner == old(self).resources[r0].owner)",
                  "no-longer-active": "ctx.operation_id not in self.active_operations",
                  "other-operations-stay-listed": "implies(a0 != ctx.operation_id, (a0 in self.active_operations) == (a0 in old(self).active_operations) and "
                                                  "implies(a0 in self.active_operations, self.active_operations[a0] is old(self).active_operations[a0]))",
                  "reports-success": "result.success is True"})
contract(FC + "::CellCycleController.abort_operation", "C14",
         params={"ctx": "obj:OperationContext"}, pre_state=ALIAS, raises=[], ghost_params={"r0": "str", "a0": "str"},
         callbacks=GRAPH, loops={REL_LOOP: REL_SPEC},
         inline=False, returns="obj:OperationResult", modifies=["self.active_operations", "ctx.acquired_resources", "self.resources[*]"],
         ensures={"no-tracked-resource-is-still-owned": "implies(r0 in old(ctx).acquired_resources and r0 in self.resources, self.resources[r0].owner != ctx.operation_id)",
                  "untracked-resources-are-untouched": "implies(r0 not in old(ctx).acquired_resources and r0 in self.resources, "
                                                       "self.resources[r0].owner == old(self).resources[r0].owner and "
                                                       "self.resources[r0].hold_count == old(self).resources[r0].hold_count)",
                  "owners-are-kept-or-cleared": "implies(r0 in self.resources, self.resources[r0].owner is None or self.resources[r0].owner == old(self).resources[r0].owner)",
                  "no-longer-active": "ctx.operation_id not in self.active_operations",
                  "other-operations-stay-listed": "implies(a0 != ctx.operation_id, (a0 in self.active_operations) == (a0 in old(self).active_operations) and "
                                                  "implies(a0 in self.active_operations, self.active_operations[a0] is old(self).active_operations[a0]))",
                  "reports-failure": "result.success is False"})

# ------------------------------------------------------------------ the coordinated operation
RES_LOOP = "for resource_id in resources"
contract(FS + "::CoordinationSystem.execute_operation", "C14",
         params={"work_fn": "callback", "validate_fn": "opt:callback", "resources": "opt:list:str"},
         # acquire_resource / complete_operation / abort_operation are used through their CONTRACTS (registry-wide frames for an arbitrary resource id);
         # work_fn / validate_fn / the checkpoints of advance() are havocked; that advance() does not touch the registry is its own obligation below (CellCycleController.advance), work_fn / validate_fn are assumed not to
         callbacks={"work_fn": {"returns": "any", "raises": ("Exception",)}, "validate_fn": {"returns": "any", "raises": ("Exception",)},
                    "CellCycleController.advance": {"returns": "enum:CheckpointResult", "raises": ("Exception",)},
                    "OperationContext.set_result": {"returns": "none", "raises": ()}},
         ghost_params={"r0": "str"},
         # a fresh operation id: nothing in the registry is owned under it when the operation starts
         requires=["implies(r0 in self.controller.resources, self.controller.resources[r0].owner != operation_id)",
                   # registry well-formedness: every lock is registered under its own id
                   "implies(r0 in self.controller.resources, self.controller.resources[r0].resource_id == r0)"],
         callsite_pre={
             "work_fn": {"runs-at-most-once": "calls_to('work_fn') == 0",
                         "after-all-acquisitions": "ctx.resources_acquired is True and calls_to('abort_operation') == 0"},
             "validate_fn": {"only-after-work-completed": "calls_to('work_fn') == 1 and not raised('work_fn')",
                             "gets-the-work-result": "arg0 is returned('work_fn')"},
         },
         loops={RES_LOOP: {"invariant": ["ctx.resources_acquired is False", "calls_to('work_fn') == 0",                                          "calls_to('complete_operation') + calls_to('abort_operation') == 0",
                                         # what the operation owns it tracks (so that releasing what it tracks releases everything)
                                         "implies(r0 in self.controller.resources and self.controller.resources[r0].owner == ctx.operation_id, "
                                         "r0 in ctx.acquired_resources)",
                                         "implies(r0 in self.controller.resources, self.controller.resources[r0].resource_id == r0)",
                                         # a resource that was not requested is neither tracked nor touched
                                         "implies(r0 not in _iter, r0 not in ctx.acquired_resources and implies(r0 in self.controller.resources, "
                                         "self.controller.resources[r0].owner == old(self).controller.resources[r0].owner and "
                                         "self.controller.resources[r0].hold_count == old(self).controller.resources[r0].hold_count))"],
                           "instances": [{"r0": "resource_id"}],
                           "step": {"blocked-stops-the-operation": "returned_in_iter('acquire_resource') != LockResult.BLOCKED"},
                           "property_level": ["blocked-stops-the-operation"]}},
         raises=[],
         ensures={
             "every-exit-ends-the-operation": "calls_to('complete_operation') + calls_to('abort_operation') == 1",
             "success-needs-work-and-validation": "implies(result.success, calls_to('work_fn') == 1 and not raised('work_fn') and "
                                                  "calls_to('complete_operation') == 1 and (validate_fn is None or "
                                                  "(calls_to('validate_fn') == 1 and truthy(returned('validate_fn')))))",
             "failure-aborts": "implies(not result.success, calls_to('abort_operation') == 1)",
             # THE statement, for an arbitrary registered resource: when the call returns it is not owned by this operation
             "no-registered-resource-is-still-owned": "implies(r0 in self.controller.resources, self.controller.resources[r0].owner != operation_id)",
             "no-longer-listed-as-active": "operation_id not in self.controller.active_operations",
             "resources-never-requested-are-untouched": "implies((resources is None or r0 not in resources) and r0 in self.controller.resources, "
                                                        "self.controller.resources[r0].owner == old(self).controller.resources[r0].owner and "
                                                        "self.controller.resources[r0].hold_count == old(self).controller.resources[r0].hold_count)",
         })

# manual kill (and, through it, CoordinationSystem.kill_operation): abort_operation is used through its contract, so the registry-wide clause is a
# postcondition here too -- under the two registry invariants the controller maintains but which are assumed here (listed by the scan):
# operations are listed under their own id, and what an operation owns it tracks
contract(FW + "::Watchdog.manual_kill", "C14",
         params={"controller": "obj:CellCycleController"}, ghost_params={"r0": "str"}, raises=[],
         pre_state={"alias_values": {"controller.active_operations[operation_id].acquired_resources": "controller.resources"}},
         requires=["implies(operation_id in controller.active_operations, controller.active_operations[operation_id].operation_id == operation_id)",
                   "implies(operation_id in controller.active_operations and r0 in controller.resources and controller.resources[r0].owner == operation_id, "
                   "r0 in controller.active_operations[operation_id].acquired_resources)"],
         ensures={"kills-through-abort": "implies(operation_id in old(controller).active_operations, calls_to('abort_operation') == 1)",
                  "killed-operation-owns-nothing": "implies(operation_id in old(controller).active_operations and r0 in controller.resources, "
                                                   "controller.resources[r0].owner != operation_id)",
                  "killed-operation-is-no-longer-active": "operation_id not in controller.active_operations",
                  "unknown-operation-changes-nothing": "implies(operation_id not in old(controller).active_operations, result is None and calls_to('abort_operation') == 0)"})


contract(FS + "::CoordinationSystem.kill_operation", "C14", ghost_params={"r0": "str"}, raises=[],
         pre_state={"alias_values": {"self.controller.active_operations[operation_id].acquired_resources": "self.controller.resources"}},
         requires=["implies(operation_id in self.controller.active_operations, self.controller.active_operations[operation_id].operation_id == operation_id)",
                   "implies(operation_id in self.controller.active_operations and r0 in self.controller.resources and self.controller.resources[r0].owner == operation_id, "
                   "r0 in self.controller.active_operations[operation_id].acquired_resources)"],
         ensures={"killed-operation-owns-nothing": "implies(operation_id in old(self).controller.active_operations and r0 in self.controller.resources, "
                                                   "self.controller.resources[r0].owner != operation_id)",
                  "killed-operation-is-no-longer-active": "operation_id not in self.controller.active_operations"})

# shutdown: every operation that was active is aborted; for an ARBITRARY operation id op0 that was active and an ARBITRARY resource id r0: afterwards r0 is not
# owned by op0 (releasing only keeps or clears owners, so a later abort cannot hand a resource back to an operation already dealt with)
SHUT_LOOP = "for op_id in list(self.controller.active_operations.keys())"
contract(FS + "::CoordinationSystem.shutdown", "C14", ghost_params={"r0": "str", "op0": "str"}, raises=[],
         callbacks={"PriorityInheritance.clear_all": {"returns": "none", "raises": ()}},
         options={"callee_instances": {"CellCycleController.abort_operation": [{"a0": "op0"}]}},
         requires=["implies(op0 in self.controller.active_operations, self.controller.active_operations[op0].operation_id == op0)",
                   "implies(op0 in self.controller.active_operations and r0 in self.controller.resources and self.controller.resources[r0].owner == op0, "
                   "r0 in self.controller.active_operations[op0].acquired_resources)"],
         loops={SHUT_LOOP: {
             "invariant": [
                 "implies(in_visit(op0) and visit_index(op0) < _k and r0 in self.controller.resources, self.controller.resources[r0].owner != op0)",
                 "implies(in_visit(op0) and visit_index(op0) >= _k, op0 in self.controller.active_operations and "
                 "self.controller.active_operations[op0].operation_id == op0 and "
                 "implies(r0 in self.controller.resources and self.controller.resources[r0].owner == op0, r0 in self.controller.active_operations[op0].acquired_resources))",
                 "in_visit(op0) == (op0 in old(self).controller.active_operations)"],
             "instances": [{"op0": "op_id"}],
             "property_level": ["implies(in_visit(op0) and visit_index(op0) < _k and r0 in self.controller.resources, self.controller.resources[r0].owner != op0)"],
         }},
         ensures={"no-resource-is-owned-by-an-operation-that-was-active": "implies(op0 in old(self).controller.active_operations and r0 in self.controller.resources, "
                                                                          "self.controller.resources[r0].owner != op0)"})


# watchdog kill: every operation the watchdog decides to terminate (whatever check() returns: timeouts, starvation, deadlock victims) is aborted through
# abort_operation's contract.  For an ARBITRARY event position j, operation id op0 = events[j].operation_id and resource id r0: afterwards r0 is not owned by op0.
shape("ApoptosisEvent", operation_id="str", agent_id="str", reason="enum:ApoptosisReason", details="str", timestamp="datetime")
EV_LOOP = "for event in events"
contract(FW + "::Watchdog.execute", "C14", params={"controller": "obj:CellCycleController"}, ghost_params={"r0": "str", "op0": "str", "j": "int"}, raises=[],
         callbacks={"Watchdog.check": {"returns": "list:obj:ApoptosisEvent", "raises": ()}},
         options={"callee_instances": {"CellCycleController.abort_operation": [{"a0": "op0"}]}},
         requires=["implies(op0 in controller.active_operations, controller.active_operations[op0].operation_id == op0)",
                   "implies(op0 in controller.active_operations and r0 in controller.resources and controller.resources[r0].owner == op0, "
                   "r0 in controller.active_operations[op0].acquired_resources)"],
         loops={EV_LOOP: {
             "invariant": [
                 # an operation whose event has been handled either was not active (nothing to do) or owns nothing any more
                 "implies(0 <= j and j < _k and events[j].operation_id == op0 and op0 in old(controller).active_operations and r0 in controller.resources, "
                 "controller.resources[r0].owner != op0)",
                 # an operation still listed is listed under its own id and tracks what it owns
                 "implies(op0 in controller.active_operations, op0 in old(controller).active_operations and controller.active_operations[op0].operation_id == op0 and "
                 "implies(r0 in controller.resources and controller.resources[r0].owner == op0, r0 in controller.active_operations[op0].acquired_resources))",
                 # an operation that is no longer listed was aborted here (so it owns nothing) or never was listed
                 "implies(op0 in old(controller).active_operations and op0 not in controller.active_operations and r0 in controller.resources, "
                 "controller.resources[r0].owner != op0)"],
             "instances": [{"op0": "event.operation_id"}],
             "property_level": ["implies(0 <= j and j < _k and events[j].operation_id == op0 and op0 in old(controller).active_operations and r0 in controller.resources, "
                                "controller.resources[r0].owner != op0)"],
         }},
         ensures={"terminated-operations-own-nothing": "implies(0 <= j and j < len(result) and result[j].operation_id == op0 and op0 in old(controller).active_operations "
                                                       "and r0 in controller.resources, controller.resources[r0].owner != op0)"})


def native_replay(rep):
    """registries are symbolic maps of lock objects: witnesses are searched for by fault injection on the real CoordinationSystem"""
    import os, sys
    sys.path.insert(0, os.path.dirname(os.path.dirname(os.path.abspath(__file__))))
    from native import c14_bounded
    if str(rep.get("target", "")).endswith("CellCycleController.advance"):
        # the phase machine on its own: every phase x every answer of a scripted checkpoint (incl. one that raises), registry compared before and after
        from operon_ai.coordination.controller import CellCycleController
        from operon_ai.coordination.types import Phase, CheckpointResult, ResourceLock

        class _Cp:
            def __init__(self, ans):
                self.ans, self.name = ans, "scripted"

            def evaluate(self, ctx):
                if self.ans == "raise":
                    raise RuntimeError("checkpoint failed")
                return self.ans
        k = 0
        for phase in list(Phase):
            for answers in [[a] for a in list(CheckpointResult) + ["raise"]] + [[CheckpointResult.PASSED, a] for a in list(CheckpointResult) + ["raise"]]:
                k += 1
                c = CellCycleController()
                for r_ in ("r1", "r2"):
                    c.register_resource(ResourceLock(resource_id=r_))
                ctx = c.start_operation("op", "agent")
                other = c.start_operation("other", "agent2")
                c.acquire_resource(ctx, "r1")
                c.acquire_resource(other, "r2")
                ctx.phase = phase
                c.checkpoints = {phase: [_Cp(a) for a in answers]}

                def snap():
                    return (sorted(c.active_operations), {r_: l_.owner for r_, l_ in c.resources.items()}, sorted(ctx.acquired_resources),
                            sorted(other.acquired_resources), other.phase)
                before, res = snap(), None
                try:
                    res = c.advance(ctx)
                except Exception as ex_:      # noqa
                    res = f"raised {type(ex_).__name__}"
                moved = ctx.phase != phase
                if snap() != before or moved != (res == CheckpointResult.PASSED):
                    return {"confirmed": True, "found_by": f"scripted checkpoints on the real controller ({k} cases)",
                            "observed": f"advance() in phase {phase.name} with checkpoint answers {[getattr(a, 'name', a) for a in answers]} -> {getattr(res, 'name', res)}: "
                                        f"phase moved={moved}; registry {before} -> {snap()}"}
    n, bad = c14_bounded.search(3)
    if bad is None:
        return {"confirmed": False, "observed": f"no leak / ordering violation among {n} fault-injection cases"}
    return {"confirmed": True, "observed": bad, "found_by": f"bounded fault injection ({n} cases)"}


# ---------------------------------------------------------------- the phase machine execute_operation consults: `advance` is a havocked collaborator
# there, "assumed not to touch the controller's registry" -- that assumption is its own obligation here: whatever the (havocked) checkpoints answer,
# advancing moves only the operation's phase, never a resource, an ownership or the table of active operations, and only when every checkpoint passed
shape("CellCycleControllerA", resources="dict:str,obj:ResourceLock", active_operations="dict:str,obj:OperationContext",
      dependency_graph="obj:DependencyGraph", checkpoints="dict:enum:Phase,list:obj:Checkpoint")
shape("Checkpoint", name="str")
contract(FC + "::CellCycleController.advance", "C14", self_type="CellCycleControllerA", params={"ctx": "obj:OperationContext"},
         ghost_params={"rid": "str"},
         callbacks={"Checkpoint.evaluate": {"returns": "enum:CheckpointResult", "raises": ("Exception",)}}, raises=["Exception"],
         modifies=["ctx.phase", "ctx.phase_entered_at"],
         loops={"for checkpoint in checkpoints": {"invariant": ["ctx.phase == old(ctx).phase"]}},
         ensures={"phase-moves-only-when-every-checkpoint-passed": "(result != CheckpointResult.PASSED) == (ctx.phase == old(ctx).phase)",
                  "registry-untouched": "len(self.resources) == len(old(self).resources) and len(self.active_operations) == len(old(self).active_operations) "
                                        "and implies(rid in self.resources, self.resources[rid].owner == old(self).resources[rid].owner) "
                                        "and len(ctx.acquired_resources) == len(old(ctx).acquired_resources)"},
         xensures={"registry-untouched-on-failure": "len(self.resources) == len(old(self).resources) and len(self.active_operations) == len(old(self).active_operations) "
                                                    "and ctx.phase == old(ctx).phase"})
# a checkpoint's own evaluation is total and two-valued: a condition that raises or answers falsy is a FAILED checkpoint, never an exception
shape("CheckpointC", phase="enum:Phase", condition="callback", name="str")
contract(FC + "::Checkpoint.evaluate", "C14", self_type="CheckpointC", params={"ctx": "obj:OperationContext"},
         callbacks={"self.condition": {"returns": "any", "raises": ("Exception",)}}, raises=[],
         ensures={"passed-or-failed": "result == CheckpointResult.PASSED or result == CheckpointResult.FAILED",
                  "condition-consulted-once": "calls_to('condition') == 1"})
