"""C16 — typed wiring: no type/integrity-violating flow; modules run once, in order.
operon_ai/core/wagent.py, operon_ai/core/wiring_runtime.py"""
from pyvc.spec import *

FW = "operon_ai/core/wagent.py"
FR = "operon_ai/core/wiring_runtime.py"

shape("PortType", data_type="enum:DataType", integrity="enum:IntegrityLabel")
shape("ModuleSpec", name="str", inputs="dict:str,obj:PortType", outputs="dict:str,obj:PortType", capabilities="set:enum:Capability")
shape("Wire", src_module="str", src_port="str", dst_module="str", dst_port="str")
shape("WiringDiagram", modules="dict:str,obj:ModuleSpec", wires="list:obj:Wire")
shape("TypedValue", data_type="enum:DataType", integrity="enum:IntegrityLabel", value="any")
shape("DiagramExecutor", diagram="obj:WiringDiagram", _handlers="dict:str,callback")


def flows(src, dst):
    """a connection is acceptable exactly when the data types are equal and the source integrity is at least the destination's"""
    return src.data_type == dst.data_type and src.integrity.value >= dst.integrity.value


construct("PortType", "operon_ai.core.wagent", {"data_type": "@enum:DataType.TEXT", "integrity": "@enum:IntegrityLabel.UNTRUSTED"})

contract(FW + "::PortType.can_flow_to", "C16", params={"other": "obj:PortType"}, raises=[],
         ensures={"exactly-the-flow-rule": "result == flows(self, other)"})
contract(FW + "::PortType.require_flow_to", "C16", params={"other": "obj:PortType"}, raises=["WiringError"],
         ensures={"returns-only-for-acceptable-flows": "flows(self, other)"},
         xensures={"raises-only-for-unacceptable-flows": "not flows(self, other)"})

contract(FW + "::WiringDiagram.add_module", "C16", params={"module": "obj:ModuleSpec"}, raises=["WiringError"],
         ensures={"added": "module.name in self.modules and self.modules[module.name] is module and module.name not in old(self).modules",
                  "wires-untouched": "len(self.wires) == len(old(self).wires)"},
         xensures={"duplicate-refused": "module.name in old(self).modules and len(self.wires) == len(old(self).wires)"})

contract(FW + "::WiringDiagram.connect", "C16", raises=["WiringError"],
         ensures={
             "accepted-exactly-when-ports-exist-and-flow-ok": "src_module in self.modules and src_port in self.modules[src_module].outputs and "
                                                              "dst_module in self.modules and dst_port in self.modules[dst_module].inputs and "
                                                              "flows(self.modules[src_module].outputs[src_port], self.modules[dst_module].inputs[dst_port])",
             "one-wire-appended": "len(self.wires) == len(old(self).wires) + 1 and self.wires[-1].src_module == src_module and self.wires[-1].src_port == src_port "
                                  "and self.wires[-1].dst_module == dst_module and self.wires[-1].dst_port == dst_port",
         },
         xensures={
             "refused-leaves-wires-unchanged": "len(self.wires) == len(old(self).wires)",
             "refused-only-when-port-missing-or-flow-bad": "not (src_module in self.modules and src_port in self.modules[src_module].outputs and "
                                                           "dst_module in self.modules and dst_port in self.modules[dst_module].inputs and "
                                                           "flows(self.modules[src_module].outputs[src_port], self.modules[dst_module].inputs[dst_port]))",
         })

CAP_LOOP = "for module in self.modules.values()"
contract(FW + "::WiringDiagram.required_capabilities", "C16", ghost_params={"j": "int", "c0": "enum:Capability"}, raises=[],
         loops={CAP_LOOP: {"invariant": ["implies(0 <= j and j < _k and c0 in nth_value(self.modules, j).capabilities, c0 in required)"],
                           "types": {"required": "set:enum:Capability"},
                           "property_level": ["implies(0 <= j and j < _k and c0 in nth_value(self.modules, j).capabilities, c0 in required)"]}},
         ensures={"contains-every-module-capability": "implies(0 <= j and j < len(self.modules) and c0 in nth_value(self.modules, j).capabilities, c0 in result)"})

VAL = {"value": "union:obj:TypedValue|any", "port": "obj:PortType"}
contract(FR + "::_coerce_output", "C16", params=VAL, raises=["WiringError"],
         ensures={"labelled-exactly-as-the-port": "result.data_type == port.data_type and result.integrity == port.integrity",
                  "labelled-value-passes-through": "implies(is_obj(value), result is value)"},
         xensures={"rejected-only-when-mislabelled": "is_obj(value) and (value.data_type != port.data_type or value.integrity != port.integrity)"})
contract(FR + "::_coerce_input", "C16", params=VAL, raises=["WiringError"],
         ensures={"type-equal-integrity-at-least": "result.data_type == port.data_type and result.integrity.value >= port.integrity.value"},
         xensures={"rejected-only-when-violating": "is_obj(value) and (value.data_type != port.data_type or value.integrity.value < port.integrity.value)"})

contract(FR + "::DiagramExecutor.register_module", "C16", params={"handler": "callback"}, raises=["WiringError"],
         ensures={"only-known-modules": "name in self.diagram.modules and name in self._handlers"},
         xensures={"unknown-module-refused": "name not in self.diagram.modules"})


def native_replay(rep):
    import os, sys
    sys.path.insert(0, os.path.dirname(os.path.dirname(os.path.abspath(__file__))))
    from native import c16_bounded
    n, bad = c16_bounded.search(0, 300)
    if bad is None:
        return {"confirmed": False, "observed": f"no violation among {n} generated diagrams/flows"}
    return {"confirmed": True, "observed": bad, "found_by": f"bounded diagram generation ({n} cases)"}


# ---------------------------------------------------------------- DiagramExecutor.execute on fixed diagram SHAPES (shape-bounded, value-unbounded)
# The pre-state is built by running the setup function below symbolically on the real classes (add_module / connect / register_module): port
# types, external values and handler outputs are arbitrary (symbolic), the object graph (which modules, which wires, declaration order) is
# fixed per variant.  execute() then runs without any loop being cut: for that shape the statement is proved for all labels and values.
# The general (any diagram) statement stays with the bounded stand-in.
TV = "union:obj:TypedValue|any"
G2 = {"t_out": "obj:PortType", "t_in": "obj:PortType", "v_src": TV, "v_ext": TV, "enforce": "bool"}


def chain_sink_declared_first(t_out, t_in, v_src, v_ext, enforce):
    d = WiringDiagram()
    d.add_module(ModuleSpec(name="sink", inputs={"i": t_in}, outputs={}))
    d.add_module(ModuleSpec(name="src", inputs={}, outputs={"o": t_out}))
    d.connect("src", "o", "sink", "i")
    ex = DiagramExecutor(d)
    ex.register_module("src", lambda inputs: {"o": v_src})
    ex.register_module("sink", lambda inputs: {})
    return {"self": ex, "external_inputs": None, "enforce_static_checks": enforce}


def chain_sink_first_with_external_on_the_wired_port(t_out, t_in, v_src, v_ext, enforce):
    d = WiringDiagram()
    d.add_module(ModuleSpec(name="sink", inputs={"i": t_in}, outputs={}))
    d.add_module(ModuleSpec(name="src", inputs={}, outputs={"o": t_out}))
    d.connect("src", "o", "sink", "i")
    ex = DiagramExecutor(d)
    ex.register_module("src", lambda inputs: {"o": v_src})
    ex.register_module("sink", lambda inputs: {})
    return {"self": ex, "external_inputs": {"sink": {"i": v_ext}}, "enforce_static_checks": enforce}


def chain_src_first_with_external_on_the_wired_port(t_out, t_in, v_src, v_ext, enforce):
    d = WiringDiagram()
    d.add_module(ModuleSpec(name="src", inputs={}, outputs={"o": t_out}))
    d.add_module(ModuleSpec(name="sink", inputs={"i": t_in}, outputs={}))
    d.connect("src", "o", "sink", "i")
    ex = DiagramExecutor(d)
    ex.register_module("src", lambda inputs: {"o": v_src})
    ex.register_module("sink", lambda inputs: {})
    return {"self": ex, "external_inputs": {"sink": {"i": v_ext}}, "enforce_static_checks": enforce}


def self_loop_seeded_from_outside(t_out, t_in, v_src, v_ext, enforce):
    d = WiringDiagram()
    d.add_module(ModuleSpec(name="a", inputs={"i": t_in}, outputs={"o": t_out}))
    d.connect("a", "o", "a", "i")
    ex = DiagramExecutor(d)
    ex.register_module("a", lambda inputs: {"o": v_src})
    return {"self": ex, "external_inputs": {"a": {"i": v_ext}}, "enforce_static_checks": enforce}


def two_cycle_unseeded(t_out, t_in, v_src, v_ext, enforce):
    d = WiringDiagram()
    d.add_module(ModuleSpec(name="a", inputs={"i": t_in}, outputs={"o": t_out}))
    d.add_module(ModuleSpec(name="b", inputs={"i": t_in}, outputs={"o": t_out}))
    d.connect("a", "o", "b", "i")
    d.connect("b", "o", "a", "i")
    ex = DiagramExecutor(d)
    ex.register_module("a", lambda inputs: {"o": v_src})
    ex.register_module("b", lambda inputs: {"o": v_src})
    return {"self": ex, "external_inputs": None, "enforce_static_checks": enforce}


def chain_wired_after_the_executor_was_built(t_out, t_in, v_src, v_ext, enforce):
    d = WiringDiagram()
    d.add_module(ModuleSpec(name="src", inputs={}, outputs={"o": t_out}))
    d.add_module(ModuleSpec(name="sink", inputs={"i": t_in}, outputs={}))
    ex = DiagramExecutor(d)
    ex.register_module("src", lambda inputs: {"o": v_src})
    ex.register_module("sink", lambda inputs: {})
    d.connect("src", "o", "sink", "i")            # the diagram is wired AFTER the executor exists: execute() must see the current wires
    return {"self": ex, "external_inputs": None, "enforce_static_checks": enforce}


def second_source_wired_after_the_executor_was_built(t_out, t_in, v_src, v_ext, enforce):
    d = WiringDiagram()
    d.add_module(ModuleSpec(name="src", inputs={}, outputs={"o": t_out}))
    d.add_module(ModuleSpec(name="src2", inputs={}, outputs={"o": t_out}))
    d.add_module(ModuleSpec(name="sink", inputs={"i": t_in}, outputs={}))
    d.connect("src", "o", "sink", "i")
    ex = DiagramExecutor(d)
    ex.register_module("src", lambda inputs: {"o": v_src})
    ex.register_module("src2", lambda inputs: {"o": v_src})
    ex.register_module("sink", lambda inputs: {})
    d.connect("src2", "o", "sink", "i")
    return {"self": ex, "external_inputs": None, "enforce_static_checks": enforce}


def three_chain_declared_backwards(t_out, t_in, v_src, v_ext, enforce):
    d = WiringDiagram()
    d.add_module(ModuleSpec(name="c", inputs={"i": t_in}, outputs={}))
    d.add_module(ModuleSpec(name="b", inputs={"i": t_in}, outputs={"o": t_out}))
    d.add_module(ModuleSpec(name="a", inputs={}, outputs={"o": t_out}))
    d.connect("a", "o", "b", "i")
    d.connect("b", "o", "c", "i")
    ex = DiagramExecutor(d)
    ex.register_module("a", lambda inputs: {"o": v_src})
    ex.register_module("b", lambda inputs: {"o": v_ext})
    ex.register_module("c", lambda inputs: {})
    return {"self": ex, "external_inputs": None, "enforce_static_checks": enforce}


def diamond_join_declared_first(t_out, t_in, v_src, v_ext, enforce):
    d = WiringDiagram()
    d.add_module(ModuleSpec(name="join", inputs={"l": t_in, "r": t_in}, outputs={}))
    d.add_module(ModuleSpec(name="left", inputs={"i": t_in}, outputs={"o": t_out}))
    d.add_module(ModuleSpec(name="right", inputs={"i": t_in}, outputs={"o": t_out}))
    d.add_module(ModuleSpec(name="top", inputs={}, outputs={"o": t_out}))
    d.connect("top", "o", "left", "i")
    d.connect("top", "o", "right", "i")
    d.connect("left", "o", "join", "l")
    d.connect("right", "o", "join", "r")
    ex = DiagramExecutor(d)
    ex.register_module("top", lambda inputs: {"o": v_src})
    ex.register_module("left", lambda inputs: {"o": v_ext})
    ex.register_module("right", lambda inputs: {"o": v_ext})
    ex.register_module("join", lambda inputs: {})
    return {"self": ex, "external_inputs": None, "enforce_static_checks": enforce}


EXE = FR + "::DiagramExecutor.execute"
contract(EXE, "C16", variant="three-chain-declared-backwards", options={"setup": "three_chain_declared_backwards"}, ghost_params=G2, raises=["WiringError"],
         ensures={"feeders-first-each-module-once": "len(result.execution_order) == 3 and result.execution_order[0] == 'a' and result.execution_order[1] == 'b' "
                                                    "and result.execution_order[2] == 'c'",
                  "wires-deliver-the-source-values": "result.modules['b'].inputs['i'] is result.modules['a'].outputs['o'] and "
                                                     "result.modules['c'].inputs['i'] is result.modules['b'].outputs['o']",
                  "delivered-values-are-label-safe": "result.modules['c'].inputs['i'].data_type == t_in.data_type and "
                                                     "result.modules['c'].inputs['i'].integrity.value >= t_in.integrity.value"})
contract(EXE, "C16", variant="diamond-join-declared-first", options={"setup": "diamond_join_declared_first"}, ghost_params=G2, raises=["WiringError"],
         ensures={"join-runs-last-each-module-once": "len(result.execution_order) == 4 and result.execution_order[0] == 'top' and result.execution_order[3] == 'join'",
                  "both-branches-are-fed-by-the-top": "result.modules['left'].inputs['i'] is result.modules['top'].outputs['o'] and "
                                                      "result.modules['right'].inputs['i'] is result.modules['top'].outputs['o']",
                  "join-gets-both-branch-outputs": "result.modules['join'].inputs['l'] is result.modules['left'].outputs['o'] and "
                                                   "result.modules['join'].inputs['r'] is result.modules['right'].outputs['o']"})
contract(EXE, "C16", variant="chain-wired-after-construction", options={"setup": "chain_wired_after_the_executor_was_built"}, ghost_params=G2, raises=["WiringError"],
         ensures={"feeder-runs-first-each-module-once": "len(result.execution_order) == 2 and result.execution_order[0] == 'src' and result.execution_order[1] == 'sink'",
                  "wire-delivers-the-source-value": "result.modules['sink'].inputs['i'] is result.modules['src'].outputs['o']"},
         xensures={"a-schedulable-diagram-is-refused-only-for-a-label-violation": "is_obj(v_src) and (v_src.data_type != t_out.data_type or v_src.integrity != t_out.integrity)"})
contract(EXE, "C16", variant="second-source-wired-after-construction", options={"setup": "second_source_wired_after_the_executor_was_built"}, ghost_params=G2,
         raises=["WiringError"], ensures={"a-cycle-or-a-doubly-sourced-port-is-never-executed": "False"})
contract(EXE, "C16", variant="chain-consumer-declared-first", options={"setup": "chain_sink_declared_first"}, ghost_params=G2, raises=["WiringError"],
         ensures={"feeder-runs-first-each-module-once": "len(result.execution_order) == 2 and result.execution_order[0] == 'src' and result.execution_order[1] == 'sink'",
                  "wire-delivers-the-source-value": "result.modules['sink'].inputs['i'] is result.modules['src'].outputs['o']",
                  "delivered-value-is-label-safe": "result.modules['sink'].inputs['i'].data_type == t_in.data_type and "
                                                   "result.modules['sink'].inputs['i'].integrity.value >= t_in.integrity.value"})
for name_ in ("chain_sink_first_with_external_on_the_wired_port", "chain_src_first_with_external_on_the_wired_port", "self_loop_seeded_from_outside",
              "two_cycle_unseeded"):
    contract(EXE, "C16", variant=name_.replace("_", "-"), options={"setup": name_}, ghost_params=G2, raises=["WiringError"],
             ensures={"a-cycle-or-a-doubly-sourced-port-is-never-executed": "False"})
