"""C01 — safe evaluator: confined, total, (resource-bounded: known finding).  operon_ai/organelles/mitochondria.py::Mitochondria.metabolize
Confinement is the effect contract checked by pyvc/scan_c01.py on the real walker AST; this file carries the totality / length-guard contract of
the entry point with the four pathway functions havocked (arbitrary value or arbitrary Exception)."""
from pyvc.spec import *

F = "operon_ai/organelles/mitochondria.py"
T = F + "::Mitochondria"
shape("Mitochondria", timeout="real", max_ros="real", silent="bool", allowed_capabilities="opt:set:enum:Capability",
      tools="dict:str,obj:SimpleTool", _total_atp_produced="real", _ros_accumulated="real", _operations_count="int")
shape("SimpleTool", name="str", description="str", func="callback", required_capabilities="set:enum:Capability", parameters_schema="any")
shape("MetabolicResult", success="bool", atp="opt:obj:ATP", error="opt:str", ros_level="real", pathway="opt:enum:MetabolicPathway")
shape("ATP", value="any", pathway="enum:MetabolicPathway", efficiency="real", execution_time_ms="real")
construct("Mitochondria", "operon_ai.organelles.mitochondria", {"silent": True})
assume_config("Mitochondria", "timeout-positive", "self.timeout > 0")

PATHS = {"Mitochondria._glycolysis": {"returns": "any", "raises": ("Exception",)},
         "Mitochondria._krebs_cycle": {"returns": "any", "raises": ("Exception",)},
         "Mitochondria._oxidative_phosphorylation": {"returns": "any", "raises": ("Exception",)},
         "Mitochondria._beta_oxidation": {"returns": "any", "raises": ("Exception",)},
         # the pathway chooser is pure string matching (str.lower/strip/startswith/in on str, tool names are str): total by the externals table;
         # havocked here because z3's sequence solver does not cope with its substring tests together with the 10000-character length guard
         "Mitochondria._detect_pathway": {"returns": "enum:MetabolicPathway", "raises": ()}}

contract(T + ".metabolize", "C01", params={"expression": "str", "pathway": "opt:enum:MetabolicPathway"},
         callbacks=PATHS, raises=[], options={"strlen": "uninterpreted"},
         ensures={
             "too-long-is-refused-before-any-parsing": "implies(len(expression) > MAX_EXPRESSION_LENGTH, not result.success and calls_to('_glycolysis') + calls_to('_krebs_cycle') "
                                                       "+ calls_to('_oxidative_phosphorylation') + calls_to('_beta_oxidation') == 0)",
             "pathway-exception-becomes-failure-result": "implies(raised('_glycolysis') or raised('_krebs_cycle') or raised('_oxidative_phosphorylation') or "
                                                         "raised('_beta_oxidation'), not result.success and result.error is not None)",
             "success-carries-the-pathway-value": "implies(result.success, result.atp is not None and ncalls >= 1)",
             "at-most-one-pathway-runs": "calls_to('_glycolysis') + calls_to('_krebs_cycle') + calls_to('_oxidative_phosphorylation') + calls_to('_beta_oxidation') <= 1",
         })

contract(T + ".digest_glucose", "C01", params={"expression": "str"},
         callbacks={"Mitochondria.metabolize": {"returns": "obj:MetabolicResult", "raises": ()}}, raises=[],
         ensures={"always-a-string": "len(result) >= 0"})


# "explicitly registered tools": an engine starts with the tools it was given and nothing else -- in particular not with another engine's registry
contract(T + ".__init__", "C01", is_init=True, params={"tools": "none", "allowed_capabilities": "opt:set:enum:Capability"}, raises=[],
         ensures={"starts-without-tools": "len(self.tools) == 0"})


def native_replay(rep):
    import os, sys
    sys.path.insert(0, os.path.dirname(os.path.dirname(os.path.abspath(__file__))))
    from native import c01_bounded
    n, bad, seen = c01_bounded.c01_search(False)
    if bad is None:
        return {"confirmed": False, "observed": f"no raise / confinement breach among {n} forbidden and hostile inputs"}
    return {"confirmed": True, "observed": bad, "found_by": f"bounded corpus ({n} cases)"}


# ---------------------------------------------------------------- pathway auto-detection is total (it runs OUTSIDE metabolize's try block)
# the metabolize contract above uses _detect_pathway as a collaborator that always returns; this is that collaborator's own obligation
shape("MitochondriaD", tools="dict:str,any")
contract(T + "._detect_pathway", "C01", self_type="MitochondriaD", raises=[],
         loops={"for tool_name in self.tools": {"invariant": ["True"]}},
         ensures={})
