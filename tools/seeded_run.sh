#!/bin/bash
# Run the registered quick check of each seeded change's property against /repo with the change applied; revert straight afterwards.
# usage: tools/seeded_run.sh [name ...]      (default: every directory under seeded/)
cd "$(dirname "$0")/.."
[ -z "$(git -C /repo status --porcelain -- operon_ai)" ] || { echo "/repo is not clean"; exit 9; }
names=${@:-$(ls seeded | grep -v RESULTS | grep -v MUTATION)}
# evidence/ must only ever hold runs on the unchanged tree: keep it aside while the changed trees are checked
KEEP=$(mktemp -d); cp -a evidence "$KEEP/"; trap 'rm -rf evidence; cp -a "$KEEP/evidence" evidence; rm -rf "$KEEP"' EXIT
for n in $names; do
  p=$(python3 -c "import json;print(json.load(open('seeded/$n/meta.json'))['property'])")
  git -C /repo apply "$PWD/seeded/$n/patch.diff" || { echo "$n: patch does not apply"; continue; }
  VERIF_EVIDENCE_DIR=$KEEP/scratch timeout 1800 ./check $p --tier quick > /tmp/seeded_$n.out 2>&1; rc=$?
  git -C /repo checkout -- .
  v=$(grep -c '^VIOLATION' /tmp/seeded_$n.out)
  nf=$(grep '^VIOLATION' /tmp/seeded_$n.out | grep -vc 'no-failing-input-found')
  echo "$n property=$p exit=$rc violation_lines=$v with_replayed_input=$nf"
  grep -E '^  obligation' /tmp/seeded_$n.out | cut -c1-260 | head -3
  rm -f /tmp/seeded_$n.out
done
