#!/usr/bin/env python3
"""Prints the as-built status table (markdown) from pyvc/props.py + evidence/*.json + known_findings.json + seeded/*/meta.json."""
import json, os, sys, glob
ROOT = os.path.dirname(os.path.dirname(os.path.abspath(__file__)))
sys.path.insert(0, ROOT)
from pyvc.props import PROPS
kf = json.load(open(os.path.join(ROOT, "known_findings.json")))
print("| prop | functions under contract | obligations (discharged) | bounded stand-ins registered | open known findings | level claimed |")
print("|---|---|---|---|---|---|")
for pid in sorted(PROPS):
    ev = json.load(open(os.path.join(ROOT, "evidence", pid + ".json")))
    cov = ev["coverage"]
    fns = [f["target"].split("::")[1] for f in cov.get("functions_under_contract", [])]
    ex = [e["name"].split("/", 1)[1] for e in PROPS[pid].get("extra", []) if e.get("kind") == "bounded" and "quick" in e.get("tiers", ("quick", "thorough"))]
    scans = [e["name"].split("/", 1)[1] for e in PROPS[pid].get("extra", []) if e.get("kind") != "bounded" and "quick" in e.get("tiers", ("quick", "thorough"))]
    nf = len([f for f in kf["findings"] if f.get("property") == pid and f.get("status", "open") == "open"])
    print(f"| {pid} | {len(fns)}: {', '.join(fns)}{(' + AST contract checkers: ' + '; '.join(scans)) if scans else ''} | {cov['obligations']} ({cov['discharged']}) | {'; '.join(ex) or '-'} | {nf} | {ev['level']} |")
