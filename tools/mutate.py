#!/usr/bin/env python3
"""Generic mutation run over the functions under contract (self-validation of the checks, not a registered check).
For every property: every function listed in evidence/<id>.json gets AST-level mutants (comparison / boolean operator flips, constant +-1,
statement deletion, break<->continue, True<->False).  A mutant that the repository's own tests kill is discarded; the rest is run through
./check <id> --repo <scratch worktree>.  Output: JSON lines {prop, target, op, line, tests, check_exit}.
usage: python3 tools/mutate.py [--props C04,C09] [--jobs 8] [--max-per-function 12] [--out file]"""
import argparse, ast, copy, json, os, random, subprocess, sys, tempfile, shutil, concurrent.futures as cf
ROOT = os.path.dirname(os.path.dirname(os.path.abspath(__file__)))


def find_function(tree, qual):
    parts = qual.split(".")
    node = tree
    for p in parts:
        nxt = None
        for n in ast.walk(node) if node is not tree else tree.body:
            if isinstance(n, (ast.ClassDef, ast.FunctionDef)) and n.name == p and n is not node:
                nxt = n
                break
        if nxt is None:
            return None
        node = nxt
    return node if isinstance(node, ast.FunctionDef) else None


FLIP = {ast.Lt: ast.LtE, ast.LtE: ast.Lt, ast.Gt: ast.GtE, ast.GtE: ast.Gt, ast.Eq: ast.NotEq, ast.NotEq: ast.Eq, ast.Is: ast.IsNot, ast.IsNot: ast.Is,
        ast.In: ast.NotIn, ast.NotIn: ast.In}


def mutants_of(fn):
    """yield (description, mutate(copy_of_fn) -> None) pairs, identified by node index in ast.walk order"""
    nodes = list(ast.walk(fn))
    for idx, n in enumerate(nodes):
        if isinstance(n, ast.Compare) and len(n.ops) == 1 and type(n.ops[0]) in FLIP:
            yield (f"cmp {type(n.ops[0]).__name__}->{FLIP[type(n.ops[0])].__name__}", n.lineno, idx, "cmp")
        if isinstance(n, ast.BoolOp):
            yield (f"bool {type(n.op).__name__} flipped", n.lineno, idx, "bool")
        if isinstance(n, ast.UnaryOp) and isinstance(n.op, ast.Not):
            yield ("not removed", n.lineno, idx, "not")
        if isinstance(n, ast.Constant) and isinstance(n.value, bool):
            yield (f"{n.value}->{not n.value}", n.lineno, idx, "boolconst")
        elif isinstance(n, ast.Constant) and isinstance(n.value, int) and abs(n.value) <= 10:
            yield (f"{n.value}->{n.value + 1}", n.lineno, idx, "int+1")
        if isinstance(n, ast.Break):
            yield ("break->continue", n.lineno, idx, "brk")
        if isinstance(n, ast.Continue):
            yield ("continue->break", n.lineno, idx, "cont")
        if isinstance(n, (ast.Assign, ast.AugAssign)) or (isinstance(n, ast.Expr) and isinstance(n.value, ast.Call)):
            if isinstance(n, ast.Expr) and ast.unparse(n.value.func) in ("print",):
                continue
            yield (f"delete `{ast.unparse(n)[:50]}`", n.lineno, idx, "del")
        if isinstance(n, ast.AugAssign) and isinstance(n.op, (ast.Add, ast.Sub)):
            yield ("+= <-> -=", n.lineno, idx, "aug")


def apply(fn, idx, kind):
    nodes = list(ast.walk(fn))
    n = nodes[idx]
    if kind == "cmp":
        n.ops = [FLIP[type(n.ops[0])]()]
    elif kind == "bool":
        n.op = ast.Or() if isinstance(n.op, ast.And) else ast.And()
    elif kind == "not":
        for p in nodes:
            for f, v in ast.iter_fields(p):
                if v is n:
                    setattr(p, f, n.operand)
                elif isinstance(v, list) and n in v:
                    v[v.index(n)] = n.operand
    elif kind == "boolconst":
        n.value = not n.value
    elif kind == "int+1":
        n.value = n.value + 1
    elif kind in ("brk", "cont", "del"):
        new = ast.Continue() if kind == "brk" else (ast.Break() if kind == "cont" else ast.Pass())
        for p in nodes:
            for f, v in ast.iter_fields(p):
                if isinstance(v, list) and n in v:
                    v[v.index(n)] = ast.copy_location(new, n)
    elif kind == "aug":
        n.op = ast.Sub() if isinstance(n.op, ast.Add) else ast.Add()


VERBOSE = False


def head_source(rel, _cache={}):
    if rel not in _cache:
        _cache[rel] = subprocess.run(["git", "-C", "/repo", "show", "HEAD:" + rel], capture_output=True, text=True, check=True).stdout
    return _cache[rel]


def run_one(job):
    prop, rel, qual, desc, line, idx, kind, wt = job
    src = head_source(rel)          # the committed source, not /repo's working tree (which other experiments may have patched)
    tree = ast.parse(src)
    fn = find_function(tree, qual)
    if fn is None:
        return None
    seg_lines = (fn.lineno, fn.end_lineno)
    fn2 = copy.deepcopy(fn)
    apply(fn2, idx, kind)
    ast.fix_missing_locations(fn2)
    try:
        new_fn_src = ast.unparse(fn2)
    except Exception:
        return None
    lines = src.splitlines(True)
    indent = len(lines[fn.lineno - 1]) - len(lines[fn.lineno - 1].lstrip())
    # keep decorators (they precede fn.lineno in `lines` only if decorator_list is non-empty: unparse includes them)
    start = min([d.lineno for d in fn.decorator_list] + [fn.lineno])
    new_block = "".join((" " * indent + l + "\n") if l.strip() else "\n" for l in new_fn_src.splitlines())
    mutated = "".join(lines[:start - 1]) + new_block + "".join(lines[fn.end_lineno:])
    try:
        compile(mutated, rel, "exec")
    except SyntaxError:
        return None
    dst = os.path.join(wt, rel)
    orig = open(dst, encoding="utf-8").read()
    out = {"prop": prop, "target": f"{rel}::{qual}", "op": desc, "line": line}
    try:
        open(dst, "w", encoding="utf-8").write(mutated)
        env = dict(os.environ, PYTHONPATH=wt)
        t = subprocess.run(["/venv/bin/python", "-m", "pytest", "-q", "-x", "-p", "no:cacheprovider", "tests"], cwd=wt, env=env, capture_output=True, text=True, timeout=300)
        out["tests"] = "pass" if t.returncode == 0 else "fail"
        if t.returncode == 0:
            evd = tempfile.mkdtemp()
            env2 = dict(os.environ, VERIF_EVIDENCE_DIR=evd, OPERON_REPO=wt)
            c = subprocess.run([os.path.join(ROOT, "check"), prop, "--tier", "quick", "--repo", wt], cwd=ROOT, env=env2, capture_output=True, text=True, timeout=900)
            shutil.rmtree(evd, ignore_errors=True)
            out["check_exit"] = c.returncode
            v = [l for l in c.stdout.splitlines() if l.startswith("  obligation")]
            out["first"] = v[0][:200] if v else ""
            vl = [l for l in c.stdout.splitlines() if l.startswith("VIOLATION")]
            out["violation_lines"] = len(vl)
            out["without_input"] = len([l for l in vl if l.rstrip().endswith("no-failing-input-found")])
            if VERBOSE:
                out["stdout"] = c.stdout[-3000:]
                out["stderr"] = c.stderr[-3000:]
    except subprocess.TimeoutExpired:
        out["tests"] = out.get("tests", "timeout")
        out["check_exit"] = out.get("check_exit", "timeout")
    finally:
        open(dst, "w", encoding="utf-8").write(orig)
    return out


def main():
    ap = argparse.ArgumentParser()
    ap.add_argument("--props", default="")
    ap.add_argument("--jobs", type=int, default=8)
    ap.add_argument("--max-per-function", type=int, default=12)
    ap.add_argument("--out", default=os.path.join(ROOT, "seeded", "MUTATION.jsonl"))
    ap.add_argument("--rerun", default="", help="result file: re-run the mutants in it that match --select")
    ap.add_argument("--select", default="", help="python expression over a result row r, e.g. \"r['check_exit']==3\"")
    ap.add_argument("--verbose", action="store_true")
    ap.add_argument("--seed", type=int, default=0)
    ap.add_argument("--skip", default="", help="result file(s), comma separated: mutants already in them are not run again")
    a = ap.parse_args()
    global VERBOSE
    VERBOSE = a.verbose
    props = [p for p in a.props.split(",") if p] or [f"C{i:02d}" for i in range(1, 21)]
    rnd = random.Random(a.seed)
    done = set()
    for f in [x for x in a.skip.split(',') if x]:
        for l in open(f):
            r = json.loads(l)
            done.add((r['prop'], r['target'], r['op'], r['line']))
    jobs = []
    RER = []
    if a.rerun:
        RER = [json.loads(l) for l in open(a.rerun)]
        RER = [r for r in RER if r.get("tests") == "pass" and eval(a.select or "True", {"r": r})]
        props = sorted({r["prop"] for r in RER})
    if a.rerun:
        for r in RER:
            rel, qual = r["target"].split("::")
            fn = find_function(ast.parse(head_source(rel)), qual)
            for (desc, line, idx, kind) in (mutants_of(fn) if fn is not None else []):
                if (desc, line) == (r["op"], r["line"]):
                    jobs.append([r["prop"], rel, qual, desc, line, idx, kind, None])
        props = []
    for p in props:
        ev = json.load(open(os.path.join(ROOT, "evidence", p + ".json")))
        seen = set()
        for f in ev["coverage"]["functions_under_contract"]:
            tgt = f["target"]
            if "::" not in tgt or tgt in seen or tgt.endswith("lemmas"):
                continue
            seen.add(tgt)
            rel, qual = tgt.split("::")
            tree = ast.parse(head_source(rel))
            fn = find_function(tree, qual)
            if fn is None:
                continue
            ms = [m for m in mutants_of(fn) if (p, tgt, m[0], m[1]) not in done]
            rnd.shuffle(ms)
            if a.rerun:
                want = {(r["op"], r["line"]) for r in RER if r["prop"] == p and r["target"] == tgt}
                ms = [m for m in ms if (m[0], m[1]) in want]
            else:
                ms = ms[:a.max_per_function]
            for (desc, line, idx, kind) in ms:
                jobs.append([p, rel, qual, desc, line, idx, kind, None])
    print(f"{len(jobs)} mutants", file=sys.stderr)
    wts = []
    for k in range(a.jobs):
        wt = f"/tmp/mut_wt_{k}"
        subprocess.run(["git", "-C", "/repo", "worktree", "remove", "--force", wt], capture_output=True)
        subprocess.run(["git", "-C", "/repo", "worktree", "add", "-q", "--detach", wt, "HEAD"], check=True)
        wts.append(wt)
    import queue, threading
    q = queue.Queue()
    for j in jobs:
        q.put(j)
    lock = threading.Lock()
    outf = open(a.out, "w")

    def worker(wt):
        while True:
            try:
                j = q.get_nowait()
            except queue.Empty:
                return
            j[7] = wt
            try:
                r = run_one(tuple(j))
            except Exception as e:      # noqa
                r = {"prop": j[0], "target": f"{j[1]}::{j[2]}", "op": j[3], "line": j[4], "error": f"{type(e).__name__}: {e}"[:200]}
            if r:
                with lock:
                    outf.write(json.dumps(r) + "\n")
                    outf.flush()
    ths = [threading.Thread(target=worker, args=(wt,)) for wt in wts]
    for t in ths:
        t.start()
    for t in ths:
        t.join()
    for wt in wts:
        subprocess.run(["git", "-C", "/repo", "worktree", "remove", "--force", wt], capture_output=True)
    subprocess.run(["git", "-C", "/repo", "worktree", "prune"], capture_output=True)


if __name__ == "__main__":
    main()
