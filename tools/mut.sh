#!/bin/bash
# usage: tools/mut.sh <patch file> <prop> [tier]   -- apply a patch to /repo, run the check with evidence redirected, revert
cd "$(dirname "$0")/.."
git -C /repo apply "$(realpath "$1")" || exit 9
VERIF_EVIDENCE_DIR=$(mktemp -d) timeout 3000 ./check $2 --tier ${3:-quick} 2>&1 | grep -v KNOWN | cut -c1-${COLS:-400}
git -C /repo checkout -- .
