#!/usr/bin/env python3
"""Regenerate MANIFEST.json from pyvc/props.py (claimed checks) and properties.jsonl (the rest -> not_applicable)."""
import json, os, sys
ROOT = os.path.dirname(os.path.dirname(os.path.abspath(__file__)))
sys.path.insert(0, ROOT)
from pyvc.props import PROPS, NOT_APPLICABLE
props = [json.loads(l) for l in open(os.path.join(ROOT, "properties.jsonl"))]
checks = []
for p in props:
    pid = p["id"]
    if pid not in PROPS or PROPS[pid].get("disabled"):
        continue
    P = PROPS[pid]
    checks.append({
        "property_id": pid,
        "quick_cmd": f"./check {pid} --tier quick",
        "thorough_cmd": f"./check {pid} --tier thorough",
        "evidence_file": f"/verif/evidence/{pid}.json",
        "replay_cmd_template": "./check replay {path}",
        "engine": "pyvc",
        "level_claimed": {"category": P.get("level", "proof"), "text": P["level_text"], "design_ref": f"DESIGN.md section 3 ({pid})"},
        "level_note": P["level_note"],
        "technique": P.get("technique", "contract-based deductive verification: VCs generated from the real ASTs of /repo by symbolic execution against sidecar contracts, discharged by z3 (cvc5 for unknowns); counter-models replayed natively"),
    })
na = [{"property_id": p["id"], "reason": NOT_APPLICABLE.get(p["id"], "check not built yet (build in progress, see DESIGN.md section 8)")}
      for p in props if p["id"] not in PROPS or PROPS[p["id"]].get("disabled")]
m = {"version": 1,
     "setup_cmd": "./setup.sh",
     "hooks": {"guard": "OPERON_VERIF", "enable": "no hooks: /repo is not instrumented; observation is by injected callbacks/locks and public fields",
               "baseline_off_cmd": "cd /repo && /venv/bin/python -m pytest -ra -q -p no:cacheprovider --timeout=900 --continue-on-collection-errors",
               "source_commits": [], "add_only": True},
     "engines": [{"name": "pyvc", "path": "/verif/pyvc", "serves_properties": [c["property_id"] for c in checks],
                  "kind_free_text": "VC generator (symbolic executor over Python ast, re-reads /repo every run) + z3/cvc5 + native replay under /venv/bin/python"}],
     "checks": checks,
     "notes": "Exit codes of ./check: 0 held / 1 VIOLATION / 2 undecided / 3 checker error. Known findings: known_findings.json.",
     "not_applicable": na}
json.dump(m, open(os.path.join(ROOT, "MANIFEST.json"), "w"), indent=1)
print("checks:", [c["property_id"] for c in checks], "n/a:", len(na))
