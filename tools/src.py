#!/usr/bin/env python3
"""print a module / class / function of /repo without docstrings and comments: tools/src.py path [Qual.name ...]"""
import ast, sys
src = open(sys.argv[1]).read()
t = ast.parse(src)
for n in ast.walk(t):
    if isinstance(n, (ast.FunctionDef, ast.ClassDef, ast.Module, ast.AsyncFunctionDef)) and n.body and isinstance(n.body[0], ast.Expr) \
            and isinstance(n.body[0].value, ast.Constant) and isinstance(n.body[0].value.value, str):
        n.body = n.body[1:] or [ast.Pass()]
want = sys.argv[2:]
def find(q):
    parts = q.split(".")
    body = t.body
    node = None
    for p in parts:
        node = next((x for x in body if isinstance(x, (ast.ClassDef, ast.FunctionDef)) and x.name == p), None)
        if node is None:
            return None
        body = node.body
    return node
if not want:
    print(ast.unparse(t))
for q in want:
    n = find(q)
    print(ast.unparse(n) if n else f"# {q} not found")
    print()
