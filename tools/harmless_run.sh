#!/bin/bash
# Harmless-edit corpus: semantics-preserving edits of /repo; every affected check must NOT report a violation (exit 0; exit 2 = undecided is
# reported but is not an alarm).  usage: tools/harmless_run.sh [name ...]
cd "$(dirname "$0")/.."
[ -z "$(git -C /repo status --porcelain -- operon_ai)" ] || { echo "/repo is not clean"; exit 9; }
declare -A PROPS=( [H01]="C04 C05" [H02]="C07 C08" [H03]="C09" [H04]="C19" [H05]="C06" [H06]="C10" [H07]="C13" [H08]="C20" [H09]="C14 C15" [H10]="C01 C02" [H11]="C17" [H12]="C12" [H13]="C01 C02" [H14]="C19" [H16]="C06" [H17]="C12" [H18]="C01 C02" [H21]="C13" [H22]="C09" [H23]="C03 C01" [B01]="C14 C15" [B02]="C14 C15" [B03]="C14" [B04]="C14" [B05]="C14 C15" [B06]="C15 C14" [B07]="C14" [B08]="C03 C01" [B09]="C06" [B10]="C19" [B11]="C12" [B12]="C10" [A01]="C01 C02" [A02]="C01 C02" [A03]="C03 C01" [A04]="C04 C05" [A05]="C05 C04" [A06]="C06" [A07]="C07 C08" [A08]="C08 C07" [A09]="C09" [A10]="C10" [A11]="C11" [A12]="C12" [A13]="C13" [A14]="C14 C15" [A15]="C15 C14" [A16]="C16" [A17]="C17" [A18]="C18" [A19]="C19" [A20]="C20" [D01]="C13" [D02]="C17" [D03]="C17" [D04]="C20" [D05]="C03 C10" )
names=${@:-$(ls harmless | sed 's/\.diff$//')}
KEEP=$(mktemp -d)
rc_all=0
for n in $names; do
  key=${n%%_*}
  git -C /repo apply "$PWD/harmless/$n.diff" || { echo "$n: patch does not apply"; rc_all=9; continue; }
  ( cd /repo && /venv/bin/python -m pytest -q -p no:cacheprovider -x tests 2>&1 | tail -1 | sed "s/^/$n tests: /" )
  for p in ${PROPS[$key]}; do
    VERIF_EVIDENCE_DIR=$KEEP timeout 1800 ./check $p --tier quick > /tmp/harmless_$n.out 2>&1; rc=$?
    echo "$n $p exit=$rc $(grep -c '^VIOLATION' /tmp/harmless_$n.out) violation line(s)"
    [ $rc -eq 0 ] || { grep -E '^VIOLATION|^UNDECIDED|^CHECKER|^  obligation' /tmp/harmless_$n.out | cut -c1-240 | head -4; }
    [ $rc -eq 1 ] && rc_all=1
  done
  git -C /repo checkout -- .
done
rm -rf "$KEEP"
exit $rc_all
