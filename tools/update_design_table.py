#!/usr/bin/env python3
"""Replaces the as-built status table of DESIGN.md section 0.1 with the output of tools/asbuilt.py (evidence must be from the unchanged tree)."""
import os, subprocess, sys
ROOT = os.path.dirname(os.path.dirname(os.path.abspath(__file__)))
tab = subprocess.run([sys.executable, os.path.join(ROOT, "tools", "asbuilt.py")], capture_output=True, text=True, check=True).stdout.strip()
p = os.path.join(ROOT, "DESIGN.md")
s = open(p).read()
a = s.index("| prop | functions under contract |")
b = s.index("\n\n", a)
open(p, "w").write(s[:a] + tab + s[b:])
print("table updated:", tab.count("\n") - 1, "rows")
