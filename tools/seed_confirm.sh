#!/bin/bash
# usage: tools/seed_confirm.sh <prop> <worktree> [name]   -- confirm a seeded change in its scratch worktree, store it under seeded/, run the check against it
set -u
P=$1; WT=$2; NAME=${3:-$P}
cd "$WT" || exit 9
git diff -- operon_ai > /tmp/seed_$NAME.diff
[ -s /tmp/seed_$NAME.diff ] || { echo "empty diff"; exit 9; }
echo "== tests with change"; PYTHONPATH=$WT /venv/bin/python -m pytest -q -p no:cacheprovider -x tests 2>&1 | tail -1
echo "== demo with change"; PYTHONPATH=$WT /venv/bin/python demo.py >/tmp/seed_$NAME.with 2>&1; W=$?; echo "exit $W"; tail -2 /tmp/seed_$NAME.with
git apply -R /tmp/seed_$NAME.diff      # (not git stash: the stash is shared between worktrees)
echo "== demo without change"; PYTHONPATH=$WT /venv/bin/python demo.py >/tmp/seed_$NAME.without 2>&1; WO=$?; echo "exit $WO"; tail -1 /tmp/seed_$NAME.without
git apply /tmp/seed_$NAME.diff
D=/verif/seeded/$NAME; mkdir -p $D; cp /tmp/seed_$NAME.diff $D/patch.diff; cp demo.py $D/demo.py
cd /verif
KEEP=$(mktemp -d); cp -a evidence "$KEEP/"; trap 'rm -rf /verif/evidence; cp -a "$KEEP/evidence" /verif/evidence; rm -rf "$KEEP"' EXIT
git -C /repo apply $D/patch.diff || { echo "apply failed"; exit 9; }
echo "== check quick"; VERIF_EVIDENCE_DIR=$KEEP/scratch timeout 1800 ./check $P --tier quick > /tmp/seed_$NAME.check 2>&1; C=$?; echo "check exit $C"; grep -E "VIOLATION|UNDECIDED|CHECKER" /tmp/seed_$NAME.check | cut -c1-300
git -C /repo checkout -- .
echo "$P $NAME demo_with=$W demo_without=$WO check=$C"
