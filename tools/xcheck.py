#!/usr/bin/env python3
"""python3-vt tools/xcheck.py [contract file ...]  -- CPython cross-check of the symbolic encoder on exported path models (self-validation).
Exit 0: every checked path agrees; 3: a disagreement (an engine bug, or a state-builder limitation to be triaged)."""
import glob, json, os, subprocess, sys, tempfile
ROOT = os.path.dirname(os.path.dirname(os.path.abspath(__file__)))
sys.path.insert(0, ROOT)
os.environ["PYVC_XCHECK"] = "1"
from pyvc.cli import run_file
files = sys.argv[1:] or sorted(glob.glob(os.path.join(ROOT, "contracts", "C*.py")))
tot = {"checked": 0, "agree": 0, "skipped": 0, "exported": 0, "engine_skipped": 0}
bad = []
for f in files:
    res, _ = run_file(f)
    reps = []
    for fr in res:
        tot["engine_skipped"] += fr.xskipped
        for x in fr.xchecks:
            x["contract_file"] = os.path.relpath(f, ROOT)
            reps.append(x)
    tot["exported"] += len(reps)
    if not reps:
        continue
    with tempfile.NamedTemporaryFile("w", suffix=".json", delete=False) as tf:
        json.dump(reps, tf)
    p = subprocess.run(["/venv/bin/python", os.path.join(ROOT, "native", "replay.py"), "--xcheck", tf.name], capture_output=True, text=True, timeout=900, cwd=ROOT)
    os.unlink(tf.name)
    try:
        out = json.loads(p.stdout.strip().splitlines()[-1])
    except (IndexError, ValueError):
        print("xcheck crashed for", f, p.stderr[-400:])
        bad.append({"target": f, "what": ["native side crashed"]})
        continue
    for k in ("checked", "agree", "skipped"):
        tot[k] += out[k]
    bad += out["disagreements"]
    print(os.path.basename(f), {k: out[k] for k in ("checked", "agree", "skipped")}, out.get("skip_reasons", ""))
print(json.dumps(tot))
for d in bad[:30]:
    print("DISAGREE", d["target"], "|", d.get("path", "")[:200], "|", d["what"], "|", json.dumps(d.get("model", {}))[:400])
sys.exit(3 if bad else 0)
