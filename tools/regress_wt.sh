#!/bin/bash
# Regression on a scratch worktree (leaves /repo alone, so it can run while /repo is being read):
#   tools/regress_wt.sh seeded <name ...>     each seeded/<name>/patch.diff applied to a fresh worktree, its property's quick check run with --repo
#   tools/regress_wt.sh diff <prop> <file.diff ...>   arbitrary diffs against the named property
# The worktree lives under mktemp -d and is removed on exit; evidence goes to a scratch directory.
cd "$(dirname "$0")/.."
mode=$1; shift
WT=$(mktemp -d /tmp/regwt.XXXXXX); rmdir "$WT"
git -C /repo worktree add -q --detach "$WT" HEAD || exit 9
EV=$(mktemp -d)
trap 'git -C /repo worktree remove --force "$WT"; rm -rf "$EV"' EXIT
run() {  # name prop patch
  git -C "$WT" apply "$3" || { echo "$1: patch does not apply"; return; }
  OPERON_REPO=$WT VERIF_EVIDENCE_DIR=$EV timeout 1800 ./check $2 --tier quick --repo "$WT" > "$EV/out" 2>&1; rc=$?
  git -C "$WT" checkout -q -- .
  v=$(grep -c '^VIOLATION' "$EV/out"); nf=$(grep '^VIOLATION' "$EV/out" | grep -vc 'no-failing-input-found')
  echo "$1 property=$2 exit=$rc violation_lines=$v with_replayed_input=$nf"
  [ $rc -eq 0 ] || grep -E '^UNDECIDED|^CHECKER|^  obligation' "$EV/out" | cut -c1-240 | head -3
}
if [ "$mode" = seeded ]; then
  for n in "$@"; do
    p=$(python3 -c "import json;print(json.load(open('seeded/$n/meta.json'))['property'])")
    run "$n" "$p" "$PWD/seeded/$n/patch.diff"
  done
else
  p=$1; shift
  for f in "$@"; do run "$(basename "$f")" "$p" "$(realpath "$f")"; done
fi
