#!/bin/sh
# run every registered quick check on the current /repo tree (refreshes evidence/*.json); prints one line per property
cd "$(dirname "$0")/.." || exit 3
tier=${1:-quick}
rc=0
for id in $(python3 -c "import json;print(' '.join(c['property_id'] for c in json.load(open('MANIFEST.json'))['checks']))"); do
  out=$(./check "$id" --tier "$tier" 2>&1); st=$?
  echo "$out" | head -6 | cut -c1-220
  [ $st -ne 0 ] && { echo "  -> exit $st"; rc=1; }
done
exit $rc
