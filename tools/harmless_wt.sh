#!/bin/bash
# Harmless corpus on a scratch worktree (no test run; /repo untouched): every affected check must not report a violation.
# usage: tools/harmless_wt.sh [name-prefix ...]   (default: all of harmless/*.diff); the prop map is the one in tools/harmless_run.sh
cd "$(dirname "$0")/.."
eval "$(grep '^declare -A PROPS' tools/harmless_run.sh)"
names=${@:-$(ls harmless | sed 's/\.diff$//')}
rc_all=0
for n in $names; do
  key=${n%%_*}
  for p in ${PROPS[$key]}; do
    out=$(tools/regress_wt.sh diff $p harmless/$n.diff 2>&1); echo "$out" | sed "s/^/$n: /" | cut -c1-300
    echo "$out" | grep -q "exit=1" && rc_all=1
  done
done
exit $rc_all
