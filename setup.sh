#!/bin/sh
# offline setup: verify the two interpreters and solvers are present; nothing is installed or compiled
set -e
cd "$(dirname "$0")"
python3-vt -c "import z3; assert z3.get_version_string().startswith('5.'), z3.get_version_string()"
/venv/bin/python -c "import sys; sys.path.insert(0, '/repo'); import operon_ai"
test -x /usr/bin/cvc5 || echo "warning: /usr/bin/cvc5 missing (z3 unknowns stay undecided)"
mkdir -p evidence replays
echo "setup ok"
