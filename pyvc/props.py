"""Property table: which contract files and extra (bounded / scan) steps decide each property."""

COMMON_ASSUMPTIONS = [
    "A-real: Python floats are modelled as mathematical reals (threshold ties may differ in the last ulp)",
    "A-int: Python ints are mathematical integers (exact)",
    "A-clock: time.time()/datetime.now() return values of a monotone ghost clock",
    "A-print: print()/logging have no effect on program state",
    "A-baseexc: callbacks and externals raise only Exception subclasses (no KeyboardInterrupt/SystemExit/MemoryError)",
    "A-frame: havocked callbacks do not mutate or re-enter the object under verification unless the contract says so",
    "externals table pyvc/builtins_.py:EXTERNALS (assumed contracts on stdlib dependencies)",
    "the symbolic executor pyvc itself (validated by seeded mutants and a CPython differential check, not proved)",
]

PROPS = {
    "C04": {
        "contracts": ["contracts/C04_metabolism.py"],
        "level": "proof",
        "assumptions": ["on_state_change callback does not raise and does not re-enter the store",
                        "the quotient in _update_state is abstracted to an uninterpreted real (sound over-approximation: it only selects _state, "
                        "which every ledger clause treats as arbitrary)",
                        "regeneration_rate <= 0 in __init__ (a positive rate starts a thread; thread interleavings are C05)"],
        "trusted_base": ["threading.Lock semantics", "dataclass construction of EnergyTransaction"],
        "level_text": "Every ledger clause of the statement is a postcondition/invariant on the real ATP_Store methods (consume, regenerate, "
                      "transfer_to, convert_nadh_to_atp, dormancy, interest, reset, __init__), proved for all configurations and all pre-states "
                      "satisfying the invariant (hence all histories, by induction); bounded total spend follows from the potential clause.",
        "level_note": "Assumes: ints mathematical, floats reals, state-change callback neither raises nor re-enters, quotient in _update_state abstracted "
                      "(only feeds _state, which the clauses treat as arbitrary). Engine (pyvc) and z3 are trusted.",
    },
}

PROPS["C07"] = {
    "contracts": ["contracts/C07_C08_loops.py"],
    "level": "proof",
    "assumptions": ["BioAgent.express is havocked: arbitrary ActionProtein with an arbitrary action_type string, or an arbitrary Exception",
                    "prompts are encodable (no lone surrogates): str.encode() in the hash/cache-key computation is outside the statement",
                    "A-hash: md5[:16] cache keys of distinct prompts do not collide (otherwise a colliding prompt receives another request's cached verdict)",
                    "_cache_result eviction (min over a symbolic dict) is modelled as removing an arbitrary entry; its 'stored' clause is stated for caches below the size limit",
                    "on_block/on_permit callbacks do not raise"],
    "trusted_base": ["hashlib.sha256/md5 as deterministic uninterpreted functions", "dataclass construction"],
    "level_text": "The gate table G(logic, z, y) is transcribed from the statement and every exit of _apply_gate_logic and run is proved against it for all "
                  "six logics and ALL strings for both verdicts (not only the seven named); agent exceptions, token binding (sha256(prompt)[:16], issuer) "
                  "and the cache path (returned object is the stored one, verdict fields untouched) are postconditions proved on every path.",
    "level_note": "Agents are havocked collaborators; hash functions uninterpreted; cache-key collision freeness assumed; engine and z3 trusted.",
}
PROPS["C08"] = {
    "contracts": ["contracts/C07_C08_loops.py"],
    "level": "proof",
    "assumptions": ["failure_threshold >= 1 and recovery_timeout >= 0 (configuration)",
                    "BioAgent.express is havocked (arbitrary result or Exception); outcome classification is stated over the gate result's fields, "
                    "which run obtains from _apply_gate_logic's proved contract",
                    "the 'failures' of the statement are what run classifies as failure: executor FAILURE results and agent exceptions"],
    "trusted_base": ["threading.Lock semantics", "ghost clock for datetime.now()"],
    "level_text": "Breaker invariants (CLOSED iff count below threshold; OPEN has a failure time) are proved inductive over __init__, run, reset and the "
                  "three helpers for every threshold >= 1 and every real clock value; isolation while OPEN (no agent call, budget and counters untouched), "
                  "probe admission after the timeout, close-on-success, reopen-on-failure with timeout restart, failure counting and the disabled mode "
                  "are postconditions of run proved on all paths.",
    "level_note": "Agents havocked; clock monotone; engine and z3 trusted.",
}

PROPS["C09"] = {
    "contracts": ["contracts/C09_telomere.py"],
    "level": "proof",
    "assumptions": ["max_operations >= 1, error_threshold >= 1; tick cost >= 0; renew amount None or >= 0",
                    "on_phase_change / on_senescence callbacks neither raise nor re-enter",
                    "ratios (telomere ratio, error rate) are abstracted to uninterpreted reals: they select warnings and the extra error-rate trigger only",
                    "reset() is specified as re-construction (TERMINATED is absorbing modulo reset)",
                    "ghost field true_ticks (unit ticks that returned True since the last renew/reset) carries the Hayflick bound"],
    "trusted_base": ["threading.Lock/RLock semantics (kind read from __init__ on every run)"],
    "level_text": "The transition relation of the statement is a per-method postcondition over (old phase, new phase); length in [0,max] and the Hayflick "
                  "bound (true_ticks + remaining <= max) are object invariants proved inductive over every public method for all configurations; "
                  "'every call returns' is the lock-reentry obligation on each with-block (non-reentrant lock never re-acquired).",
    "level_note": "Callbacks assumed non-raising; ratios abstracted; engine and z3 trusted.",
}

PROPS["C19"] = {
    "contracts": ["contracts/C19_cascade.py"],
    "level": "other",
    "extra": [{"name": "C19/bounded[pipelines<=2]", "kind": "bounded", "tiers": ("quick",),
               "cmd": ["/venv/bin/python", "native/c19_bounded.py", "--stages", "2", "--out", "replays/C19-bounded.json"]},
              {"name": "C19/bounded[pipelines<=4]", "kind": "bounded", "tiers": ("thorough",), "timeout": 1800,
               "cmd": ["/venv/bin/python", "native/c19_bounded.py", "--stages", "4", "--out", "replays/C19-bounded.json"]}],
    "assumptions": ["checkpoints, processors and error handlers are havocked callbacks (arbitrary value or arbitrary Exception)",
                    "on_stage_complete / on_cascade_complete do not raise",
                    "the product acc*factor is a nonlinear real term compared syntactically (same term on both sides)",
                    "MAPKCascade preset: covered as an instance of Cascade.run (its stages are ordinary CascadeStage objects)"],
    "trusted_base": ["ghost call log of havocked callbacks", "element counter ghost for 'COMPLETED' results (updated at append and at status writes)"],
    "explanation": "Deductive part: the gate rule is a call-site precondition on every processor invocation (in run and in _run_single_stage), "
                   "halting is an inductive loop invariant (with halt_on_failure the loop is only re-entered with nothing blocked) plus a per-iteration "
                   "step clause, amplification and composition are per-iteration step clauses (each stage is fed the running signal, which then becomes its own output), "
                   "success/withheld-output and 'a successful run releases the running signal the last stage left' are postconditions; all for "
                   "pipelines of ANY length. Bounded part (labelled bounded): exhaustive enumeration of pipelines up to 2 (quick) / 4 (thorough) stages "
                   "on the real code, which also serves as witness finder for loop-internal obligations.",
    "level_text": "Mixed: unbounded deductive proof of the per-stage rules via loop invariant and call-site preconditions, plus a bounded exhaustive "
                  "stand-in for the whole-run claims (in-order completion, composition of all stages).",
    "level_note": "Callbacks havocked; counting of COMPLETED results uses a ghost counter maintained by the engine; the whole-run composition is the chain of the proved per-stage clauses (the induction itself is the loop rule, not a separate lemma).",
}

PROPS["C18"] = {
    "contracts": ["contracts/C18_loops.py"],
    "level": "other",
    "extra": [{"name": "C18/bounded[limits 0..3, adversary families]", "kind": "bounded", "tiers": ("quick",),
               "cmd": ["/venv/bin/python", "native/c18_bounded.py", "3"]},
              {"name": "C18/bounded[limits 0..12, adversary families]", "kind": "bounded", "tiers": ("thorough",),
               "cmd": ["/venv/bin/python", "native/c18_bounded.py", "12"]}],
    "explanation": "Deductive part (unbounded): call-site preconditions, loop invariants and decreases clauses on the three real loops for all limits and all "
                   "collaborator behaviours. Bounded part (labelled bounded): the statement's adversary families at limits 0..3 (0..5 thorough) on the real "
                   "code, also used as witness finder for loop-internal obligations.",
    "assumptions": ["generator, chaperone.fold_enhanced, worker_factory, worker.step, provider.complete(_with_tools), mitochondria.execute_tool_call, "
                    "_trigger_apoptosis, _calculate_entropy are havocked collaborators (arbitrary value / arbitrary Exception; fold_enhanced and the two "
                    "pure helpers assumed non-raising: fold_enhanced by C11's contract)",
                    "ChaperoneLoop._format_error_context is used through an assumed contract (returns a str, never raises): z3's sequence solver needs ~50 s "
                    "on its len(raw_output) > 200 guard, so its body is not under proof",
                    "'schema-valid' for HEALED/VALID results is folded.valid, which is C11's contract on fold_enhanced"],
    "trusted_base": ["ghost call log; per-iteration call counting at cut loops", "range() iteration bound"],
    "level_text": "Budgets are call-site preconditions on the havocked collaborators (the k-th generator call has index <= max_retries and receives exactly the "
                  "previous attempt's formatted error; worker_factory is called with regenerations <= max_regenerations; step index < max_steps; tool round "
                  "index <= max_iterations; at most one final plain completion) plus loop invariants and decreases clauses — for ALL limits and adversaries, "
                  "not limits 0..4.",
    "level_note": "Collaborators havocked; one formatter under an assumed contract; engine and z3 trusted.",
}

PROPS["C03"] = {
    "contracts": ["contracts/C03_tools.py"],
    "level": "proof",
    "extra": [{"name": "C03/scan[tool-call-sites]", "kind": "scan", "cmd": ["python3-vt", "pyvc/scan_c03.py"]},
              {"name": "C03/bounded[capability sets over 3 caps x 5 entry points]", "kind": "bounded", "tiers": ("thorough",),
               "cmd": ["/venv/bin/python", "native/c03_bounded.py"]}],
    "assumptions": ["tools are SimpleTool-shaped objects (name, required_capabilities: set[Capability], execute); a Tool exposing only `capabilities` "
                    "is covered by the same code path (getattr chain) but not modelled separately",
                    "Tool.execute and the expression walker _compute_node are havocked collaborators",
                    "ast.parse returns an abstract tree (attributes are uninterpreted functions of the node) or raises",
                    "the provider in the LLM tool loop is adversarial (arbitrary tool calls, arbitrary many)"],
    "trusted_base": ["symbolic sets over the Capability enum (z3 arrays) with subset as a quantified formula",
                     "syntactic scan: receivers flowing from `.tools`"],
    "level_text": "authorised(engine, tool) is a call-site precondition on every invocation of Tool.execute, proved in the expression pathway, in "
                  "execute_tool_call and (through execute_tool_call's contract) in the LLM tool loop, for all capability sets, registries, arguments and "
                  "histories (the clause holds from an arbitrary registry state); a repository scan obliges every tool execution site to be under such a contract.",
    "level_note": "Collaborators havocked; scan is syntactic; engine and z3 trusted.",
}

PROPS["C13"] = {
    "contracts": ["contracts/C13_lysosome.py"],
    "level": "other",
    "extra": [{"name": "C13/bounded[histories depth 3]", "kind": "bounded", "tiers": ("quick",), "cmd": ["/venv/bin/python", "native/c13_bounded.py", "3"]},
              {"name": "C13/bounded[two-thread schedules, one preemption]", "kind": "bounded", "cmd": ["/venv/bin/python", "native/c13_sched.py"]},
              {"name": "C13/bounded[histories depth 5]", "kind": "bounded", "tiers": ("thorough",), "timeout": 3000,
               "cmd": ["/venv/bin/python", "native/c13_bounded.py", "5"]}],
    "assumptions": ["max_queue_size >= 2, auto_digest_threshold >= 1",
                    "the digester table is the default one built by the real __init__ (re-derived symbolically every run); custom digesters are havocked callables in the bounded stand-in only",
                    "waste content is opaque user data: `in`, subscripts, attribute reads and calls on it may return anything or raise",
                    "list comprehensions over the symbolic queue (autophagy) are abstracted to a sub-sequence of unknown elements (length relation only)",
                    "thread schedules are NOT explored: 'from any number of threads' is covered by the lock-ownership clause (guarded fields only touched under the lock) "
                    "and the lock-reentry clause, plus the trusted reduction argument (critical sections of a data-race-free program serialise)",
                    "AutophagyDaemon is a client of ingest(): covered through ingest's contract, its own pruning logic is not under contract"],
    "trusted_base": ["Lipton-style reduction argument for lock-protected sections (not mechanised)", "threading.Lock/RLock semantics"],
    "explanation": "Deductive part: every with-block and every call into a lock-taking callee carries a lock-reentry obligation (so each call returns, for any "
                   "history); guarded fields carry ownership obligations; the queue bound and per-call conservation (taken = disposed + reported errors; expired = "
                   "length difference; ingest counts one) are invariants/postconditions; toxic items recycle nothing and reach the callback exactly once per "
                   "digestion (loop step clauses). Bounded part: operation histories of depth 3 (5 thorough) with raising digesters under a watchdog and a spy "
                   "subclass detecting unlocked writes.",
    "level_text": "Mixed proof + bounded + trusted reduction: schedules are out of reach of contracts; the discipline that implies atomicity is proved instead.",
    "level_note": "No schedule exploration; opaque waste content; default digester table; engine and z3 trusted.",
}

PROPS["C14"] = {
    "contracts": ["contracts/C14_coordination.py"],
    "level": "other",
    "extra": [{"name": "C14/bounded[fault injection, lists<=3]", "kind": "bounded", "tiers": ("quick",), "cmd": ["/venv/bin/python", "native/c14_bounded.py", "3"]},
              {"name": "C14/bounded[fault injection, lists<=7]", "kind": "bounded", "tiers": ("thorough",), "cmd": ["/venv/bin/python", "native/c14_bounded.py", "7"]}],
    "assumptions": ["THE STATEMENT IS PROVED END TO END for an arbitrary resource id r0 (ghost parameter): execute_operation ensures, on every exit path, that no registered resource is "
                    "owned by the operation, that the operation is no longer listed as active and that a resource it never requested keeps owner and hold count. The chain: "
                    "release_all_resources (loop over a snapshot of the tracked ids, visit-position invariant) is inlined into complete_operation / abort_operation, whose "
                    "registry-wide postconditions execute_operation uses THROUGH THEIR CONTRACTS, as it uses acquire_resource's (granted => owned and tracked; every other lock and "
                    "every other tracking entry untouched, also when it raises); the loop invariant of execute_operation is 'what the operation owns it tracks'",
                    "the other ways an operation ends are under the same clause: Watchdog.manual_kill and CoordinationSystem.kill_operation (the killed operation owns nothing and is "
                    "no longer listed), CoordinationSystem.shutdown (for an arbitrary operation that was active and an arbitrary resource: not owned by it afterwards; releasing only "
                    "keeps or clears owners, so a later abort cannot hand a resource back), Watchdog.execute (for an arbitrary event the watchdog's check() returns -- timeout, "
                    "starvation, deadlock victim -- the terminated operation owns nothing afterwards). These four assume the two registry invariants instead of proving them: "
                    "operations are listed under their own id, and what an operation owns it tracks",
                    "assumed at the top: the operation id is fresh (no registered resource is owned under it when the call starts: a `requires`), the registry is keyed by each "
                    "lock's own id (`requires`), and the havocked callbacks (work_fn, validate_fn, the checkpoints behind controller.advance) do not touch the controller's registry",
                    "a callee used through its contract with `modifies X[*]` re-freshes the fields of every object stored in the map X (identity kept; the pre-state view keeps the "
                    "entry values); the callee's own frame obligation covers direct fields of its tracked objects only -- that acquire_resource / complete / abort write no lock other "
                    "than through the clauses above is carried by their registry-wide postconditions, not by a separate frame check",
                    "tracked locks alias the registered locks (ctx.acquired_resources[r] is controller.resources[r]); registry keyed by each lock's own id",
                    "work_fn / validate_fn / checkpoints (controller.advance) are havocked; DependencyGraph updates and waiting-list maintenance are frame-only collaborators here (C15)",
                    "IntegratedCell.execute and the watchdog's timed kills reach the controller only through abort_operation, whose contract is proved"],
    "trusted_base": ["a loop over a snapshot of dict keys visits every key exactly once", "dataclass construction"],
    "explanation": "Deductive part: ResourceLock.try_acquire/release against their state machine with the invariant owner is None iff hold_count == 0; acquire_resource; "
                   "release_all_resources (per tracked lock: not owned by the operation afterwards — the clause that fails with hold_count=2); complete/abort (operation "
                   "removed, release_all called); execute_operation: on EVERY exit path exactly one of complete/abort has been called, no exception escapes, work runs at "
                   "most once and only after all acquisitions, validation only after completed work and on its result, success only if both succeeded. Bounded part: fault "
                   "injection over resource lists (with repeats, foreign holders, preemption) and kill/shutdown on the real system.",
    "level_text": "Deductive end to end: the registry-wide clauses of the statement are postconditions of execute_operation for an arbitrary resource id, through the "
                  "contracts of acquire_resource / complete_operation / abort_operation; manual kill, kill_operation, shutdown and the watchdog's kills likewise (under two assumed "
                  "registry invariants); bounded fault injection as witness finder.",
    "level_note": "Fresh operation id and callbacks that leave the registry alone are assumed; watchdog / kill / shutdown paths reach the controller through abort_operation; engine and z3 trusted.",
}

PROPS["C06"] = {
    "contracts": ["contracts/C06_quorum.py"],
    "level": "other",
    "extra": [{"name": "C06/bounded[electorates<=3]", "kind": "bounded", "tiers": ("quick",), "cmd": ["/venv/bin/python", "native/c06_bounded.py", "3"]},
              {"name": "C06/bounded[electorates<=6]", "kind": "bounded", "tiers": ("thorough",), "timeout": 3000, "cmd": ["/venv/bin/python", "native/c06_bounded.py", "6"]}],
    "assumptions": ["weights >= 0, 0 <= confidence <= 1; custom thresholds in (0,1) (counts for THRESHOLD); colony non-empty",
                    "ghost sums: sum(expr for v in L [if F]) is one real constant per (list, expr, filters) with: empty list => 0, non-negative terms => non-negative sum "
                    "(sum of a concatenation = sum of the parts); ghost counters per VoteType with the 4-way partition identity P+B+A+D = n (lemma library; not re-proved by z3)",
                    "the unanimity clause is read on votes the strategy counts (weight*confidence > 0, confidence >= 0.3 for CONFIDENCE): the statement's 'always PERMIT' "
                    "contradicts its own 'only if the criterion is met' for zero-weight permits",
                    "agents (BioAgent.express) and _protein_to_vote are havocked in run_vote; _protein_to_vote's own mapping is proved separately"],
    "trusted_base": ["z3 nonlinear real arithmetic for the ratio criteria"],
    "explanation": "Deductive part, for electorates of ANY size: each aggregator is proved equal to its stated criterion over (|P|,|B|, weighted sums) together with "
                   "'reached iff PERMIT' and 'no permit vote => not reached'; monotonicity and unanimity are lemmas over the criteria (pure arithmetic, z3); "
                   "_aggregate_votes: reported counts equal the ballots (ghost counters), min-voters gate; run_vote: one ballot per voter, failed voters abstain. "
                   "Bounded part (labelled bounded): electorates 1..3 (5 thorough) x all assignments x weight/confidence patterns x strategies x thresholds, incl. the "
                   "relational monotonicity checks on the real code. BAYESIAN is a recorded known finding.",
    "level_text": "Mixed proof + bounded; one strategy (BAYESIAN) is a known finding.",
    "level_note": "Ghost sums/counters are engine-level abstractions with stated axioms; engine and z3 trusted.",
}

PROPS["C10"] = {
    "contracts": ["contracts/C10_gates.py"],
    "level": "other",
    "extra": [{"name": "C10/bounded[signature instances x paddings x case x thresholds; hostile inputs; histories]", "kind": "bounded",
               "cmd": ["/venv/bin/python", "native/c10_bounded.py"]}],
    "assumptions": ["in the gate proofs `matches` is a deterministic total function M(signature, content) (uninterpreted); for substring signatures its definition "
                    "pattern.lower() in content.lower() is a separate proved postcondition; `re` is a trusted external (regex signatures: total, deterministic)",
                    "A-ascii: str.lower is a monoid homomorphism and lower(swapcase(c)) = lower(c); the embedding lemma is proved by z3's sequence theory on the lowered strings",
                    "embedding-monotonicity for REGEX signatures is not claimed deductively (false for anchored patterns); bounded stand-in over the shipped regex signatures",
                    "'blocked before' is read as blocked by signature or memory; a rate-limit refusal is not a judgement about the content",
                    "CharacterSetValidator's per-character loop and _measure_depth's recursion are covered by the bounded stand-in and by the callers' contracts "
                    "(validate never raises: every raising call is inside the repaired except clause), not by their own loop invariants",
                    "universal quantification over signatures by generalisation: ghost parameters j, j2 are arbitrary indices"],
    "trusted_base": ["hashlib.sha256 uninterpreted", "z3 sequence theory for the embedding lemma"],
    "explanation": "Deductive part: Membrane.filter — allowed only if the running maximum over ALL matching built-in/custom and learned signatures is below the threshold "
                   "(inductive loop invariants for an arbitrary signature index), memory precedes rules, signature blocks are remembered, every return path appends one "
                   "audit entry, no exception escapes; rate window bound as object invariant with the lock-ownership clause; learn/import/forget/threshold frames; "
                   "InnateImmunity.check analogous; shipped validators never raise and give a reason on rejection. Bounded part: instances of every shipped signature "
                   "embedded and case-perturbed, hostile inputs (surrogates, 50k-deep JSON, 5000-digit ints, 150k chars), histories, fake-clock rate limiting.",
    "level_text": "Mixed proof + bounded stand-in (regex matching semantics are external).",
    "level_note": "M(sig, content) uninterpreted in gate proofs; re/hashlib trusted; engine and z3 trusted.",
}

PROPS["C17"] = {
    "contracts": ["contracts/C17_surveillance.py"],
    "level": "other",
    "extra": [{"name": "C17/bounded[fingerprints across bounds x histories; Treg table; 40 training windows]", "kind": "bounded", "tiers": ("quick",),
               "cmd": ["/venv/bin/python", "native/c17_bounded.py"]},
              {"name": "C17/bounded[... 4000 training windows]", "kind": "bounded", "tiers": ("thorough",), "timeout": 3000,
               "cmd": ["/venv/bin/python", "native/c17_bounded.py", "--thorough"]}],
    "assumptions": ["the canary-accuracy minimum is part of the trained baseline (BaselineProfile.check treats it as a violation)",
                    "tolerance-rule conditions are havocked callables; ALERT is outside the IGNORE<MONITOR<ISOLATE<SHUTDOWN scale and excluded (TCell never produces it)",
                    "MHCDisplay.generate_peptide, ImmuneMemory.recall_by_hashes/store and ToleranceRecord.record_inspection are havocked collaborators in ImmuneSystem.inspect; "
                    "TCell.inspect, BaselineProfile.check and RegulatoryTCell.evaluate are used through their proved contracts",
                    "self-tolerance right after training (Thymus.train + statistics over the window) is NOT under contract: bounded stand-in over seeded random windows"],
    "trusted_base": ["statistics / hashlib / re inside generate_peptide (bounded part only)"],
    "explanation": "Deductive part: BaselineProfile.check returns no violation exactly when the fingerprint is inside the baseline (all 648 paths); TCell.inspect: CONFIRMED/CRITICAL "
                   "only with a baseline violation AND an independent second signal, inside-baseline is NONE/IGNORE for every flag/counter state, anergy is silent; Treg: CRITICAL "
                   "untouched, at most one step down; ImmuneSystem.inspect: the RETURNED response (including the memory path) acts only on a current violation and never "
                   "for a desensitised watcher, Treg keeps the threat level. Bounded part: fingerprints at and across every bound x operation sequences, rule tables, "
                   "train-then-inspect and return-to-baseline on seeded random observation windows.",
    "level_text": "Mixed proof + bounded (training statistics are external).",
    "level_note": "Collaborators havocked as listed; engine and z3 trusted.",
}

PROPS["C20"] = {
    "contracts": ["contracts/C20_genome.py"],
    "level": "other",
    "extra": [{"name": "C20/bounded[op sequences depth 3]", "kind": "bounded", "tiers": ("quick",), "cmd": ["/venv/bin/python", "native/c20_bounded.py", "3"]},
              {"name": "C20/bounded[op sequences depth 4]", "kind": "bounded", "tiers": ("thorough",), "timeout": 3000, "cmd": ["/venv/bin/python", "native/c20_bounded.py", "4"]}],
    "assumptions": ["universal statements over the gene map are proved for an arbitrary gene name q / arbitrary key index j (ghost parameters)",
                    "dict keys are pairwise distinct and the j-th key is a key (trusted structural facts, instantiated in the express loop)",
                    "'every refused attempt is logged' is read for mutate/rollback (the operations with a log); a refused re-add is reported by its False return",
                    "replicate: the child is built by the real constructor, which is havocked in the deductive part (opaque Genome()): only 'parent untouched' is proved there; "
                    "'child differs only in authorised genes' is covered by the bounded stand-in",
                    "get_hash is a deterministic function of the value map (json.dumps/md5 uninterpreted): 'hash unchanged' follows from 'values unchanged'",
                    "gene values are opaque user data"],
    "trusted_base": ["symbolic maps of objects with override lists; aliasing resolved by case split on key equality"],
    "explanation": "Deductive part: add_gene / mutate / rollback_mutation / set_expression / silence / activate against the abstract value map for an arbitrary gene: "
                   "unauthorised attempts change nothing and are logged unapproved, authorised ones set exactly that gene and are logged approved, rollback goes through "
                   "the same gate with the original value of the found approved mutation, expression operations never touch values or the log; express returns exactly the "
                   "non-silenced, non-dormant genes (conditional only when named) with their stored values (inductive loop invariant over the key order); replicate leaves "
                   "the parent untouched. Bounded part: all operation sequences of depth 3 (4 thorough) against a reference model, incl. child-vs-parent.",
    "level_text": "Mixed proof + bounded.",
    "level_note": "Constructor havocked in replicate; engine and z3 trusted.",
}

PROPS["C11"] = {
    "contracts": ["contracts/C11_chaperone.py"],
    "level": "other",
    "extra": [{"name": "C11/bounded[schemas x instances x 18 corruptions x orders]", "kind": "bounded", "tiers": ("quick",), "cmd": ["/venv/bin/python", "native/c11_bounded.py"]},
              {"name": "C11/bounded[... 1500 instances]", "kind": "bounded", "tiers": ("thorough",), "timeout": 3000, "cmd": ["/venv/bin/python", "native/c11_bounded.py", "--thorough"]}],
    "assumptions": ["json.loads and schema.model_validate are deterministic partial externals (succeed iff json_ok(s) / mv#ok(schema,d)); 'instance of the schema that re-validates' "
                    "is pydantic's assumed contract on model_validate's result",
                    "re.findall / re.sub are deterministic total externals; _coerce_types_tracked and _extract_json are used as deterministic functions in the lenient proofs "
                    "(their bodies — the coercion table — are covered by the bounded stand-in only); _coerce_types is PROVED to be the first component of "
                    "_coerce_types_tracked for the same arguments, which is what makes the plain and the enhanced lenient fold agree on their data",
                    "co-chaperone preprocessors and on_misfold do not raise; the per-strategy dispatcher is havocked in the cascade proof (arbitrary result or arbitrary Exception)",
                    "agreement of fold and fold_enhanced: each pair _fold_X / _fold_X_enhanced is proved against the SAME per-step specification; the whole-run agreement "
                    "(identical pattern order in both variants) is checked by the bounded stand-in"],
    "trusted_base": ["pydantic", "json", "re"],
    "explanation": "Deductive part: every _fold_* (plain and enhanced) — valid iff the respective JSON source parses and validates, and then the structure IS "
                   "model_validate(json.loads(text)) for text = strip(raw) / a regex match / the repaired text / the coerced extraction; invalid => no structure and a trace; "
                   "confidence bands (1.0 only STRICT); the cascades fold / fold_enhanced never raise for any dispatcher behaviour, return only valid attempts as valid, and "
                   "zero confidence on failure. Bounded part: generated schemas, instances and 18 corruption operators incl. 50k-deep nesting, on the real code.",
    "level_text": "Mixed proof + bounded (JSON/regex/pydantic semantics are external).",
    "level_note": "Externals as deterministic partial functions; engine and z3 trusted.",
}

PROPS["C15"] = {
    "contracts": ["contracts/C15_deadlock.py"],
    "level": "other",
    "extra": [{"name": "C15/bounded[digraphs<=4 nodes; histories depth 4]", "kind": "bounded", "tiers": ("quick",), "cmd": ["/venv/bin/python", "native/c15_bounded.py", "4"]},
              {"name": "C15/bounded[digraphs<=4 nodes; histories depth 5]", "kind": "bounded", "tiers": ("thorough",), "timeout": 3000, "cmd": ["/venv/bin/python", "native/c15_bounded.py", "5"]}],
    "assumptions": ["abstract view of the graph: set of (waiter, blocking, resource) triples; whole-view statements by generalisation over an arbitrary triple",
                    "DependencyGraph.remove_all_for_agent and remove_dependency ARE proved (for an arbitrary triple; loop over a key snapshot cut with a visit-position invariant, "
                    "exact membership of the filter comprehension); edge lists are typed as lists of pairs of strings (what add_dependency appends)",
                    "detect_cycle: the stack discipline of the closure DFS is proved; completeness of the search and that a reported list is a real cycle are "
                    "bounded only (every digraph with <= 4 nodes and <= 5 edges; histories)",
                    "trusted facts about dict iteration: each key of the snapshot is visited exactly once (ghost order = bijection onto the key set)",
                    "victim selection (_select_deadlock_victim: that the victim is the lowest-priority / oldest member) and PriorityInheritance frames are covered by the bounded "
                    "stand-in only; that a terminated victim owns nothing afterwards is the clause `terminated-operations-own-nothing` of Watchdog.execute, proved under C14 for "
                    "an arbitrary event of the watchdog (not re-proved here)",
                    "the reference wait-for relation of the bounded stand-in is maintained from the controller's own BLOCKED/ACQUIRED answers"],
    "trusted_base": ["injective value injections (instance axioms)", "ghost membership sets for append-only lists",
                     "filter comprehension over a list of scalar tuples: x in result <=> x in source and filter(x) (filters without calls)"],
    "explanation": "Deductive part: add_dependency adds exactly its triple to the view, remove_dependency / remove_all_for_agent remove exactly the triples they name "
                   "(for an arbitrary triple); acquire_resource: a BLOCKED acquisition adds the wait edge "
                   "(waiter, current owner, resource) and touches no foreign edge; the exactness obligations on successful acquire/release (only the acquirer's own wait may end) "
                   "FAIL on the current tree — the recorded known finding. Bounded part: DFS vs reference on all small digraphs, histories of depth 4 (5 thorough) vs a "
                   "reference wait-for relation, victim checks.",
    "level_text": "Graph maintenance (add / remove / remove-all) and the DFS stack discipline proved; the deductive core locates the defect (remove_all_for_agent is the "
                  "wrong call at the two call sites: known finding, not repaired); search completeness and victim selection bounded.",
    "level_note": "Graph maintenance is proved; search completeness of the DFS and victim selection are bounded only; engine and z3 trusted.",
}

PROPS["C16"] = {
    "contracts": ["contracts/C16_wiring.py"],
    "level": "other",
    "extra": [{"name": "C16/bounded[port pairs exhaustive; 300 random diagrams]", "kind": "bounded", "tiers": ("quick",), "cmd": ["/venv/bin/python", "native/c16_bounded.py"]},
              {"name": "C16/bounded[100000 random diagrams]", "kind": "bounded", "tiers": ("thorough",), "timeout": 3000, "cmd": ["/venv/bin/python", "native/c16_bounded.py", "--thorough"]}],
    "assumptions": ["DiagramExecutor.execute (a 100-line double loop over nested dicts with a ready-set scheduler) is proved on ten FIXED DIAGRAM SHAPES only (a three-module chain declared backwards, a diamond whose join is declared first, two-module chains in "
                    "both declaration orders, with and without an external value on the wired port, wired after the executor was built; self-loop; two-cycle; doubly sourced "
                    "port) for ARBITRARY port labels and handler outputs: on a fixed shape no loop is cut, so run-once / feeder-first / refusal are discharged for all values. "
                    "For general diagrams its clauses (label safety of every delivered value, run once and after all feeders, unschedulable diagrams raise) are checked by the "
                    "bounded stand-in (which also watches for non-termination); the label-safety argument it relies on — _coerce_output labels values exactly as the source "
                    "port, connect only accepts acceptable flows — IS proved for all inputs",
                    "required_capabilities: 'contains every module's capabilities' is proved (arbitrary module index and capability); 'contains nothing else' is bounded",
                    "IntegrityLabel is an IntEnum compared by value"],
    "trusted_base": ["frozen dataclasses", "dict.values() iteration order"],
    "explanation": "Deductive part: the acceptance rule (can_flow_to / require_flow_to return normally exactly for equal types and source integrity >= destination), "
                   "connect appends exactly one wire iff both ports exist and the flow is acceptable and leaves the wire list unchanged otherwise, add_module, "
                   "required_capabilities (inclusion), _coerce_output (result labelled exactly as the port; rejected only when mislabelled), _coerce_input, register_module. "
                   "Bounded part: exhaustive port pairs; seeded random diagrams with cycles/fan-in/missing sources/handlers and raw, labelled and mislabelled handler outputs.",
    "level_text": "Leaf functions proved for all inputs; the scheduler proved on ten fixed diagram shapes (all labels and values) and bounded for general diagrams.",
    "level_note": "execute under contract per diagram shape only; engine and z3 trusted.",
}

PROPS["C01"] = {
    "contracts": ["contracts/C01_evaluator.py"],
    "level": "other",
    "extra": [{"name": "C01/effects[walker effect contract, tables, no-dynamic-exec]", "kind": "scan", "cmd": ["python3-vt", "pyvc/scan_c01.py", "C01"]},
              {"name": "C01/bounded[forbidden constructs, hostile strings, cost bombs]", "kind": "bounded", "cmd": ["/venv/bin/python", "native/c01_bounded.py", "C01"], "timeout": 600}],
    "assumptions": ["confinement is an EFFECT contract checked by a provenance type checker over the real AST of _compute_node (pyvc/effects.py): every call is the walker on a node field, "
                    "a walker primitive on nodes, or a table callable applied to evaluated values; evaluated values are never attribute-accessed, subscripted, called, formatted or iterated; "
                    "the node classes on which the walker can return are a subset of the statement's list; the tables only hold allow-listed pure callables (explicit list in scan_c01.PURE)",
                    "the allow-listed callables themselves (operator.*, math.*, builtins) are trusted to be pure; 'pure' does not bound their cost",
                    "totality: the four pathway functions and the pathway chooser are havocked in the metabolize contract; len() of the expression is an uninterpreted integer",
                    "A-print: print() is assumed total (the one print of caller text outside the try was repaired to print a repr)",
                    "resource bound: NOT decidable by contracts; bounded corpus only; recorded known finding (timeout never enforced)"],
    "trusted_base": ["provenance lattice of pyvc/effects.py", "ast.parse(mode='eval') grammar"],
    "explanation": "Effect contract + table clauses + structural scan (12 named obligations over the real source), deductive totality/length-guard contract of metabolize and "
                   "digest_glucose for every pathway behaviour, bounded corpus of forbidden constructs / hostile strings on the real code; the wall-clock clause is a known finding.",
    "level_text": "Effect-contract checking + deductive totality + bounded corpus; resource clause out of reach (known finding).",
    "level_note": "Purity of allow-listed primitives trusted; engine and z3 trusted.",
}
PROPS["C02"] = {
    "contracts": ["contracts/C02_walker.py"],
    "level": "other",
    "extra": [{"name": "C02/tables[operator tables = language reference; call passes all arguments]", "kind": "scan", "cmd": ["python3-vt", "pyvc/scan_c01.py", "C02"]},
              {"name": "C02/bounded[grammar depth 2 + 1000 random expressions vs restricted CPython eval]", "kind": "bounded", "tiers": ("quick",), "cmd": ["/venv/bin/python", "native/c01_bounded.py", "C02", "2", "1000"]},
              {"name": "C02/bounded[grammar depth 3 + 200000 random expressions vs restricted CPython eval]", "kind": "bounded", "tiers": ("thorough",), "timeout": 3000, "cmd": ["/venv/bin/python", "native/c01_bounded.py", "C02", "3", "200000"]}],
    "assumptions": ["the walker is proved MODULARLY, one node class per contract variant: assuming the recursive calls return the Python value of the children (the function "
                    "collaborator pyeval = the walker's own contract at its recursive call sites), the value returned for Constant / BinOp (7 operators) / UnaryOp (-, +, not) / "
                    "IfExp / Name / Call / List / Tuple / BoolOp / Compare (6 operators, chains) is the one the language reference assigns in terms of the children's values; "
                    "Attribute / Subscript / Lambda nodes are refused",
                    "operand values are opaque: Python's operators are deterministic partial functions of their operands (uninterpreted any_<Op> with a success predicate), so the proof is "
                    "about the DISPATCH (right operator, operands, order, every argument passed, deciding operand returned), not about arithmetic itself (that is CPython's)",
                    "node classes with child lists are proved for fixed small arities only (Call: 0-3 positional x 0-1 keyword; List/Tuple: 0-3; BoolOp: 2-3; Compare chains: 1-2 operators): "
                    "bounded in arity, unbounded in values",
                    "the allow-list table is an arbitrary map name -> callable in the Call variants; its actual entries are the table obligations of the scan",
                    "the structural induction over the tree (children's values are correct => node's value is correct => whole tree) is the standard argument and is not mechanised",
                    "cross-call state (e.g. memoisation across pathways), the pathway text rewrites and JSON-first parsing are outside these contracts: bounded differential check vs CPython; "
                    "two text-level disagreements are recorded known findings"],
    "trusted_base": ["CPython eval as the reference semantics of the bounded differential check"],
    "explanation": "Per-node-class contracts of the walker against Python's evaluation rules (dispatch level, arity-bounded for child lists) + table clauses over the real source + "
                   "bounded differential testing against CPython; two text-level disagreements are recorded known findings.",
    "level_text": "Dispatch of every allowed node class deductive (arity-bounded); arithmetic itself and cross-call state bounded.",
    "level_note": "The induction over the tree is not mechanised.",
}

PROPS["C12"] = {
    "contracts": ["contracts/C12_ribosome.py"],
    "level": "other",
    "extra": [{"name": "C12/scan-clean[opacity as a taint contract over the pass sequence]", "kind": "scan", "cmd": ["python3-vt", "pyvc/scan_c12.py"]},
              {"name": "C12/bounded[generated templates vs single-pass expansion]", "kind": "bounded", "tiers": ("quick",), "cmd": ["/venv/bin/python", "native/c12_bounded.py"]},
              {"name": "C12/bounded[50000 templates]", "kind": "bounded", "tiers": ("thorough",), "timeout": 3000, "cmd": ["/venv/bin/python", "native/c12_bounded.py", "--thorough"]}],
    "assumptions": ["conformance to the documented grammar depends on the matching semantics of `re` (leftmost, lazy, DOTALL), which SMT regular-language theories do not express: "
                    "that half is a bounded stand-in against an independent single left-to-right expansion",
                    "opacity is an ownership/taint contract over the pass sequence, derived from the source on every run: a scanner (re.sub/re.finditer/str.replace on the running text) may "
                    "only see text into which no earlier step substituted a bound value, loop item, default or included rendering",
                    "the nested replacement callbacks (closures) are analysed by the taint checker, not by the symbolic executor; their construct semantics are covered by the bounded stand-in",
                    "in the translate contract the four passes are deterministic functions and get_required_variables is havocked"],
    "trusted_base": ["forward taint analysis of pyvc/scan_c12.py (a value that is only truth-tested does not taint)", "the reference renderer of native/c12_bounded.py"],
    "explanation": "Deductive part: translate composes the passes in the documented order, raises ValueError exactly for an unknown template or (strict) a missing required variable, counts errors, "
                   "warns for missing variables otherwise. Taint contract: 11 scanner sites; 8 of them scan value text (recorded known finding). Bounded part: generated templates x contexts: "
                   "delimiter-free values agree exactly with single-pass expansion; values containing constructs are re-interpreted (known finding).",
    "level_text": "Taint contract + entry-point contract + bounded conformance; opacity is a known finding.",
    "level_note": "regex semantics external; engine and z3 trusted.",
}

PROPS["C05"] = {
    "contracts": ["contracts/C05_atomicity.py"],
    "level": "other",
    "extra": [{"name": "C05/bounded[deterministic 2-thread scheduler, <=3 context switches]", "kind": "bounded", "tiers": ("quick",), "cmd": ["/venv/bin/python", "native/c05_sched.py"], "timeout": 900},
              {"name": "C05/bounded[deterministic 2-thread scheduler, more switch points]", "kind": "bounded", "tiers": ("thorough",), "cmd": ["/venv/bin/python", "native/c05_sched.py", "--thorough"], "timeout": 3000}],
    "assumptions": ["schedules are NOT explored by the deciding step: contracts prove the lock discipline (ownership of every guarded field, no re-entry, never two locks at once, "
                    "one critical section per call) for all schedules at once; atomicity then follows by the TRUSTED reduction argument (critical sections of a data-race-free "
                    "program are serialisable in lock-acquisition order — Lipton; not mechanised)",
                    "single-field unlocked getters (get_balance, get_state, get_debt, statistics) and apply_debt_interest (writes _debt unlocked; outside this property's operation set) "
                    "are not part of the claim",
                    "the quorum / guard-loop sharing of one store (anchors) is covered because every access goes through the four methods under contract",
                    "the scheduler of native/c05_sched.py is a replay aid and bounded stand-in (6 scenarios, line-granularity points, <=3 context switches)"],
    "trusted_base": ["Lipton reduction", "threading.Lock semantics", "sys.settrace line events as scheduling points (bounded part)"],
    "explanation": "Deductive part: for consume, regenerate, convert_nadh_to_atp, transfer_to — every read/write of the ten guarded fields happens with the store lock held (ownership "
                   "obligations at each access on every path), the lock is never re-acquired, no lock is taken (directly or via a lock-taking callee) while another is held, and all "
                   "guarded accesses lie in one critical section; the last clause fails for transfer_to (known finding). Per critical section the sequential contracts of C04 give: no "
                   "negative balance, no lost update, successful spends <= available. Bounded part: a deterministic two-thread scheduler checks serialisability of outcomes.",
    "level_text": "Lock-discipline proof + trusted reduction theorem + bounded schedule stand-in; one recorded known finding.",
    "level_note": "No schedule exploration in the deciding step; engine and z3 trusted.",
}

NOT_APPLICABLE = {}
