"""Property table: which contract files and extra (bounded / scan) steps decide each property."""

COMMON_ASSUMPTIONS = [
    "A-real: Python floats are modelled as mathematical reals (threshold ties may differ in the last ulp)",
    "A-int: Python ints are mathematical integers (exact)",
    "A-clock: time.time()/datetime.now() return values of a monotone ghost clock",
    "A-print: print()/logging have no effect on program state",
    "A-baseexc: callbacks and externals raise only Exception subclasses (no KeyboardInterrupt/SystemExit/MemoryError)",
    "A-frame: havocked callbacks do not mutate or re-enter the object under verification unless the contract says so",
    "externals table pyvc/builtins_.py:EXTERNALS (assumed contracts on stdlib dependencies)",
    "the symbolic executor pyvc itself (validated by seeded mutants and a CPython differential check, not proved)",
]

PROPS = {
    "C04": {
        "contracts": ["contracts/C04_metabolism.py"],
        "level": "proof",
        "assumptions": ["on_state_change callback does not raise and does not re-enter the store",
                        "the quotient in _update_state is abstracted to an uninterpreted real (sound over-approximation: it only selects _state, "
                        "which every ledger clause treats as arbitrary)",
                        "regeneration_rate <= 0 in __init__ (a positive rate starts a thread; thread interleavings are C05)"],
        "trusted_base": ["threading.Lock semantics", "dataclass construction of EnergyTransaction"],
        "level_text": "Every ledger clause of the statement is a postcondition/invariant on the real ATP_Store methods (consume, regenerate, "
                      "transfer_to, convert_nadh_to_atp, dormancy, interest, reset, __init__), proved for all configurations and all pre-states "
                      "satisfying the invariant (hence all histories, by induction); bounded total spend follows from the potential clause.",
        "level_note": "Assumes: ints mathematical, floats reals, state-change callback neither raises nor re-enters, quotient in _update_state abstracted "
                      "(only feeds _state, which the clauses treat as arbitrary). Engine (pyvc) and z3 are trusted.",
    },
}

NOT_APPLICABLE = {}
