"""C12/scan-clean: opacity of bound values as an ownership/taint contract, checked on the real AST of Ribosome.

`translate` runs a sequence of passes over the partially rendered text.  A *scanner* (re.sub / re.finditer / str.replace used to find template
syntax) may only be applied to text that contains no segment introduced from a bound value, loop item, default or included rendering.
For every scanner call site (in program order through translate and the pass functions) the obligation
    C12/<pass>/callsite-pre[scan-clean]#<k>
holds iff no earlier step (an earlier pass, or an earlier scanner in the same pass whose replacement introduces values) has put value text into
the running text.  Steps and taint are derived from the source on every run; nothing is hard-coded about which passes exist."""
import ast, json, os, sys
ROOT = os.path.dirname(os.path.dirname(os.path.abspath(__file__)))
REPO = os.environ.get("OPERON_REPO", "/repo")
F = "operon_ai/organelles/ribosome.py"


def mentions(expr, names):
    return any(isinstance(n, ast.Name) and n.id in names for n in ast.walk(expr))


def is_ctx_read(expr):
    src = ast.unparse(expr)
    return "context[" in src or "context.get(" in src or "self.translate(" in src


def introduces_values(fn_or_expr):
    """does this replacement put bound-value text into the output?  Forward taint inside the callback: names derived from
    context[...] / context.get(...) / an included rendering are tainted; the callback introduces values iff a returned expression is tainted.
    (A value that is only truth-tested, like the condition of an {{#if}}, does not taint the output.)"""
    if not isinstance(fn_or_expr, ast.FunctionDef):
        return is_ctx_read(fn_or_expr) or "str(value)" in ast.unparse(fn_or_expr) or "str(item)" in ast.unparse(fn_or_expr)
    tainted = set()
    changed = True
    rounds = 0
    while changed and rounds < 6:
        changed = False
        rounds += 1
        for n in ast.walk(fn_or_expr):
            if isinstance(n, ast.Assign):
                if is_ctx_read(n.value) or mentions(n.value, tainted):
                    for t in n.targets:
                        for x in ast.walk(t):
                            if isinstance(x, ast.Name) and x.id not in tainted:
                                tainted.add(x.id)
                                changed = True
            elif isinstance(n, ast.For):
                if is_ctx_read(n.iter) or mentions(n.iter, tainted):
                    for x in ast.walk(n.target):
                        if isinstance(x, ast.Name) and x.id not in tainted:
                            tainted.add(x.id)
                            changed = True
            elif isinstance(n, ast.Call) and isinstance(n.func, ast.Attribute) and n.func.attr in ("append", "update", "extend") \
                    and isinstance(n.func.value, ast.Name):
                if any(is_ctx_read(a) or mentions(a, tainted) for a in n.args) and n.func.value.id not in tainted:
                    tainted.add(n.func.value.id)
                    changed = True
    for n in ast.walk(fn_or_expr):
        if isinstance(n, ast.Return) and n.value is not None and (is_ctx_read(n.value) or mentions(n.value, tainted)):
            return True
    return False


def analyse_pass(fn):
    """ordered scanner steps of one pass function: [(lineno, description, introduces_values)]"""
    cbs = {n.name: n for n in fn.body if isinstance(n, ast.FunctionDef)}
    steps = []

    def visit(stmts, in_loop_over_values=False):
        for st in stmts:
            if isinstance(st, ast.FunctionDef):
                # nested replacement callbacks may contain their own scanners (loop body substitution)
                inner = []
                for n in ast.walk(st):
                    if isinstance(n, ast.Call) and isinstance(n.func, ast.Attribute) and n.func.attr == "replace" and len(n.args) == 2:
                        inner.append((n.lineno, f"str.replace in {st.name}", introduces_values(n.args[1])))
                st._inner_steps = inner
                continue
            for n in ast.walk(st):
                if isinstance(n, ast.Call):
                    q = ast.unparse(n.func)
                    if q in ("re.sub", "re.finditer", "re.findall", "re.search", "re.match") and len(n.args) >= 2:
                        repl = n.args[1] if q == "re.sub" else None
                        intro = False
                        inner = []
                        if repl is not None:
                            if isinstance(repl, ast.Name) and repl.id in cbs:
                                intro = introduces_values(cbs[repl.id])
                                inner = getattr(cbs[repl.id], "_inner_steps", [])
                            else:
                                intro = introduces_values(repl)
                        steps.append((n.lineno, f"{q}({ast.unparse(n.args[0])[:40]})", intro, inner))
                    elif isinstance(n.func, ast.Attribute) and n.func.attr == "replace" and len(n.args) == 2 and ast.unparse(n.func.value) in ("result", "sequence"):
                        steps.append((n.lineno, f"str.replace on the running text", introduces_values(n.args[1]), []))
    # callbacks first (to compute their inner steps), then statements in order
    visit([s for s in fn.body if isinstance(s, ast.FunctionDef)])
    visit([s for s in fn.body if not isinstance(s, ast.FunctionDef)])
    steps.sort(key=lambda s: s[0])
    return steps


def main():
    src = open(os.path.join(REPO, F), encoding="utf-8").read()
    cls = next(n for n in ast.parse(src).body if isinstance(n, ast.ClassDef) and n.name == "Ribosome")
    meth = {n.name: n for n in cls.body if isinstance(n, ast.FunctionDef)}
    tr = meth["translate"]
    passes = []
    for st in tr.body:
        for n in ast.walk(st):
            if isinstance(n, ast.Call) and isinstance(n.func, ast.Attribute) and isinstance(n.func.value, ast.Name) and n.func.value.id == "self" \
                    and n.func.attr.startswith("_process_") and n.func.attr in meth:
                passes.append(n.func.attr)
    obligations, failed = [], {}
    tainted_by = None          # description of the first step that introduced value text
    for p in passes:
        k = 0
        for (line, desc, intro, inner) in analyse_pass(meth[p]):
            k += 1
            name = f"C12/Ribosome.{p}/callsite-pre[scan-clean]#{k}"
            obligations.append(name)
            if tainted_by is not None:
                failed[name] = [f"line {line}: {desc} scans text that already contains value text introduced by {tainted_by}"]
            # scanners inside the replacement callback (loop body substitution): sequential replaces over loop keys
            inner_taint = None
            for j, (l2, d2, i2) in enumerate(inner, 1):
                nm2 = f"C12/Ribosome.{p}/callsite-pre[scan-clean]#{k}.{j}"
                obligations.append(nm2)
                if inner_taint is not None or tainted_by is not None:
                    failed[nm2] = [f"line {l2}: {d2} re-scans a loop body into which {inner_taint or tainted_by} already substituted a value"]
                if i2:
                    inner_taint = f"{d2} (line {l2})"
                    # a loop performs the replace once per key: the second key already sees the first key's value
                    if nm2 not in failed:
                        failed[nm2] = [f"line {l2}: {d2} runs once per loop-context key; after the first key the body contains value text that the next keys re-scan"]
            if intro and tainted_by is None:
                tainted_by = f"{p} step #{k} ({desc}, line {line})"
    # pass order of the documented grammar: conditionals, loops, includes, variables
    order_ob = "C12/Ribosome.translate/post[pass-order]"
    obligations.append(order_ob)
    if passes != ["_process_conditionals", "_process_loops", "_process_includes", "_process_variables"]:
        failed[order_ob] = [f"passes run in the order {passes}"]
    if len(obligations) < 5:
        failed["C12/scan/vacuity"] = [f"only {len(obligations)} scanner sites found"]
    out = {"status": "ok" if not failed else "violation", "obligations": len(obligations), "discharged": len(obligations) - len(failed),
           "names": obligations, "failed": failed}
    # known findings: each failing scan-clean obligation is matched by name against known_findings.json
    try:
        kf = json.load(open(os.path.join(ROOT, "known_findings.json"))).get("findings", [])
    except OSError:
        kf = []
    known = {f["obligation"]: f for f in kf if f.get("property") == "C12" and f.get("status", "open") == "open"}
    unlisted = {k: v for k, v in failed.items() if k not in known}
    out["known_findings"] = [f"{k}: {v[0]}" for k, v in failed.items() if k in known]
    if unlisted:
        out["status"] = "violation"
        out["detail"] = "; ".join(f"{k}: {v[0]}" for k, v in list(unlisted.items())[:3])
        os.makedirs(os.path.join(ROOT, "replays"), exist_ok=True)
        json.dump({"property": "C12", "failed_obligations": unlisted, "note": "static witness (source lines); the bounded stand-in supplies failing templates"},
                  open(os.path.join(ROOT, "replays/C12-scan.json"), "w"), indent=1)
        out["replay"] = "replays/C12-scan.json"
    else:
        out["status"] = "ok"
        out["discharged"] = len(obligations) - len(failed)
    print(json.dumps(out))


if __name__ == "__main__":
    main()
