"""Loop cutting at invariants, calls by callee contract, exit hooks."""
from __future__ import annotations
import os
import ast
import z3
from .values import *
from . import engine as E


class LoopMixin:
    tracked = ()

    def exit_checks(self, c, fr, sframe, extra, exc):
        pass

    # ------------------------------------------------------------ helpers
    def visible_locals(self, frame):
        out = {}
        chain = []
        f = frame
        while f is not None:
            chain.append(f)
            f = f.parent
        for f in reversed(chain):
            out.update(f.locals)
        return out

    def type_of_value(self, v):
        if isinstance(v, VOpt):
            return ("opt", v.ty)
        if isinstance(v, VInt):
            return ("int",)
        if isinstance(v, VReal):
            return (v.unit,) if v.unit else ("real",)
        if isinstance(v, VBool):
            return ("bool",)
        if isinstance(v, VStr):
            return ("str",)
        if isinstance(v, VEnum):
            return ("enum", v.ename)
        if isinstance(v, VAny):
            return ("any",)
        return None

    def inv_frame(self, frame, extra):
        f = E.Frame("<spec>", frame.ci, self.visible_locals(frame), None, "inv")
        for a_, b_ in getattr(self, "acc_alias", {}).items():
            if a_ not in f.locals and b_ in f.locals:
                f.locals[a_] = f.locals[b_]        # a renamed accumulator: the contract keeps calling it by its old name
        f.locals.update(self.run.ghost)
        if getattr(self, "_iter_stack", None):
            f.locals["_iter"] = self._iter_stack[-1]
        f.locals.update(extra)
        return f

    def eval_inv(self, text, frame, extra):
        node = self.verifier.parse_clause(text)
        self.pure += 1
        try:
            return self.truthy(self.eval(node, self.inv_frame(frame, extra)))
        except E.PyExc as pe:
            # a specification clause that raises is a failed clause, never an exception of the code under verification
            self.run.imprecise.append(f"specification clause raised {pe.exc.cls}: {text[:60]}")
            return z3.BoolVal(False)
        finally:
            self.pure -= 1

    def havoc_loop_state(self, node, frame, spec, header):
        run = self.run
        locs, paths = self.write_set(node.body + node.orelse, frame)
        # local containers mutated in place (x.append(...), x[k] = ...) are part of the loop state too
        for p_ in list(paths):
            if p_.isidentifier():
                locs.add(p_)
        if isinstance(node, ast.For):
            tl, _tp = self.write_set([ast.Assign(targets=[node.target], value=ast.Constant(value=None))], frame)
            locs -= tl
        types = {k: parse_type(v) for k, v in spec.get("types", {}).items()}
        keep = set(spec.get("keep", []))
        tag = run.fresh_name("L")
        for name in sorted(locs):
            if name in keep:
                continue
            cur = None
            f = frame
            while f is not None:
                if name in f.locals:
                    cur = f.locals[name]
                    break
                f = f.parent
            if cur is None:
                continue
            ty = types.get(name) or self.type_of_value(cur)
            if ty is None and isinstance(cur, VRef) and cur.kind in ("list", "dict", "set") and not run.rec(cur.oid).concrete:
                # a local alias of a symbolic container (e.g. `alerts = self.state.recent_alerts`): its element types are the record's
                rc_ = run.rec(cur.oid)
                ty = ("list", rc_.elem) if cur.kind == "list" else (("set", rc_.etype) if cur.kind == "set" else ("dict", rc_.ktype, rc_.vtype))
            if ty is None:
                if isinstance(cur, VRef) and cur.kind in ("list", "dict", "set"):
                    raise E.Unsupported(f"loop {header!r}: need a type for havocked container {name!r}")
                if isinstance(cur, VNone):
                    raise E.Unsupported(f"loop {header!r}: need a type for havocked {name!r} (None at loop head)")
                continue     # object refs / callables re-bound in the loop: leave (imprecise only if rebound)
            f.locals[name] = self.fresh(ty, f"{name}@{tag}")
        for p in sorted(set(paths) | set(spec.get("modifies", []))):
            if p in keep:
                continue
            try:
                pn = ast.parse(p, mode="eval").body
            except SyntaxError:
                continue
            if not isinstance(pn, ast.Attribute):
                continue
            try:
                base = self.eval(pn.value, frame)
            except (E.Unsupported, E.PyExc):
                continue
            if not (isinstance(base, VRef) and base.kind == "obj"):
                continue
            rec = run.rec(base.oid)
            ty = types.get(p) or self.field_type(rec.cls, pn.attr)
            if ty is None and pn.attr in rec.fields:
                ty = self.type_of_value(rec.fields[pn.attr])
            if ty is None:
                raise E.Unsupported(f"loop {header!r}: need a type for havocked field {p}")
            rec.fields[pn.attr] = self.fresh(ty, f"{p}@{tag}")
        for g, tys in spec.get("ghost_types", {}).items():
            run.ghost[g] = self.fresh(parse_type(tys), f"{g}@{tag}")
        return tag

    # ------------------------------------------------------------ for
    def iter_view(self, it, node, frame):
        """(length term, elem(k) -> SV) for a symbolic iterable"""
        run = self.run
        if isinstance(it, VRef) and it.kind == "dict" and not run.rec(it.oid).concrete:
            return self.iter_view(VTuple([VStr("#dictkeys"), it]), node, frame)
        if isinstance(it, VRef) and it.kind == "list":
            r = run.rec(it.oid)
            if r.concrete:
                items = list(r.items)
                n = z3.IntVal(len(items))

                def elem(k):
                    i = run.choose([(str(j), k == j) for j in range(len(items))], "loop index")
                    return items[i]
                return n, elem
            return r.length, (lambda k: self.symlist_elem(it, run.rec(it.oid), k))
        if isinstance(it, VTuple) and it.items and isinstance(it.items[0], VStr):
            tag = E.simp(it.items[0].t).as_string()
            if tag == "#range":
                a = it.items[1:]
                if len(a) == 1:
                    lo, hi = z3.IntVal(0), a[0].t
                elif len(a) == 2:
                    lo, hi = a[0].t, a[1].t
                else:
                    raise E.Unsupported("range with step")
                n = E.simp(z3.If(hi > lo, hi - lo, 0))
                return n, (lambda k: VInt(E.simp(lo + k)))
            if tag == "#reversed":
                n, el = self.iter_view(it.items[1], node, frame)
                return n, (lambda k: el(E.simp(n - 1 - k)))
            if tag == "#enumerate":
                n, el = self.iter_view(it.items[1], node, frame)
                start = it.items[2].t
                return n, (lambda k: VTuple([VInt(E.simp(start + k)), el(k)]))
            if tag in ("#dictitems", "#dictkeys", "#dictvalues"):
                ref = it.items[1]
                r = run.rec(ref.oid)
                # iteration order = ghost sequence of keys of the dict (membership instantiated per visited index;
                # distinctness of the visited keys is not assumed: a sound over-approximation)
                ks = self.order_array(r)
                n = r.size
                dom0 = r.dom
                pos = z3.Function(f"{ks.decl().name()}#pos", self.sort_of(r.ktype), z3.IntSort())
                # the keys visited by this loop: the snapshot domain, the ghost order and its inverse (visit_index / in_visit in invariants)
                self._last_view = {"ks": ks, "dom": dom0, "n": n, "ktype": r.ktype, "pos": pos}

                def elem(k):
                    kt = z3.Select(ks, k)
                    run.assume(z3.Select(dom0, kt))
                    run.assume(pos(kt) == k)          # the order is a bijection: dict keys are pairwise distinct
                    kv = self.wrap(r.ktype, kt)
                    if tag == "#dictkeys":
                        return kv
                    vv = self.symdict_val(ref, run.rec(ref.oid), kt)
                    return vv if tag == "#dictvalues" else VTuple([kv, vv])
                return n, elem
        if isinstance(it, VStr):
            return z3.Length(it.t), (lambda k: VStr(z3.SubString(it.t, k, 1)))
        if isinstance(it, VTuple):
            items = list(it.items)
            return z3.IntVal(len(items)), (lambda k: items[run.choose([(str(j), k == j) for j in range(len(items))], "loop index")])
        raise E.Unsupported(f"cannot cut loop over {it!r}")

    def cut_for(self, node, frame, spec, it):
        run = self.run
        header = self.loop_header(node)
        if spec is None:
            raise E.Unsupported(f"loop without invariant over symbolic iterable: {header}")
        self._last_view = None
        n, elem = self.iter_view(it, node, frame)
        if not hasattr(self, "loop_views"):
            self.loop_views = []
        self.loop_views.append(self._last_view)
        if not hasattr(self, "_iter_stack"):
            self._iter_stack = []
        self._iter_stack.append(it)       # `_iter` in invariants: the sequence this loop runs over, whatever the code calls it
        try:
            return self.cut_for_body(node, frame, spec, header, n, elem)
        finally:
            self.loop_views.pop()
            self._iter_stack.pop()

    def cut_for_body(self, node, frame, spec, header, n, elem):
        run = self.run
        run.cut = True
        if not hasattr(run, "loops_reached"):
            run.loops_reached = set()
        run.loops_reached.add(header)      # `reached_loop('<header text>')` in postconditions: the statement was reached (whatever its iteration count)
        # a local accumulator the contract declares (spec["types"]) that no longer exists under that name, while the loop body writes exactly one
        # local container the contract does not know: the accumulator was renamed -- the contract's name becomes an alias of the new one
        vis = self.visible_locals(frame)
        missing = [t_ for t_ in spec.get("types", {}) if t_.isidentifier() and t_ not in vis]
        if missing:
            try:
                locs_, paths_ = self.write_set(node.body + node.orelse, frame)
            except Exception:      # noqa
                locs_, paths_ = set(), set()
            cands = [x_ for x_ in sorted(set(locs_) | {p_ for p_ in paths_ if p_.isidentifier()})
                     if x_ in vis and x_ not in spec.get("types", {}) and isinstance(vis[x_], VRef) and vis[x_].kind in ("list", "dict", "set")]
            if len(missing) == 1 and len(cands) == 1:
                if not hasattr(self, "acc_alias"):
                    self.acc_alias = {}
                self.acc_alias[missing[0]] = cands[0]
                spec = dict(spec, types=dict(spec.get("types", {}), **{cands[0]: spec["types"][missing[0]]}))
        invs = spec.get("invariant", [])
        # the same for a renamed *counter*: an invariant names a local that does not exist (any more) while the loop body augments exactly one
        # visible integer local that no invariant mentions -- the contract's name becomes an alias of that local
        try:
            trees_ = [self.verifier.parse_clause(inv) for inv in invs]
            called_ = {n_.func.id for t_ in trees_ for n_ in ast.walk(t_) if isinstance(n_, ast.Call) and isinstance(n_.func, ast.Name)}
            inv_names = {n_.id for t_ in trees_ for n_ in ast.walk(t_) if isinstance(n_, ast.Name)} - called_
        except Exception:      # noqa
            inv_names = set()
        aug = {t_.target.id for s_ in node.body for t_ in ast.walk(s_) if isinstance(t_, ast.AugAssign) and isinstance(t_.target, ast.Name)}
        for nm_ in sorted(inv_names):
            if nm_ in vis or nm_ in self.run.ghost or nm_ in getattr(self, "acc_alias", {}) or not nm_.isidentifier() or nm_.startswith("_"):
                continue
            try:
                self.pure += 1
                try:
                    self.eval(ast.Name(id=nm_, ctx=ast.Load()), self.inv_frame(frame, {}))
                finally:
                    self.pure -= 1
                continue                       # resolvable (a specification function, a builtin, a parameter)
            except E.Unsupported as ex_:
                if "not resolvable" not in str(ex_):
                    continue
            except Exception:      # noqa
                continue
            cands = [x_ for x_ in sorted(aug) if x_ in vis and x_ not in inv_names and isinstance(vis[x_], VInt)]
            if len(cands) == 1:
                if not hasattr(self, "acc_alias"):
                    self.acc_alias = {}
                self.acc_alias[nm_] = cands[0]
        for i, inv in enumerate(invs):
            self.ctx.oblige(self, "loop-init", f"{header}#{i}", self.eval_inv(inv, frame, {"_k": VInt(0), "_n": VInt(n)}),
                            "", True, text=inv)
        self.havoc_loop_state(node, frame, spec, header)
        k = z3.Int(run.fresh_name("k"))
        run.inputs[str(k)] = k
        run.assume(z3.And(k >= 0, k <= n))
        for inv in invs:
            run.assume(self.eval_inv(inv, frame, {"_k": VInt(k), "_n": VInt(n)}))
        if run.choose([("iterate", k < n), ("exit", k == n)], header) == 0:
            self.assign_target(node.target, elem(k), frame)
            for old_n, new_n in getattr(self, "loop_alias", {}).get(id(node), {}).items():
                if new_n in frame.locals:
                    frame.locals[old_n] = frame.locals[new_n]       # the contract still calls the renamed loop variable by its old name
            for inst in spec.get("instances", []):
                # the invariants were established for ARBITRARY values of the ghost parameters, so they hold at this head for any particular
                # value too -- e.g. for the element this iteration visits (sound as long as no `requires` constrains the ghost parameter)
                extra_i = {"_k": VInt(k), "_n": VInt(n)}
                for g_, ex_ in inst.items():
                    extra_i[g_] = self.eval(ast.parse(ex_, mode="eval").body, frame)
                for inv in invs:
                    run.assume(self.eval_inv(inv, frame, extra_i))
            self.fire("loop_iter", header, k)
            for fact in spec.get("assume_at_iter", []):
                # instances of trusted structural facts (e.g. pairwise distinct dict keys), stated in the contract
                run.assume(self.eval_inv(fact, frame, {"_k": VInt(k), "_n": VInt(n)}))
            if not hasattr(self, "loop_heads"):
                self.loop_heads, self.iter_call_start = [], [0]
            self.loop_heads.append((dict(self.visible_locals(frame)), run.snapshot()))
            self.iter_call_start.append(len(run.calls))
            how = "normal"
            kept = {}
            for p_ in spec.get("keep", []):
                # `keep` (not havocked at the head) is a claim that a continuing iteration leaves the path alone: checked below
                try:
                    kept[p_] = (self.eval(ast.parse(p_, mode="eval").body, frame), set(run.written))
                except (E.Unsupported, E.PyExc, SyntaxError):
                    pass
            try:
                try:
                    self.exec_block(node.body, frame)
                except E._Continue:
                    how = "continue"
                except E._Break:
                    how = "break"
                except E._Return:
                    if spec.get("exhaustive") and spec.get("exhaustive") != "no-break":
                        self.ctx.oblige(self, "post", f"{header}:exhaustive", z3.BoolVal(False), "the loop body returns: later elements are never visited",
                                        False, text="the loop visits every element (no break / return out of the body)")
                    raise
                if spec.get("exhaustive"):
                    self.ctx.oblige(self, "post", f"{header}:exhaustive", z3.BoolVal(how != "break"), "the loop body breaks: later elements are never visited",
                                    False, text="the loop visits every element (no break / return out of the body)")
                prop_step = set(spec.get("property_level", []))
                for lbl, ex in spec.get("step", {}).items():
                    self.ctx.oblige(self, "post" if lbl in prop_step else "loop-step", f"{header}:{lbl}",
                                    self.eval_inv(ex, frame, {"_k": VInt(k), "_n": VInt(n), "_exit": VStr(how)}),
                                    "", lbl not in prop_step, text=ex)
            finally:
                self.loop_heads.pop()
                self.iter_call_start.pop()
            if how == "break":
                return
            for p_, (v0_, w0_) in kept.items():
                v1_ = self.eval(ast.parse(p_, mode="eval").body, frame)
                if isinstance(v0_, VRef):
                    same = isinstance(v1_, VRef) and run.base_oid(v1_.oid) == run.base_oid(v0_.oid) and \
                        (run.base_oid(v0_.oid) in w0_ or run.base_oid(v0_.oid) not in run.written)
                    self.ctx.oblige(self, "loop-step", f"{header}:keep[{p_}]", z3.BoolVal(bool(same)), "kept path rebound or mutated by a continuing iteration", True,
                                    text=f"{p_} is not changed by an iteration that continues")
                else:
                    try:
                        self.ctx.oblige(self, "loop-step", f"{header}:keep[{p_}]", self.eq(v1_, v0_), "", True, text=f"{p_} is not changed by an iteration that continues")
                    except E.Unsupported:
                        self.ctx.oblige(self, "loop-step", f"{header}:keep[{p_}]", z3.BoolVal(False), "cannot compare", True, text=p_)
            plevel = set(spec.get("property_level", []))
            for i, inv in enumerate(invs):
                self.ctx.oblige(self, "always" if inv in plevel else "loop-step", f"{header}#{i}",
                                self.eval_inv(inv, frame, {"_k": VInt(k + 1), "_n": VInt(n)}), "", inv not in plevel, text=inv)
            raise E.PathEnd()
        self.exec_block(node.orelse, frame)

    # ------------------------------------------------------------ while
    def cut_loop(self, node, frame, spec):
        run = self.run
        run.cut = True
        header = self.loop_header(node)
        invs = spec.get("invariant", [])
        for i, inv in enumerate(invs):
            self.ctx.oblige(self, "loop-init", f"{header}#{i}", self.eval_inv(inv, frame, {}), "", True, text=inv)
        self.havoc_loop_state(node, frame, spec, header)
        for inv in invs:
            run.assume(self.eval_inv(inv, frame, {}))
        c = self.eval(node.test, frame)
        if self.test(c, header):
            dec = spec.get("decreases")
            v0 = None
            if dec:
                node_d = self.verifier.parse_clause(dec)
                self.pure += 1
                try:
                    v0 = self.eval(node_d, self.inv_frame(frame, {}))
                finally:
                    self.pure -= 1
            try:
                self.exec_block(node.body, frame)
            except E._Continue:
                pass
            except E._Break:
                return
            plevel = set(spec.get("property_level", []))
            for i, inv in enumerate(invs):
                self.ctx.oblige(self, "always" if inv in plevel else "loop-step", f"{header}#{i}", self.eval_inv(inv, frame, {}),
                                "", inv not in plevel, text=inv)
            if dec:
                self.pure += 1
                try:
                    v1 = self.eval(self.verifier.parse_clause(dec), self.inv_frame(frame, {}))
                finally:
                    self.pure -= 1
                self.ctx.oblige(self, "always" if "decreases" in plevel else "decreases", header + ":decreases",
                                z3.And(self.num(v0) >= 0, self.num(v1) < self.num(v0)), "", "decreases" not in plevel, text=dec)
            raise E.PathEnd()
        self.exec_block(node.orelse, frame)

    def assume_clause(self, node, sframe, extra):
        """assume a callee postcondition; conjuncts of the form `<obj>.<field> is <expr>` on a not yet materialised
        field *bind* the field (identity of a havocked reference cannot be expressed as a formula)"""
        run = self.run
        if isinstance(node, ast.BoolOp) and isinstance(node.op, ast.And):
            for v in node.values:
                self.assume_clause(v, sframe, extra)
            return
        if isinstance(node, ast.BoolOp) and isinstance(node.op, ast.Or):
            # a disjunction: assume it as a formula, but first try to learn which disjunct holds on this path
            pass
        if isinstance(node, ast.Call) and isinstance(node.func, ast.Name) and node.func.id in self.spec_funcs \
                and not node.keywords:
            # expand single-expression specification functions so that identity conjuncts inside them can bind
            fdef = self.spec_funcs[node.func.id][0]
            body = [st for st in fdef.body if not (isinstance(st, ast.Expr) and isinstance(st.value, ast.Constant))]
            params = [a.arg for a in fdef.args.args]
            if len(body) == 1 and isinstance(body[0], ast.Return) and len(params) == len(node.args):
                import copy as _copy
                mapping = dict(zip(params, node.args))

                class Sub(ast.NodeTransformer):
                    def visit_Name(self, n):
                        return _copy.deepcopy(mapping[n.id]) if n.id in mapping else n
                return self.assume_clause(Sub().visit(_copy.deepcopy(body[0].value)), sframe, extra)
        f = E.Frame(sframe.relpath, sframe.ci, dict(sframe.locals), None, "spec")
        f.locals.update(extra)
        if isinstance(node, ast.Call) and isinstance(node.func, ast.Name) and node.func.id == "implies":
            self.pure += 1
            try:
                a = E.simp(self.truthy(self.eval(node.args[0], f)))
            finally:
                self.pure -= 1
            if E.is_true(a):
                return self.assume_clause(node.args[1], sframe, extra)
            if E.is_false(a):
                return
        if isinstance(node, ast.Compare) and len(node.ops) == 1 and isinstance(node.ops[0], ast.Is) \
                and isinstance(node.left, ast.Name) and node.left.id == "result" and isinstance(extra.get("result"), VRef) \
                and not (isinstance(node.comparators[0], ast.Constant)):
            # `result is <expr>`: the havocked return value IS that object
            self.pure += 1
            try:
                rhs = self.eval(node.comparators[0], f)
            finally:
                self.pure -= 1
            if isinstance(rhs, VRef):
                extra["result"] = VRef(run.base_oid(rhs.oid), rhs.kind, rhs.cls)
                return
        if isinstance(node, ast.Compare) and len(node.ops) == 1 and isinstance(node.ops[0], ast.Is) \
                and isinstance(node.left, ast.Attribute):
            self.pure += 1
            try:
                base = self.eval(node.left.value, f)
                if isinstance(base, VRef) and base.kind == "obj":
                    rec = run.rec(base.oid)
                    if rec.sym is not None and node.left.attr not in rec.fields:
                        rhs = self.eval(node.comparators[0], f)
                        rec.fields[node.left.attr] = rhs
                        return
            finally:
                self.pure -= 1
        self.pure += 1
        try:
            t = self.truthy(self.eval(node, f))
        finally:
            self.pure -= 1
        run.assume(t)

    # ------------------------------------------------------------ calls by contract
    def callee_contract(self, ci, name):
        if self.contract is None:
            return None
        for key, cc in self.reg.contracts.items():
            if cc.inline:
                continue
            rel, qual = cc.target.split("::")
            if qual == f"{ci.name}.{name}" and cc is not self.contract:
                return cc
            # inherited method under contract
            if qual.endswith("." + name) and self.is_subclass(ci.name, qual.split(".")[0]) and cc is not self.contract:
                return cc
        return None

    def callee_acquires(self, fnode, ci, seen=None):
        """lock paths `self.<x>` taken by `with` in the callee body or in same-class methods it calls (syntactic, transitive)"""
        seen = set() if seen is None else seen
        out = []
        for n in ast.walk(fnode):
            if isinstance(n, ast.With):
                for it in n.items:
                    s_ = ast.unparse(it.context_expr)
                    if s_.startswith("self.") and "lock" in s_.lower():
                        out.append(s_)
            if isinstance(n, ast.Call) and isinstance(n.func, ast.Attribute) and isinstance(n.func.value, ast.Name) \
                    and n.func.value.id == "self" and ci is not None and n.func.attr not in seen:
                seen.add(n.func.attr)
                m = self.repo.lookup_method(ci, n.func.attr)
                if m is not None:
                    out.extend(self.callee_acquires(m[0], m[1], seen))
        return sorted(set(out))

    def nested_contract(self, node):
        """contract of a nested function (target Class.method.inner), looked up by the AST node being called"""
        if self.contract is None or not isinstance(node, ast.FunctionDef):
            return None
        for cc in self.reg.contracts.values():
            rel, qual = cc.target.split("::")
            if qual.count(".") == 2 and qual.endswith("." + node.name) and cc.options.get("closure") is not None:
                try:
                    fnode, _ci = self.repo.function_source(rel, qual)
                except KeyError:
                    continue
                if fnode is node or (fnode.lineno == node.lineno and fnode.name == node.name):
                    return cc
        return None

    def call_closure_by_contract(self, cc, fnode, args, kwargs, cframe):
        """call of a closure under contract: requires checked, declared closure variables / fields havocked, ensures assumed.
        The free variables of the closure are read from the defining frame (when the enclosing function is being executed) or are the
        declared closure inputs (when the closure itself is the function under verification and calls itself)."""
        run = self.run
        V = self.verifier
        rel, qual = cc.target.split("::")
        _fn, ci = self.repo.function_source(rel, qual)
        dframe = E.Frame(rel, ci)
        locs = self.bind_args(fnode, list(args), kwargs, None, dframe)
        env = {}
        root = getattr(self, "root_frame", None)
        for name in cc.options.get("closure", {}):
            f = cframe
            val = None
            while f is not None and val is None:
                val = f.locals.get(name)
                f = f.parent
            if val is None and root is not None:
                val = root.locals.get(name)
            if val is None:
                raise E.Unsupported(f"closure variable {name} of {qual} is not bound at the call")
            env[name] = val
        for g_, t_ in cc.ghost_params.items():
            env[g_] = run.ghost[g_] if g_ in run.ghost else self.fresh(parse_type(t_), run.fresh_name(f"{g_}@{qual}"))
        env.update(locs)
        sframe = E.Frame("<spec>", ci, dict(env), None, "callee-spec")
        for i, ex in enumerate(cc.requires):
            self.ctx.oblige(self, "call-pre", f"{qual}#{i}", V.eval_bool(self, ex, sframe), "", False, text=ex)
        saved_old, saved_locals = run.old_heap, getattr(self, "old_locals", {})
        run.old_heap = run.snapshot()
        self.old_locals = dict(env)
        try:
            tag = run.fresh_name(f"call:{qual}")
            for p in (cc.modifies or []):
                if p.isidentifier():
                    v = env.get(p)
                    if isinstance(v, VRef) and v.kind in ("list", "dict", "set"):
                        ty = parse_type(cc.options["closure"][p])
                        nv = self.fresh(ty, f"{p}@{tag}")
                        run.heap[v.oid] = run.rec(nv.oid)      # havoc in place: same reference, arbitrary contents
                        h = self.hooks.get("container_write")
                        if h:
                            h(v)
                    else:
                        raise E.Unsupported(f"callee {qual}: cannot havoc closure variable {p}")
                    continue
                pn = ast.parse(p, mode="eval").body
                base = self.eval(pn.value, sframe)
                if isinstance(base, VRef) and base.kind == "obj":
                    rec = run.rec(base.oid)
                    ty = self.field_type(rec.cls, pn.attr)
                    if ty is None:
                        raise E.Unsupported(f"callee {qual}: no type for modified {p}")
                    rec.fields[pn.attr] = self.fresh(ty, f"{p}@{tag}")
            outcomes = [("returns", None)] + [(f"raises {r}", None) for r in (cc.raises or [])]
            k = run.choose(outcomes, f"{qual}()") if len(outcomes) > 1 else 0
            if k > 0:
                exc = VExc(cc.raises[k - 1])
                for lbl, ex in list(cc.xensures.items()) + list(cc.always.items()):
                    run.assume(V.eval_bool(self, ex, sframe, {"exc": VStr(exc.cls), "result": NONE}))
                run.calls.append({"name": qual, "outcome": "raise", "value": exc, "args": list(args), "contract": True})
                raise E.PyExc(exc, f"callee {qual}")
            rt = parse_type(cc.returns) if cc.returns else self.ann_type(fnode.returns, rel)
            result = self.fresh(rt, f"ret@{tag}")
            run.contract_calls.append({"name": qual, "outcome": "return", "value": result, "args": list(args)})
            # the specification forms about calls (calls_to, raised, returned_in_iter ...) see contract calls like havocked ones
            run.calls.append({"name": qual, "outcome": "return", "value": result, "args": list(args), "contract": True})
            extra = {"result": result, "exc": NONE}
            for lbl, ex in list(cc.ensures.items()) + list(cc.always.items()):
                try:
                    self.assume_clause(V.parse_clause(ex), sframe, extra)
                except E.PyExc:
                    pass
            for inst in cc.ghost_instances:
                # the callee's universally quantified ghosts, instantiated once more with expressions over its parameters / closure variables
                f_i = E.Frame("<spec>", ci, dict(sframe.locals), None, "callee-spec")
                self.pure += 1
                try:
                    vals = {g_: self.eval(V.parse_clause(ex_), sframe) for g_, ex_ in inst.items()}
                finally:
                    self.pure -= 1
                f_i.locals.update(vals)
                for lbl, ex in list(cc.ensures.items()) + list(cc.always.items()):
                    try:
                        self.assume_clause(V.parse_clause(ex), f_i, dict(extra))
                    except E.PyExc:
                        pass
            return extra["result"]
        finally:
            run.old_heap, self.old_locals = saved_old, saved_locals

    def call_by_contract(self, cc, recv, args, kwargs):
        run = self.run
        V = self.verifier
        rel, qual = cc.target.split("::")
        fnode, ci = self.repo.function_source(rel, qual)
        dframe = E.Frame(rel, ci)
        recv = self.force(recv)
        locs = self.bind_args(fnode, [recv] + list(args), kwargs, None, dframe)
        for g_, t_ in cc.ghost_params.items():
            # a universally quantified ghost parameter of the callee is instantiated with the caller's ghost of the same name
            locs[g_] = run.ghost[g_] if g_ in run.ghost else self.fresh(parse_type(t_), run.fresh_name(f"{g_}@{qual}"))
        # callee ghosts the caller does not share: a clause about an arbitrary value unrelated to anything in the caller tells it nothing, so such
        # clauses are only assumed in the explicit instance passes below (weaker, sound; avoids case splits on keys nobody asks about)
        unshared = {g_ for g_ in cc.ghost_params if g_ not in run.ghost}
        sframe = E.Frame("<spec>", ci, dict(locs), None, "callee-spec")
        for i, ex in enumerate(cc.requires):
            self.ctx.oblige(self, "call-pre", f"{qual}#{i}", V.eval_bool(self, ex, sframe), "", False, text=ex)
        # a callee that takes a non-reentrant lock must not be called while that lock is held (the call would never return)
        for lp in self.callee_acquires(fnode, ci):
            try:
                lv = self.eval(ast.parse(lp, mode="eval").body, sframe)
            except (E.Unsupported, E.PyExc):
                continue
            if isinstance(lv, VRef) and lv.kind == "lock":
                lrec = run.rec(lv.oid)
                if lrec.kind == "Lock":
                    self.ctx.oblige(self, "lock-reentry", f"{qual}:{lp}", lrec.held == 0,
                                    f"{qual} acquires the non-reentrant {lp}, which the caller already holds", False,
                                    text=f"call of {qual} with {lp} not held")
        self.fire("contract_call", cc, recv, args, kwargs)
        saved_old, saved_locals = run.old_heap, getattr(self, "old_locals", {})
        run.old_heap = run.snapshot()
        self.old_locals = dict(locs)
        try:
            tag = run.fresh_name(f"call:{qual}")
            for p in (cc.modifies or []):
                if p.endswith("[*]"):
                    # every object stored in this map may have been modified: their fields are re-freshed (identity kept); the pre-state view keeps
                    # reading the entry values (old heap / templates), so frame clauses of the callee compare two different states
                    dref = self.eval(ast.parse(p[:-3], mode="eval").body, sframe)
                    if not (isinstance(dref, VRef) and dref.kind == "dict"):
                        raise E.Unsupported(f"callee {qual}: modifies {p} is not a map")
                    drec = run.rec(dref.oid)
                    prefix = drec.valsym or drec.sym
                    if not hasattr(run, "havoc_prefixes"):
                        run.havoc_prefixes = []
                    run.havoc_prefixes.append((prefix, tag))
                    for nm_, oid_ in list(run.sym_oids.items()):
                        if isinstance(nm_, str) and nm_.startswith(prefix + "[") and nm_.endswith("]") and oid_ in run.heap:
                            orec = run.heap[oid_]
                            if isinstance(orec, ObjRec):
                                orec.fields = {}
                                orec.sym = f"{nm_}@{tag}"
                    continue
                pn = ast.parse(p, mode="eval").body
                base = self.eval(pn.value, sframe)
                if isinstance(base, VRef) and base.kind == "obj":
                    rec = run.rec(base.oid)
                    ty = self.field_type(rec.cls, pn.attr)
                    if ty is None:
                        raise E.Unsupported(f"callee {qual}: no type for modified {p}")
                    rec.fields[pn.attr] = self.fresh(ty, f"{p}@{tag}")
            outcomes = [("returns", None)] + [(f"raises {r}", None) for r in (cc.raises or [])]
            k = run.choose(outcomes, f"{qual}()") if len(outcomes) > 1 else 0
            if k > 0:
                exc = VExc(cc.raises[k - 1])
                for lbl, ex in cc.xensures.items():
                    run.assume(V.eval_bool(self, ex, sframe, {"exc": VStr(exc.cls), "result": NONE}))
                for lbl, ex in cc.always.items():
                    run.assume(V.eval_bool(self, ex, sframe, {"exc": VStr(exc.cls), "result": NONE}))
                run.calls.append({"name": qual, "outcome": "raise", "value": exc, "args": list(args), "contract": True})
                raise E.PyExc(exc, f"callee {qual}")
            rt = parse_type(cc.returns) if cc.returns else self.ann_type(fnode.returns, rel)
            result = self.fresh(rt, f"ret@{tag}")
            if isinstance(result, VOpt) and result.ty[0] in ("obj", "list", "dict", "set") and \
                    any("result is" in ex_ and "result is not None" != ex_.strip() for ex_ in list(cc.ensures.values()) + list(cc.always.values())):
                result = self.force(result)      # identity conjuncts (`result is <obj>`) bind the reference: needs the case split now
            run.contract_calls.append({"name": qual, "outcome": "return", "value": result, "args": list(args)})
            # the specification forms about calls (calls_to, raised, returned_in_iter ...) see contract calls like havocked ones
            run.calls.append({"name": qual, "outcome": "return", "value": result, "args": list(args), "contract": True})
            extra = {"result": result, "exc": NONE}
            for lbl, ex in list(cc.ensures.items()) + list(cc.always.items()):
                if unshared and any(isinstance(n_, ast.Name) and n_.id in unshared for n_ in ast.walk(V.parse_clause(ex))):
                    continue
                try:
                    self.assume_clause(V.parse_clause(ex), sframe, extra)
                except E.PyExc as pe_:
                    if os.environ.get("PYVC_DEBUG"):
                        print("UNASSUMED", qual, lbl, pe_.exc.cls, pe_.origin)
                    pass      # a callee postcondition that cannot be evaluated here is simply not assumed (weaker, sound)
            if extra["result"] is not result:
                result = extra["result"]
                run.contract_calls[-1]["value"] = result
                run.calls[-1]["value"] = result
            for inst in cc.ghost_instances:
                # the callee's universally quantified ghosts, instantiated once more with the given expressions over its parameters
                f_i = E.Frame("<spec>", ci, dict(sframe.locals), None, "callee-spec")
                self.pure += 1
                try:
                    vals = {g_: self.eval(V.parse_clause(ex_), sframe) for g_, ex_ in inst.items()}
                finally:
                    self.pure -= 1
                f_i.locals.update(vals)
                for lbl, ex in list(cc.ensures.items()) + list(cc.always.items()):
                    try:
                        self.assume_clause(V.parse_clause(ex), f_i, dict(extra))
                    except E.PyExc:
                        pass
            for inst in (self.contract.options.get("callee_instances", {}) if self.contract is not None else {}).get(qual, []):
                # the CALLER asks for further instances of the callee's universally quantified ghosts, with expressions over the caller's own state
                f_i = E.Frame("<spec>", ci, dict(sframe.locals), None, "callee-spec")
                cf = self.inv_frame(getattr(self, "root_frame", None), {}) if getattr(self, "root_frame", None) is not None else self.spec_frame
                self.pure += 1
                try:
                    vals = {g_: self.eval(V.parse_clause(ex_), cf) for g_, ex_ in inst.items()}
                finally:
                    self.pure -= 1
                f_i.locals.update(vals)
                for lbl, ex in list(cc.ensures.items()) + list(cc.always.items()):
                    try:
                        self.assume_clause(V.parse_clause(ex), f_i, dict(extra))
                    except E.PyExc:
                        pass
            if cc.use_invariants:
                rcls = run.rec(recv.oid).cls
                for lbl, ex in V.class_clauses(self.reg.invariants, rcls):
                    run.assume(V.eval_bool(self, ex, sframe, {"self": recv}))
            return result
        finally:
            run.old_heap, self.old_locals = saved_old, saved_locals
