"""Calls: repo functions (inlined or by contract), constructors, builtins, externals, callbacks."""
from __future__ import annotations
import ast
import z3
from .values import *
from . import engine as E
from .ops import _fn

MAX_DEPTH = 12


class SymKey(str):
    """a keyword-argument name that is a symbolic string (only ever handed to havocked callees)"""
    def __new__(cls, label, term):
        o = super().__new__(cls, label)
        o.term = term
        return o


class VCallbackFn(VCallback):
    __slots__ = ("recv",)

    def __init__(self, name, spec, recv):
        super().__init__(name, spec)
        self.recv = recv


class CallMixin:
    # ------------------------------------------------------------ obligations
    def oblige(self, kind, label, term, detail="", aux=False):
        """record a named obligation `pc => term`, check it, then assume it"""
        if self.ctx is None:
            self.run.assume(term)
            return
        self.ctx.oblige(self, kind, label, term, detail, aux)

    # ------------------------------------------------------------ call evaluation
    def eval_call(self, node, frame):
        # special forms of the specification language
        if isinstance(node.func, ast.Name) and self.pure:
            sf = getattr(self, "spec_" + node.func.id, None)
            if sf is not None and node.func.id not in frame.locals:
                return sf(node, frame)
        if isinstance(node.func, ast.Name) and node.func.id == "next" and "next" not in frame.locals and node.args \
                and isinstance(node.args[0], ast.GeneratorExp) and len(node.args[0].generators) == 1 and not node.keywords:
            r_ = self.next_first_match(node, frame)
            if r_ is not None:
                return r_
        fn = self.eval(node.func, frame)
        args = []
        for a in node.args:
            if isinstance(a, ast.Starred):
                sv = self.eval(a.value, frame)
                try:
                    args.extend(self.iterate_concrete(sv))
                except E.Unsupported:
                    if not self.is_havocked_callee(fn):
                        raise
                    args.append(VAny(z3.Const(self.run.fresh_name("*args"), AnySort), "starargs"))
            else:
                args.append(self.eval(a, frame))
        kwargs = {}
        for kw in node.keywords:
            if kw.arg is None:
                d = self.eval(kw.value, frame)
                if isinstance(d, VGen):
                    if not self.is_havocked_callee(fn):
                        raise E.Unsupported("** of symbolic comprehension")
                    kwargs["**"] = VAny(z3.Const(self.run.fresh_name("**kwargs"), AnySort), "starkwargs")
                    continue
                r = self.run.rec(d.oid) if isinstance(d, VRef) and d.kind == "dict" else None
                if r is None or not r.concrete:
                    return self.call_star_kwargs(fn, args, kwargs, d, node, frame)
                for i_, (key, (k, v)) in enumerate(r.items.items()):
                    if key[0] != "s":
                        k = self.force(k)
                        if isinstance(k, VStr) and self.is_havocked_callee(fn):
                            kwargs[SymKey(f"**k{i_}", k.t)] = v       # a keyword whose NAME is symbolic, passed to a havocked callee
                            continue
                        raise E.Unsupported("** with non-str key")
                    kwargs[key[1]] = v
            else:
                kwargs[kw.arg] = self.eval(kw.value, frame)
        return self.call_value(fn, args, kwargs, node, frame)

    def next_first_match(self, node, frame):
        """next((elt for x in L if c(x)), default) over a symbolic list of objects (or reversed(L)): the first element in iteration order
        that satisfies the filters.  `no earlier element matches` is a universal fact, instantiated on every element of L that is (or later
        becomes) materialised on the path -- e.g. at a ghost index in a postcondition."""
        run = self.run
        gnode = node.args[0]
        g = gnode.generators[0]
        if not isinstance(g.target, ast.Name):
            return None
        it = self.force(self.eval(g.iter, frame))
        rev, base = False, it
        if isinstance(it, VTuple) and it.items and isinstance(it.items[0], VStr) and E.simp(it.items[0].t).as_string() == "#reversed":
            rev, base = True, self.force(it.items[1])
        if not (isinstance(base, VRef) and base.kind == "list"):
            return None
        r = run.rec(base.oid)
        if r.concrete or r.elem[0] != "obj" or r.arr is not None or r.appended:
            return None
        var = g.target.id
        n = r.length
        shift = r.shift

        def conds_at(x):
            f2 = E.Frame(frame.relpath, frame.ci, {var: x}, frame, frame.fname)
            self.pure += 1
            try:
                return z3.And([self.truthy(self.eval(c, f2)) for c in g.ifs]) if g.ifs else z3.BoolVal(True)
            finally:
                self.pure -= 1
        w = z3.Int(run.fresh_name("first"))
        run.inputs[str(w)] = w
        found = run.choose([("found", z3.And(w >= 0, w < n)), ("exhausted", None)], "next(" + ast.unparse(gnode)[:40] + ")") == 0
        x = None
        if found:
            x = self.symlist_elem(base, r, w)
            run.assume(conds_at(x))
        w_e = E.simp(w + shift) if not isinstance(shift, int) or shift else w
        lo_e = E.simp(z3.IntVal(0) + shift) if not isinstance(shift, int) or shift else z3.IntVal(0)

        def inst(elemref, epos):
            # element `epos` of the underlying list is visited before the match (or at all, when nothing matched): it does not match
            rng = z3.And(epos >= lo_e, epos < lo_e + n)
            if found:
                rng = z3.And(rng, (epos > w_e) if rev else (epos < w_e))
            run.assume(z3.Implies(rng, z3.Not(conds_at(elemref))), persist=True)
        ent = [inst, set()]
        if not hasattr(run, "index_facts"):
            run.index_facts = {}
        run.index_facts.setdefault(r.sym, []).append(ent)
        run.abstractions.append("first-match facts of next(...) are instantiated per materialised element, on the element's state at instantiation time")
        for (qterm, qname) in list(run.elem_index.get(r.sym, [])):
            if qname in run.sym_oids and qname not in ent[1]:
                ent[1].add(qname)
                inst(self.sym_ref(qname, "obj", r.elem[1], None), qterm)
        if found:
            f2 = E.Frame(frame.relpath, frame.ci, {var: x}, frame, frame.fname)
            return self.eval(gnode.elt, f2)
        if len(node.args) > 1:
            return self.eval(node.args[1], frame)
        raise E.PyExc(VExc("StopIteration"), "next() on an exhausted generator")

    def is_havocked_callee(self, fn):
        if isinstance(fn, VCallback) or (isinstance(fn, VBound) and isinstance(fn.recv, VCallback)):
            return True
        if isinstance(fn, VBound) and isinstance(fn.recv, VRef) and fn.recv.kind == "obj" and self.contract is not None:
            cls = self.run.rec(fn.recv.oid).cls
            return any(f"{c}.{fn.name}" in self.contract.callbacks for c in [cls] + self.exc_bases_cls(cls))
        return False

    def call_star_kwargs(self, fn, args, kwargs, d, node, frame):
        if self.is_havocked_callee(fn):
            kwargs["**"] = d
            return self.call_value(fn, args, kwargs, node, frame)
        raise E.Unsupported("** of symbolic mapping")

    def call_value(self, fn, args, kwargs, node=None, frame=None):
        fn = self.force(fn)
        if isinstance(fn, VFunc):
            return self.call_function(fn, args, kwargs)
        if isinstance(fn, VBound):
            return self.call_method(fn.recv, fn.name, args, kwargs, node, frame)
        if isinstance(fn, VPartial):
            if fn.fn is None:
                return NONE
            return self.call_function(fn.fn, [fn.first] + list(args), kwargs)
        if isinstance(fn, VBuiltin):
            return self.call_builtin(fn.name, args, kwargs, node, frame)
        if isinstance(fn, VClass):
            return self.construct(fn.info, args, kwargs)
        if isinstance(fn, VExcClass):
            e = VExc(fn.name, args[0] if args else None)
            ci = self.repo.find_class(fn.name)
            if ci is not None:
                init = self.repo.lookup_method(ci, "__init__")
                if init is not None:
                    # user-defined exception with fields: run __init__ against a scratch object
                    pass
            return e
        if isinstance(fn, VCallback):
            return self.call_callback(fn, args, kwargs, node, frame)
        if isinstance(fn, VModule):
            return self.call_external(fn.name, args, kwargs, node, frame)
        if isinstance(fn, VNone):
            raise E.PyExc(VExc("TypeError"), "None is not callable")
        if isinstance(fn, VAny):
            return self.call_any(fn, args, kwargs, node, frame)
        raise E.Unsupported(f"call of {fn!r}")

    def call_any(self, fn, args, kwargs, node, frame):
        if self.opt("opaque_any_methods"):
            return self.call_callback(VCallback(f"opaque:{fn.t}"[:60], {"raises": ("Exception",), "returns": "any"}), args, kwargs, node, frame)
        raise E.Unsupported("call of opaque value")

    # ------------------------------------------------------------ repo functions
    def bind_args(self, fnode, args, kwargs, frame, defaults_frame):
        a = fnode.args
        params = [p.arg for p in a.posonlyargs + a.args]
        locs = {}
        args = list(args)
        if len(args) > len(params) and a.vararg is None:
            raise E.PyExc(VExc("TypeError"), "too many positional arguments")
        for p, v in zip(params, args):
            locs[p] = v
        if a.vararg is not None:
            locs[a.vararg.arg] = VTuple(args[len(params):])
        kw = dict(kwargs)
        for p in params[len(args):] + [k.arg for k in a.kwonlyargs]:
            if p in kw:
                locs[p] = kw.pop(p)
        ndef = len(a.defaults)
        for i, p in enumerate(params):
            if p not in locs:
                j = i - (len(params) - ndef)
                if j >= 0:
                    locs[p] = self.eval(a.defaults[j], defaults_frame)
                else:
                    raise E.PyExc(VExc("TypeError"), f"missing argument {p}")
        for k, d in zip(a.kwonlyargs, a.kw_defaults):
            if k.arg not in locs:
                if d is None:
                    raise E.PyExc(VExc("TypeError"), f"missing kw-only argument {k.arg}")
                locs[k.arg] = self.eval(d, defaults_frame)
        if kw:
            if a.kwarg is not None:
                locs[a.kwarg.arg] = self.new_dict([(VStr(k), v) for k, v in kw.items()])
            else:
                raise E.PyExc(VExc("TypeError"), f"unexpected keyword argument {sorted(kw)[0]}")
        elif a.kwarg is not None:
            locs[a.kwarg.arg] = self.new_dict([])
        return locs

    def call_function(self, fn: VFunc, args, kwargs):
        node = fn.node
        # a nested function under contract (a closure): used through its contract -- also for its own recursive calls (partial correctness)
        ncc = self.nested_contract(node)
        if ncc is not None:
            return self.call_closure_by_contract(ncc, node, args, kwargs, fn.frame)
        if self.depth > MAX_DEPTH:
            raise E.Unsupported(f"inlining depth exceeded at {fn.name}")
        dframe = fn.frame if fn.frame is not None else E.Frame(fn.relpath, fn.ci)
        if isinstance(node, ast.Lambda):
            locs = self.bind_args(node, args, kwargs, None, dframe)
            f = E.Frame(fn.relpath, fn.ci, locs, fn.frame, "<lambda>")
            return self.eval(node.body, f)
        if isinstance(node, ast.AsyncFunctionDef):
            raise E.Unsupported("async function")
        for n in ast.walk(node):
            if isinstance(n, (ast.Yield, ast.YieldFrom)):
                raise E.Unsupported(f"generator function {fn.name}")
        locs = self.bind_args(node, args, kwargs, None, dframe)
        f = E.Frame(fn.relpath, fn.ci, locs, fn.frame, fn.name)
        self.depth += 1
        try:
            self.exec_block(node.body, f)
        except E._Return as r:
            return r.value
        finally:
            self.depth -= 1
        return NONE

    def nested_contract(self, node):
        return None

    def call_method(self, recv, name, args, kwargs, node=None, frame=None):
        recv = self.force(recv)
        if isinstance(recv, VRef) and recv.kind == "obj":
            rec = self.run.rec(recv.oid)
            ci = self.repo.find_class(rec.cls) or self.repo.find_class(getattr(self, "class_alias", {}).get(rec.cls, ""))
            if ci is None:
                raise E.Unsupported(f"class {rec.cls}")
            # method declared as havocked collaborator in the contract?
            if self.contract is not None:
                for cn in [rec.cls] + [b for b in self.exc_bases_cls(rec.cls)]:
                    spec = self.contract.callbacks.get(f"{cn}.{name}")
                    if spec is not None:
                        nm = f"{rec.sym or rec.cls}.{name}"
                        cbv = VCallback(nm, spec)
                        if spec.get("function"):
                            cbv = VCallbackFn(nm, spec, recv)
                        return self.call_callback(cbv, args, kwargs, node, frame)
            # callee contract?
            cc = self.callee_contract(ci, name)
            if cc is not None:
                return self.call_by_contract(cc, recv, args, kwargs)
            ext = self.method_external(rec.cls, name)
            if ext is not None:
                return ext(recv, args, kwargs)
            m = self.repo.lookup_method(ci, name)
            if m is None:
                raise E.PyExc(VExc("AttributeError"), f"{rec.cls}.{name}")
            mnode, dci = m
            decos = [ast.unparse(d) for d in mnode.decorator_list]
            fn = VFunc(mnode, None, dci, dci.mod.relpath, f"{dci.name}.{name}")
            if "staticmethod" in decos:
                return self.call_function(fn, args, kwargs)
            if "classmethod" in decos:
                return self.call_function(fn, [VClass(ci.name, ci)] + list(args), kwargs)
            return self.call_function(fn, [recv] + list(args), kwargs)
        if isinstance(recv, VEnum):
            ci = self.repo.find_class(recv.ename)
            m = self.repo.lookup_method(ci, name)
            if m is not None:
                return self.call_function(VFunc(m[0], None, m[1], m[1].mod.relpath, name), [recv] + list(args), kwargs)
        if isinstance(recv, VCallback):
            sp0 = recv.spec if isinstance(recv.spec, dict) else {}
            sp = self.cb_spec(f"{recv.name}.{name}", sp0.get(name) or (sp0 if sp0.get("inherit") else None))
            return self.call_callback(VCallback(f"{recv.name}.{name}", sp), args, kwargs, node, frame)
        from .builtins_ import call_builtin_method
        return call_builtin_method(self, recv, name, args, kwargs, node, frame)

    def callee_contract(self, ci, name):
        return None

    def exc_bases_cls(self, cls):
        ci = self.repo.find_class(cls)
        out = []
        if ci is not None:
            for b in ci.bases:
                bn = b.split(".")[-1].split("[")[0]
                out.append(bn)
                out.extend(self.exc_bases_cls(bn))
        return out

    def method_external(self, cls, name):
        return None

    # ------------------------------------------------------------ construction
    def construct(self, ci, args, kwargs):
        if ci.is_enum:
            # Enum(value) lookup
            if len(args) == 1:
                members = ci.enum_members
                v = args[0]
                opts = []
                for m, val in members:
                    lit = VStr(val) if isinstance(val, str) else VInt(val)
                    opts.append((m, self.eq(v, lit)))
                opts.append(("invalid", z3.Not(z3.Or([c for _m, c in opts]))))
                k = self.run.choose(opts, f"{ci.name}(value)")
                if k == len(members):
                    raise E.PyExc(VExc("ValueError"), f"{ci.name}(value)")
                return self.enum_member(ci.name, members[k][0])
            raise E.Unsupported("enum construction")
        if ci.name in (self.opt("opaque_ctor") or []):
            return self.fresh(("obj", ci.name), self.run.fresh_name(f"new {ci.name}"))
        rec = ObjRec(ci.name, {})
        ref = VRef(self.run.alloc(rec), "obj", ci.name)
        init = self.repo.lookup_method(ci, "__init__")
        if init is not None:
            fn = VFunc(init[0], None, init[1], init[1].mod.relpath, f"{ci.name}.__init__")
            self.call_function(fn, [ref] + list(args), kwargs)
            return ref
        if ci.is_dataclass:
            fields = self.repo.all_fields(ci)

            def init_false(default):
                return isinstance(default, ast.Call) and ast.unparse(default.func) in ("field", "dataclasses.field") and \
                    any(kw.arg == "init" and isinstance(kw.value, ast.Constant) and kw.value.value is False for kw in default.keywords)
            names = [f[0] for f in fields if not init_false(f[2])]       # field(init=False) is not a constructor parameter
            if len(args) > len(names):
                raise E.PyExc(VExc("TypeError"), "too many arguments")
            vals = dict(zip(names, args))
            for k, v in kwargs.items():
                if k not in names or k in vals:
                    raise E.PyExc(VExc("TypeError"), f"unexpected argument {k}")
                vals[k] = v
            dframe = E.Frame(ci.mod.relpath, ci)
            for (n, ann, default) in fields:
                if n in vals:
                    rec.fields[n] = vals[n]
                elif default is not None:
                    if init_false(default) and not any(kw.arg in ("default", "default_factory") for kw in default.keywords):
                        continue         # set by __post_init__ (reading it before that is an AttributeError in Python too)
                    rec.fields[n] = self.dc_default(default, dframe)
                else:
                    raise E.PyExc(VExc("TypeError"), f"missing field {n}")
            pi = self.repo.lookup_method(ci, "__post_init__")
            if pi is not None:
                self.call_function(VFunc(pi[0], None, pi[1], pi[1].mod.relpath, "__post_init__"), [ref], {})
            rec.frozen = ci.frozen
            return ref
        # plain class without __init__
        if args or kwargs:
            raise E.PyExc(VExc("TypeError"), f"{ci.name}() takes no arguments")
        return ref

    def dc_default(self, default, dframe):
        if isinstance(default, ast.Call) and ast.unparse(default.func) in ("field", "dataclasses.field"):
            for kw in default.keywords:
                if kw.arg == "default":
                    return self.eval(kw.value, dframe)
                if kw.arg == "default_factory":
                    f = self.eval(kw.value, dframe)
                    return self.call_value(f, [], {})
            raise E.PyExc(VExc("TypeError"), "field without default")
        return self.eval(default, dframe)

    # ------------------------------------------------------------ callbacks (havoc)
    def call_callback(self, cb: VCallback, args, kwargs, node=None, frame=None):
        run = self.run
        spec = cb.spec if isinstance(cb.spec, dict) else {}
        if spec.get("function"):
            run.externals = getattr(run, "externals", 0) + 1       # assumed contract, not a value: the path is not cross-checked against CPython
            # a deterministic, total, side-effect-free collaborator: an uninterpreted function of receiver and arguments
            rt = parse_type(spec.get("returns", "any"))
            recv = getattr(cb, "recv", None)
            ins = ([self.inject(recv)] if recv is not None else []) + [self.inject(a) for a in args]
            if spec.get("partial"):
                ok = z3.Function(spec["function"] + "#ok", *([AnySort] * len(ins)), z3.BoolSort())(*ins)
                if not run.decide(ok, f"{spec['function']} succeeds"):
                    raise E.PyExc(VExc(spec["partial"]), f"{spec['function']}")
            if rt[0] == "opt":
                isn = z3.Function(spec["function"] + "#none", *([AnySort] * len(ins)), z3.BoolSort())(*ins)
                if run.decide(isn, f"{spec['function']} is None"):
                    return NONE
                rt = rt[1]
            if rt[0] == "tuple":
                return VTuple([self.wrap(t_ if t_[0] != "list" else ("any",), z3.Function(f"{spec['function']}#{i_}", *([AnySort] * len(ins)),
                               self.sort_of(t_ if t_[0] != "list" else ("any",)))(*ins)) if t_[0] != "list" else
                               self.fresh(t_, f"{spec['function']}#{i_}({','.join(str(x) for x in ins)})"[:150]) for i_, t_ in enumerate(rt[1:])])
            f = z3.Function(spec["function"], *([AnySort] * len(ins)), self.sort_of(rt))
            return self.wrap(rt, f(*ins))
        self.fire("callback", cb, args, kwargs, node, frame)
        if self.contract is not None and self.ctx is not None and frame is not None:
            for pat, clauses in self.contract.callsite_pre.items():
                if cb.name.endswith(pat):
                    for lbl, ex in clauses.items():
                        f = self.inv_frame(frame, {"args": VTuple(args), "arg0": args[0] if args else NONE,
                                                   "kwargs": self.new_dict([(VStr(k_.term) if isinstance(k_, SymKey) else VStr(k_), v_)
                                                                              for k_, v_ in kwargs.items() if isinstance(k_, str)])})
                        root = getattr(self, "root_frame", None)
                        if root is not None and root is not frame:
                            for k_, v_ in self.visible_locals(root).items():
                                f.locals.setdefault(k_, v_)
                        self.pure += 1
                        try:
                            t = self.truthy(self.eval(self.verifier.parse_clause(ex), f))
                        finally:
                            self.pure -= 1
                        self.ctx.oblige(self, "callsite-pre", f"{pat.lstrip('.')}:{lbl}", t,
                                        f"call of {cb.name}", False, text=ex)
        idx = len(run.calls)
        entry = {"name": cb.name, "args": list(args), "kwargs": dict(kwargs), "outcome": None, "value": None, "idx": idx}
        run.calls.append(entry)
        raises = spec.get("raises", ("Exception",))
        opts = [("returns", None)] + [(f"raises {r}", None) for r in raises]
        k = run.choose(opts, f"{cb.name}()#{idx}")
        if k > 0:
            entry["outcome"] = "raise"
            cls = raises[k - 1]
            e = VExc(cls, VStr(z3.Const(run.fresh_name(f"{cb.name}#msg"), z3.StringSort())), arbitrary=True)
            entry["value"] = e
            raise E.PyExc(e, f"callback {cb.name}")
        entry["outcome"] = "return"
        rt = parse_type(spec.get("returns", "any"))
        v = self.fresh(rt, run.fresh_name(f"{cb.name}#ret"))
        entry["value"] = v
        self.fire("callback_return", cb, entry)
        return v

    # ------------------------------------------------------------ builtins / externals
    def call_builtin(self, name, args, kwargs, node=None, frame=None):
        from .builtins_ import call_builtin
        return call_builtin(self, name, args, kwargs, node, frame)

    def call_external(self, name, args, kwargs, node=None, frame=None):
        from .builtins_ import call_external
        return call_external(self, name, args, kwargs, node, frame)

    def module_attr(self, v: VModule, attr):
        from .builtins_ import module_attr
        return module_attr(self, v, attr)
