"""Per-function verification driver: path enumeration, obligations, verdict aggregation."""
from __future__ import annotations
import ast, importlib.util, os, sys, time, traceback
import z3
from .values import *
from . import engine as E
from .source import Repo
from .interp import Interp
from .extras import ExtrasMixin
from .loops import LoopMixin
from . import spec as S

PROPERTY_KINDS = {"post", "xpost", "raises", "callsite-pre", "owns", "lock-reentry", "lock-order", "table",
                  "inv-preserved", "inv-init", "always", "call-pre", "scan", "effect"}
AUX_KINDS = {"loop-init", "loop-step", "frame", "decreases", "lemma"}


class VInterp(LoopMixin, ExtrasMixin, Interp):
    pass


class ObResult:
    def __init__(self, name, kind, label, text=""):
        self.name = name
        self.kind = kind
        self.label = label
        self.text = text
        self.instances = 0
        self.discharged = 0
        self.failed = []        # list of dict(path, model, detail, precise)
        self.unknown = []
        self.time = 0.0
        self.backends = {}
        self.aux = kind in AUX_KINDS
        self.sample_smt = None

    @property
    def status(self):
        if self.failed:
            return "failed"
        if self.unknown:
            return "unknown"
        return "discharged" if self.instances else "vacuous"

    def to_json(self):
        return {"name": self.name, "kind": self.kind, "status": self.status, "instances": self.instances,
                "discharged": self.discharged, "failed": self.failed[:5], "n_failed": len(self.failed),
                "unknown": self.unknown[:3], "time_s": round(self.time, 3), "backends": self.backends,
                "clause": self.text, "aux": self.aux}


class FuncResult:
    def __init__(self, contract):
        self.contract = contract
        self.target = contract.target
        self.prop = contract.prop
        self.obs: dict[str, ObResult] = {}
        self.paths = 0
        self.pruned = 0
        self.exits = {"return": 0, "raise": 0}
        self.unsupported = []
        self.imprecise = []
        self.error = None
        self.solver_calls = 0
        self.solver_time = 0.0
        self.wall = 0.0
        self.source_hash = None
        self.escaped = {}          # exception class -> count (raises clause evidence)
        self.truncated = False
        self.covers = {}           # implication-shaped clause -> antecedent satisfiable on some path
        self.ob_cache = set()      # (obligation, decision prefix, occurrence) instances already discharged on an earlier path
        self.xchecks = []          # path models with the engine's predicted outcome, for the CPython cross-check of the encoder
        self.xskipped = 0

    def to_json(self):
        return {"target": self.target, "prop": self.prop, "paths": self.paths, "pruned": self.pruned,
                "exits": self.exits, "unsupported": self.unsupported[:5], "imprecise": sorted(set(self.imprecise))[:5],
                "error": self.error, "solver_calls": self.solver_calls, "solver_time_s": round(self.solver_time, 3),
                "wall_s": round(self.wall, 3), "source_hash": self.source_hash, "truncated": self.truncated,
                "covers": self.covers, "xchecks": self.xchecks, "xskipped": self.xskipped,
                "solver_disagreements": getattr(self, "solver_disagreements", []),
                "obligations": [o.to_json() for o in self.obs.values()]}


def load_contract_module(path):
    """exec the contract file (registers contracts in spec.REG) and return its spec functions' ASTs"""
    src = open(path, encoding="utf-8").read()
    tree = ast.parse(src)
    funcs = {}
    for st in tree.body:
        if isinstance(st, ast.FunctionDef):
            funcs[st.name] = (st, "<" + os.path.basename(path) + ">")
    name = "contracts_" + os.path.basename(path)[:-3]
    specmod = importlib.util.spec_from_file_location(name, path)
    mod = importlib.util.module_from_spec(specmod)
    sys.modules[name] = mod
    specmod.loader.exec_module(mod)
    return funcs, mod


class Ctx:
    """verification context of one function"""

    def __init__(self, fr: FuncResult, qual):
        self.fr = fr
        self.qual = qual

    def oblige(self, interp, kind, label, term, detail="", aux=False, text=""):
        run = interp.run
        fr = self.fr
        name = f"{fr.prop}/{self.qual}/{kind}[{label}]"
        ob = fr.obs.get(name)
        if ob is None:
            ob = fr.obs[name] = ObResult(name, kind, label, text)
            ob.aux = ob.aux or aux
        ob.instances += 1
        t = E.simp(term)
        t0 = time.time()
        if E.is_true(t):
            ob.discharged += 1
            ob.backends["trivial"] = ob.backends.get("trivial", 0) + 1
            return
        # paths are explored by re-execution: an instance reached under the same decision prefix (and the same occurrence count) is the SAME
        # formula under the same path condition as on an earlier path, where it was discharged -- it is not sent to the solver again
        sig = (name, tuple(e[1] for e in run.log))
        occ = run.ob_occ.get(sig, 0)
        run.ob_occ[sig] = occ + 1
        ckey = sig + (occ,)
        if ckey in fr.ob_cache:
            ob.discharged += 1
            ob.backends["same-prefix"] = ob.backends.get("same-prefix", 0) + 1
            run.assume(t)
            return
        r = run.check(z3.Not(t))
        ob.time += time.time() - t0
        if r == z3.unsat:
            ob.discharged += 1
            fr.ob_cache.add(ckey)
            ob.backends["z3"] = ob.backends.get("z3", 0) + 1
            if os.environ.get("PYVC_TIER") == "thorough":
                # thorough tier: an independent second solver re-decides a sample of the discharged instances (the first three of every named
                # obligation, then every fourth); `sat` from cvc5 where z3 said `unsat` is a checker error, never a verdict
                k_ = ob.backends.get("z3", 0)
                if k_ <= 3 or k_ % 4 == 0:
                    from .solve import cvc5_check
                    res2 = cvc5_check(run.pc + [z3.Not(t)], timeout_s=10)
                    ob.backends["cvc5-" + ("confirms" if res2 == "unsat" else ("DISAGREES" if res2 == "sat" else "no-answer"))] = \
                        ob.backends.get("cvc5-" + ("confirms" if res2 == "unsat" else ("DISAGREES" if res2 == "sat" else "no-answer")), 0) + 1
                    if res2 == "sat":
                        fr.solver_disagreements = getattr(fr, "solver_disagreements", []) + [f"{name} @ {' ; '.join(run.trace)[:200]}"]
            if ob.sample_smt is None:
                ob.sample_smt = str(t)[:400]
        elif r == z3.sat:
            m = run.solver.model()
            ob.failed.append({"path": " ; ".join(run.trace), "model": model_json(run, m), "detail": detail,
                              "precise": not run.imprecise and not run.abstractions, "calls": calls_json(run, m),
                              "types": {k: list(flat_type(v)) for k, v in run.input_types.items()},
                              "abstractions": list(run.abstractions)})
        else:
            from .solve import cvc5_check
            t1 = time.time()
            res = cvc5_check(run.pc + [z3.Not(t)], timeout_s=20 if E.UNKNOWN_SPENT_S <= E.UNKNOWN_BUDGET_S else 5)
            if res != "unsat":
                E.UNKNOWN_SPENT_S += time.time() - t1
            if res == "unsat":
                ob.discharged += 1
                ob.backends["cvc5"] = ob.backends.get("cvc5", 0) + 1
            else:
                ob.unknown.append({"path": " ; ".join(run.trace), "reason": run.solver.reason_unknown()})
        run.assume(t)


def flat_type(ty):
    return [x if not isinstance(x, tuple) else list(flat_type(x)) for x in ty]


def model_val(m, c):
    v = m.eval(c, model_completion=True)
    if z3.is_int_value(v):
        return v.as_long()
    if z3.is_rational_value(v):
        return {"num": v.numerator_as_long(), "den": v.denominator_as_long()}
    if z3.is_algebraic_value(v):
        return {"approx": v.approx(6).as_decimal(6)}
    if z3.is_true(v):
        return True
    if z3.is_false(v):
        return False
    if z3.is_string_value(v):
        return v.as_string()
    return str(v)


def model_json(run, m):
    out = {}
    for name, c in run.inputs.items():
        try:
            out[name] = model_val(m, c)
        except z3.Z3Exception:
            pass
    # membership of the scalar inputs in the symbolic PRE-STATE sets (and key sets of dicts): `<set path>#members` lists the inputs the model puts
    # into the set, so that the native state builder can populate it (a model's array interpretation is not exported otherwise)
    try:
        heap0 = getattr(run, "old_heap", None) or {}
        seen_syms = set()
        recs = (list(heap0.values()) if isinstance(heap0, dict) else []) + list(run.heap.values())     # lazily materialised pre-state lives in the current heap
        for rec in recs:
            sym = getattr(rec, "sym", None)
            dom = getattr(rec, "dom", None)
            if not sym or dom is None or not isinstance(rec, (SetRec, DictRec)) or "@" in sym or "!" in sym or sym in seen_syms:
                continue
            seen_syms.add(sym)
            while z3.is_store(dom):
                dom = dom.arg(0)        # the entry value of the set: writes of this call peeled off
            mem = []
            for name, c in run.inputs.items():
                if c.sort() == dom.sort().domain() and "#" not in name and "@" not in name:
                    try:
                        if z3.is_true(m.eval(z3.Select(dom, c), model_completion=True)):
                            mem.append(model_val(m, c))
                    except z3.Z3Exception:
                        pass
            if mem and isinstance(rec, SetRec):
                out[sym + "#members"] = mem
    except Exception:      # noqa
        pass
    return out


def calls_json(run, m):
    out = []
    for c in run.calls:
        if c.get("contract"):
            continue        # a real function used through its contract: nothing to mock at replay
        e = {"name": c["name"], "outcome": c["outcome"]}
        v = c.get("value")
        if isinstance(v, (VInt, VReal, VBool, VStr)):
            try:
                e["value"] = model_val(m, v.t)
            except z3.Z3Exception:
                pass
        elif isinstance(v, VAny):
            try:
                tr = m.eval(z3.Function("truthy", AnySort, z3.BoolSort())(v.t), model_completion=True)
                e["truthy"] = bool(z3.is_true(tr))
            except z3.Z3Exception:
                pass
        elif isinstance(v, VExc):
            e["exc"] = v.cls
        out.append(e)
    return out


class Verifier:
    def __init__(self, repo: Repo, reg, spec_funcs):
        self.repo = repo
        self.reg = reg
        self.spec_funcs = spec_funcs
        self._clause_cache = {}

    def parse_clause(self, text):
        if text not in self._clause_cache:
            self._clause_cache[text] = ast.parse(text.strip(), mode="eval").body
        return self._clause_cache[text]

    # ------------------------------------------------------------------
    def verify(self, c: S.Contract) -> FuncResult:
        fr = FuncResult(c)
        t0 = time.time()
        try:
            relpath, qual = c.target.split("::")
            self.repo.default_hint = relpath
            self.repo.class_hint.clear()
            fnode, ci = self.repo.function_source(relpath, qual)
            fr.source_hash = self.repo.extracted.get(c.target)
        except (KeyError, OSError, SyntaxError) as e:
            fr.error = f"target not found: {e}"
            fr.wall = time.time() - t0
            return fr
        forced = []
        while True:
            run = E.Run(forced, None)
            try:
                self.run_path(c, fr, run, relpath, qual, fnode, ci)
            except E.PathEnd:
                fr.pruned += 1
                if os.environ.get("PYVC_DEBUG"):
                    print("PRUNED", " ; ".join(run.trace))
            except E.Unsupported as u:
                fr.unsupported.append(f"{u} @ {' ; '.join(run.trace[-3:])}")
            except z3.Z3Exception as ze:
                fr.unsupported.append(f"z3: {ze} @ {' ; '.join(run.trace[-3:])}")
            except RecursionError:
                fr.unsupported.append("recursion limit")
            fr.solver_calls += run.n_solver
            fr.solver_time += run.t_solver
            fr.imprecise.extend(run.imprecise)
            try:
                nxt = E.next_forced(run.log)
            except E.Unsupported as u:
                fr.unsupported.append(str(u))
                break
            if nxt is None:
                break
            forced = nxt
            if fr.paths + fr.pruned >= c.max_paths:
                fr.truncated = True
                break
            if len(fr.unsupported) > 20:
                break
        fr.wall = time.time() - t0
        return fr

    def verify_lemmas(self, prop, path):
        """lemmas over specification functions only: `assume` => `prove` for all values of the declared variables"""
        c = S.Contract(f"{path}::lemmas", prop)
        fr = FuncResult(c)
        t0 = time.time()
        for lem in self.reg.lemmas:
            if lem["prop"] != prop:
                continue
            forced = []
            while True:
                run = E.Run(forced, None)
                I = self.make_interp(c, fr, run, "lemma")
                try:
                    env = {n: I.fresh(parse_type(t), n) for n, t in lem["vars"].items()}
                    sframe = E.Frame("<spec>", None, env, None, "lemma")
                    for a in lem["assume"]:
                        run.assume(self.eval_bool(I, a, sframe))
                    if run.quick_feasible(5000):
                        fr.paths += 1
                        I.ctx.oblige(I, "lemma", lem["name"], self.eval_bool(I, lem["prove"], sframe), "", False, text=lem["prove"])
                    else:
                        fr.pruned += 1
                except E.PathEnd:
                    fr.pruned += 1
                except E.Unsupported as u:
                    fr.unsupported.append(f"lemma {lem['name']}: {u}")
                fr.solver_calls += run.n_solver
                fr.solver_time += run.t_solver
                nxt = E.next_forced(run.log)
                if nxt is None:
                    break
                forced = nxt
        fr.wall = time.time() - t0
        return fr

    # ------------------------------------------------------------------
    def make_interp(self, c, fr, run, qual):
        ctx = Ctx(fr, qual)
        I = VInterp(self.repo, self.reg, run, c, ctx)
        I.spec_funcs = self.spec_funcs
        I.verifier = self
        return I

    def param_types(self, I, c, fnode, relpath):
        out = []
        a = fnode.args
        allp = a.posonlyargs + a.args + a.kwonlyargs
        for p in allp:
            if p.arg in ("self", "cls"):
                continue
            if p.arg in c.params:
                out.append((p.arg, parse_type(c.params[p.arg])))
            else:
                out.append((p.arg, I.ann_type(p.annotation, relpath)))
        return out

    def run_path(self, c, fr, run, relpath, qual, fnode, ci):
        I = self.make_interp(c, fr, run, qual + (f"#{c.variant}" if getattr(c, 'variant', None) else ""))
        I.root_fnode = fnode
        frame_locals = {}
        selfv = None
        if ci is not None and fnode.args.args and fnode.args.args[0].arg == "self":
            if c.is_init:
                selfv = VRef(run.alloc(ObjRec(ci.name, {})), "obj", ci.name)
            else:
                selfv = I.fresh(("obj", c.self_type or ci.name), "self")
                if c.self_type:
                    I.class_alias = {c.self_type: ci.name}      # a second typing of the same class: methods and constants are the real class's
            frame_locals["self"] = selfv
        for name, ty in self.param_types(I, c, fnode, relpath):
            frame_locals[name] = I.fresh(ty, name)
        for name, t in (c.options.get("closure") or {}).items():
            # free variables of a nested function: arbitrary values of the declared types (more general than any enclosing call)
            frame_locals[name] = I.fresh(parse_type(t), name)
            if name == "self":
                selfv = frame_locals[name]
        if c.options.get("closure") is not None:
            frame_locals.setdefault(fnode.name, VFunc(fnode, None, ci, relpath, fnode.name))     # recursive calls go through the contract
        if c.options.get("setup"):
            # the pre-state is BUILT by running a function of the contract file symbolically on the real classes (a fixed object-graph shape
            # with symbolic labels / values / collaborators): the function under contract is then proved for every such pre-state of that shape
            fn_s, rel_s = self.spec_funcs[c.options["setup"]]
            gh = {g: I.fresh(parse_type(t), g) for g, t in c.ghost_params.items()}
            run.ghost.update(gh)
            sf = E.Frame(relpath, ci, dict(gh), None, "setup")
            try:
                I.exec_block(fn_s.body, sf)
                built = NONE
            except E._Return as r_:
                built = r_.value
            except E.PyExc:
                raise E.PathEnd()         # the real constructors refuse this combination: there is no such pre-state
            if not (isinstance(built, VRef) and built.kind == "dict"):
                raise E.Unsupported("setup function must return a dict of bindings")
            for key_, (k_, v_) in run.rec(built.oid).items.items():
                frame_locals[key_[1]] = v_
                if key_[1] == "self":
                    selfv = v_
        ghost_vals = {g: (run.ghost[g] if g in run.ghost else I.fresh(parse_type(t), g)) for g, t in c.ghost_params.items()}
        if fnode.args.vararg is not None:
            frame_locals[fnode.args.vararg.arg] = VTuple([])
        if fnode.args.kwarg is not None:
            if c.params.get(fnode.args.kwarg.arg) == "empty":
                # the contract restricts itself to calls without extra keyword arguments (so that `**kwargs` can be forwarded to a real callee)
                frame_locals[fnode.args.kwarg.arg] = I.new_dict([])
            else:
                frame_locals[fnode.args.kwarg.arg] = I.fresh(("dict", ("str",), ("any",)), fnode.args.kwarg.arg)
        frame = E.Frame(relpath, ci, frame_locals, None, qual)
        sframe = E.Frame("<spec>", ci, dict(frame_locals), None, "spec")
        sframe.locals.update(ghost_vals)
        run.ghost.update(ghost_vals)
        I.spec_frame = sframe
        I.root_frame = frame
        # ---- fields taken from a symbolic run of the real constructor with default arguments (e.g. constant tables)
        if c.pre_state.get("from_init") and selfv is not None and not c.is_init:
            scratch = I.construct(ci, [], dict(c.pre_state.get("init_args", {})))
            srec, rec = run.rec(scratch.oid), run.rec(selfv.oid)

            def rebind(v):
                if isinstance(v, VBound) and isinstance(v.recv, VRef) and v.recv.oid == scratch.oid:
                    return VBound(selfv, v.name)
                return v
            for f in c.pre_state["from_init"]:
                val = srec.fields[f]
                if isinstance(val, VRef) and val.kind == "dict" and run.rec(val.oid).concrete:
                    dr = run.rec(val.oid)
                    dr.items = {k: (kk, rebind(vv)) for k, (kk, vv) in dr.items.items()}
                rec.fields[f] = rebind(val)
        # ---- ghost
        for g, init in c.ghost.items():
            run.ghost[g] = self.eval_spec(I, init, sframe)
        # ---- assumptions: config, invariants, requires
        tracked = [(n, v) for n, v in frame_locals.items() if isinstance(v, VRef) and v.kind == "obj"]
        frame_locals_forced = None
        if c.is_init:
            tracked = [(n, v) for n, v in tracked if n != "self"]
        I.tracked = tracked
        for n, v in tracked:
            cls = run.rec(v.oid).cls
            for lbl, ex in self.class_clauses(self.reg.config, cls):
                run.assume(self.eval_bool(I, ex, sframe, {"self": v}))
            if c.use_invariants:
                for lbl, ex in self.class_clauses(self.reg.invariants, cls):
                    run.assume(self.eval_bool(I, ex, sframe, {"self": v}))
        for ex in c.requires:
            run.assume(self.eval_bool(I, ex, sframe))
        if not run.quick_feasible(5000):
            raise E.PathEnd()
        # ---- snapshot
        run.old_heap = run.snapshot()
        I.old_locals = dict(frame_locals)
        I.entry_ghost = dict(run.ghost)
        self.install_hooks(I, c)
        # ---- execute
        result, exc = NONE, None
        try:
            I.exec_block(fnode.body, frame)
        except E._Return as r:
            result = r.value
        except E.PyExc as pe:
            exc = pe
        fr.paths += 1
        if os.environ.get("PYVC_DEBUG"):
            print("EXIT", result, exc, " ; ".join(run.trace))
        if c.is_init:
            I.tracked = [("self", selfv)] + tracked
        self.check_exit(I, c, fr, run, sframe, result, exc)

    def shape_fields(self, cls):
        out = []
        for cn in ([cls] if cls else []):
            for f in self.reg.shapes.get(cn, {}):
                if not f.startswith("ghost") and f not in out:
                    out.append(f)
        return out

    def class_level_mutable(self, cls, name):
        """the class body binds `name` to a mutable container display / constructor call (not a dataclass field(...))"""
        ci = self.repo.find_class(cls)
        if ci is None:
            return False
        for st in ci.node.body:
            val = None
            if isinstance(st, ast.Assign) and any(isinstance(t, ast.Name) and t.id == name for t in st.targets):
                val = st.value
            if isinstance(st, ast.AnnAssign) and isinstance(st.target, ast.Name) and st.target.id == name:
                val = st.value
            if val is None:
                continue
            if isinstance(val, (ast.Dict, ast.List, ast.Set, ast.ListComp, ast.DictComp, ast.SetComp)):
                return True
            if isinstance(val, ast.Call) and isinstance(val.func, ast.Name) and val.func.id in ("dict", "list", "set", "defaultdict", "OrderedDict", "deque"):
                return True
        return False

    def class_level_name(self, I, cls, name):
        """a class attribute, method, property or dataclass field default: readable on an instance without __init__ having set it"""
        ci = self.repo.find_class(cls)
        seen = set()
        while ci is not None and ci.name not in seen:
            seen.add(ci.name)
            for st in ci.node.body:
                if isinstance(st, (ast.FunctionDef, ast.AsyncFunctionDef)) and st.name == name:
                    return True
                if isinstance(st, ast.Assign) and any(isinstance(t, ast.Name) and t.id == name for t in st.targets):
                    return True
                if isinstance(st, ast.AnnAssign) and isinstance(st.target, ast.Name) and st.target.id == name and st.value is not None:
                    return True
            nxt = None
            for b in ci.node.bases:
                bn = b.id if isinstance(b, ast.Name) else (b.attr if isinstance(b, ast.Attribute) else None)
                if bn:
                    nxt = self.repo.find_class(bn, ci.mod.relpath)
                    if nxt is not None:
                        break
            ci = nxt
        return False

    def class_clauses(self, table, cls):
        out = []
        seen = set()
        stack = [cls]
        while stack:
            cn = stack.pop(0)
            if cn in seen:
                continue
            seen.add(cn)
            out.extend(table.get(cn, {}).items())
            ci = self.repo.find_class(cn)
            if ci is not None:
                stack.extend(b.split(".")[-1] for b in ci.bases)
        return out

    def install_hooks(self, I, c):
        def on_container_write(ref):
            I.run.written.add(I.run.base_oid(ref.oid))
            shared = getattr(I.run, "class_consts", {}).get(I.run.base_oid(ref.oid))
            if shared is not None and not I.pure:
                I.ctx.oblige(I, "always", f"class-level {shared} is not written through an instance", z3.BoolVal(False),
                             f"{shared} is shared by all instances: this write changes the behaviour of every other instance", False,
                             text=f"the class-level table {shared} is never mutated")
        I.hooks["container_write"] = on_container_write
        if c.reads is not None:
            # read frame: the result of the function is a function of the listed fields of `self` only
            allowed = {p_.split(".", 1)[1] for p_ in c.reads}
            self_oid_r = I.run.sym_oids.get("self")

            def chk_read(ref, attr):
                if I.pure or ref.oid != self_oid_r or attr in allowed:
                    return
                I.ctx.oblige(I, "always", f"reads-only[{','.join(sorted(c.reads))}]", z3.BoolVal(False),
                             f"reads self.{attr}: the result would depend on state outside its read frame", False,
                             text=f"the function reads no field of self other than {sorted(c.reads)}")
            prev_r = I.hooks.get("field_read")
            I.hooks["field_read"] = (lambda ref, attr: (chk_read(ref, attr), prev_r(ref, attr) if prev_r else None)[0])
        owned = c.locks.get("owned")
        if owned:
            # ownership clause: the listed fields of `self` are only touched while the lock is held
            run = I.run
            self_oid = run.sym_oids.get("self")

            def chk(ref, attr, mode):
                if I.pure or ref.oid != self_oid:
                    return
                for lockpath, fields in owned.items():
                    if attr in fields:
                        lf = lockpath.split(".")[-1]
                        rec = run.rec(ref.oid)
                        if lf not in rec.fields:
                            I.getattr(ref, lf)
                        lrec = run.rec(rec.fields[lf].oid)
                        I.ctx.oblige(I, "owns", f"{attr}:{mode}", lrec.held >= 1,
                                     f"{mode} of self.{attr} without holding {lockpath}", False,
                                     text=f"self.{attr} is only accessed while {lockpath} is held")
            prev_fr = I.hooks.get("field_read")
            I.hooks["field_read"] = lambda ref, attr: ((prev_fr(ref, attr) if prev_fr else None), chk(ref, attr, "read"))[1]
            I.hooks["field_write"] = lambda ref, attr: chk(ref, attr, "write")
        if c.locks.get("discipline"):
            # lock discipline from which atomicity follows: never two locks at once (no deadlock for any set of calls), and all guarded
            # accesses of one public call lie in ONE critical section (so the call's sequential contract applies to one atomic step)
            run = I.run
            run.sections = 0

            def on_acquire(cm, text):
                others = [o for o in run.held_locks if o != cm.oid]
                I.ctx.oblige(I, "lock-order", text, z3.BoolVal(not others), f"{text} acquired while another lock is held", False,
                             text="no lock is acquired while another lock is held")
                run.sections += 1

            def on_contract_call(cc, recv, args, kwargs):
                rel, qual = cc.target.split("::")
                fnode, ci = self.repo.function_source(rel, qual)
                acq = I.callee_acquires(fnode, ci)
                if acq:
                    I.ctx.oblige(I, "lock-order", f"call:{qual}", z3.BoolVal(not run.held_locks),
                                 f"{qual} takes a lock and is called while a lock is held", False, text="no lock-taking callee is called inside a critical section")
                    run.sections += 1
            I.hooks["lock_acquire"] = on_acquire
            I.hooks["contract_call"] = on_contract_call

    def check_frame(self, I, c, fr, run, sframe):
        """everything reachable from the tracked objects that is not named in `modifies` is unchanged"""
        ctx = I.ctx
        mods = set(c.modifies)
        for n, v in I.tracked:
            new = run.rec(v.oid)
            old = run.old_heap.get(v.oid)
            if old is None:
                continue
            for f in sorted(set(new.fields) | set(old.fields)):
                path = f"{n}.{f}"
                if path in mods or f"{n}.*" in mods:
                    continue
                nv = new.fields.get(f)
                ov = old.fields.get(f)
                if nv is None or ov is None:
                    # lazily materialised on one side only: same initial constant by construction
                    if nv is None:
                        continue
                    ov = I.getattr(run.old_view(v), f)
                if isinstance(nv, VOpt) and isinstance(ov, VOpt) and nv.name == ov.name:
                    # both sides still hold the (lazily resolved) pre-state value of this field
                    inner = nv.forced if nv.forced is not None else ov.forced
                    if isinstance(inner, VRef) and run.base_oid(inner.oid) in run.written:
                        ctx.oblige(I, "frame", path + "[contents]", z3.BoolVal(False), "container mutated", True,
                                   text=f"{path} contents unchanged")
                    else:
                        ctx.oblige(I, "frame", path, z3.BoolVal(True), "", True, text=f"{path} unchanged")
                    continue
                nv, ov = I.force(nv), I.force(ov)
                if isinstance(nv, VRef) or isinstance(ov, VRef):
                    same = isinstance(nv, VRef) and isinstance(ov, VRef) and run.base_oid(nv.oid) == run.base_oid(ov.oid)
                    ctx.oblige(I, "frame", path, z3.BoolVal(bool(same)), "field rebound", True, text=f"{path} unchanged")
                    if same and run.base_oid(nv.oid) in run.written:
                        ctx.oblige(I, "frame", path + "[contents]", z3.BoolVal(False), "container mutated", True,
                                   text=f"{path} contents unchanged")
                    continue
                try:
                    t = I.eq(nv, ov)
                except E.Unsupported:
                    continue
                ctx.oblige(I, "frame", path, t, "", True, text=f"{path} unchanged")

    # ------------------------------------------------------------------ spec evaluation
    def eval_spec(self, I, text, sframe, extra=None):
        node = self.parse_clause(text)
        f = sframe
        if extra:
            f = E.Frame(sframe.relpath, sframe.ci, dict(sframe.locals), None, "spec")
            f.locals.update(extra)
        I.pure += 1
        try:
            return I.eval(node, f)
        finally:
            I.pure -= 1

    def eval_bool(self, I, text, sframe, extra=None):
        return I.truthy(self.eval_spec(I, text, sframe, extra))

    # ------------------------------------------------------------------ exits
    def check_exit(self, I, c, fr, run, sframe, result, exc):
        ctx = I.ctx
        if not run.quick_feasible():
            raise E.PathEnd()
        if os.environ.get("PYVC_XCHECK"):
            self.export_xcheck(I, c, fr, run, result, exc)
        extra = {}
        root = getattr(I, "root_frame", None)
        if root is not None:
            # locals of the function (as they are at the exit) are visible to postconditions, below parameters/ghosts
            for k_, v_ in root.locals.items():
                if k_ not in sframe.locals and k_ not in self.spec_funcs:
                    extra[k_] = v_
        extra.update({"result": result, "ghost": None})
        for g, v in run.ghost.items():
            extra[g] = v
        extra["ncalls"] = VInt(len(run.calls))
        if exc is None:
            for gpath, gex in c.ghost_exit.items():
                gv = self.eval_spec(I, gex, sframe, extra)
                base, attr = gpath.rsplit(".", 1)
                bobj = self.eval_spec(I, base, sframe, extra)
                run.rec(bobj.oid).fields[attr] = gv
        if exc is None:
            fr.exits["return"] += 1
            extra["exc"] = NONE
            if c.raises is not None:
                # the exception clause is an obligation of every exit: a normal return satisfies it trivially (keeps totality contracts non-vacuous)
                ctx.oblige(I, "raises", "none" if not c.raises else "only-" + "|".join(c.raises), z3.BoolVal(True), "", text=f"raises: {c.raises}")
            for lbl, ex in c.ensures.items():
                self.oblige_clause(I, ctx, "post", lbl, ex, sframe, extra, fr)
            if c.is_init:
                # the constructor establishes the shape every other contract of the class assumes: each declared field is bound on return
                sv = dict(I.tracked).get("self")
                rec = run.rec(sv.oid) if sv is not None else None
                for fld in self.shape_fields(rec.cls if rec else None):
                    bound = fld in rec.fields or self.class_level_name(I, rec.cls, fld)
                    ctx.oblige(I, "init-binds", fld, z3.BoolVal(bool(bound)), "" if bound else f"self.{fld} is not bound when __init__ returns",
                               text=f"hasattr(self, {fld!r})")
                    if fld not in rec.fields and self.class_level_mutable(rec.cls, fld):
                        # a mutable container at class level that the constructor does not replace is ONE object shared by every instance: what one
                        # instance registers / records, all of them see -- the per-instance state every other contract of the class speaks about does not exist
                        ctx.oblige(I, "post", f"instance-state-is-not-shared[{fld}]", z3.BoolVal(False),
                                   f"self.{fld} is the class-level container, shared by all instances",
                                   text=f"all(vars(c_).get({fld!r}) is not self.{fld} for c_ in type(self).__mro__)")
        else:
            fr.exits["raise"] += 1
            cls = exc.exc.cls + ("*" if exc.exc.arbitrary else "")
            fr.escaped[cls] = fr.escaped.get(cls, 0) + 1
            extra["exc"] = VStr(exc.exc.cls)
            if c.raises is not None:
                bases = I.exc_bases(exc.exc.cls)
                allowed = any(a in bases for a in c.raises) and not (exc.exc.arbitrary and exc.exc.cls not in c.raises
                                                                        and not any(a in bases for a in c.raises))
                ctx.oblige(I, "raises", "none" if not c.raises else "only-" + "|".join(c.raises),
                           z3.BoolVal(bool(allowed)), f"{cls} escapes ({exc.origin})",
                           text=f"raises: {c.raises}")
            for lbl, ex in c.xensures.items():
                self.oblige_clause(I, ctx, "xpost", lbl, ex, sframe, extra, fr)
        for lbl, ex in c.always.items():
            self.oblige_clause(I, ctx, "always", lbl, ex, sframe, extra, fr)
        if c.use_invariants:
            for n, v in I.tracked:
                cls = run.rec(v.oid).cls
                for lbl, ex in self.class_clauses(self.reg.invariants, cls):
                    kind = "inv-init" if (c.is_init and n == "self") else "inv-preserved"
                    self.oblige_clause(I, ctx, kind, lbl if n == "self" else f"{n}:{lbl}", ex, sframe,
                                       dict(extra, self=v), fr)
        if c.locks.get("discipline"):
            ctx.oblige(I, "single-section", "one-critical-section-per-call", z3.BoolVal(getattr(run, "sections", 0) <= 1),
                       f"{getattr(run, 'sections', 0)} critical sections in one call: other threads can observe the state between them", False,
                       text="all guarded accesses of the call lie in one critical section")
        if c.modifies is not None:
            self.check_frame(I, c, fr, run, sframe)
        I.exit_checks(c, fr, sframe, extra, exc)

    def export_xcheck(self, I, c, fr, run, result, exc):
        """self-validation of the encoder: a model of this path's condition + the outcome the engine predicts for it (return value /
        exception class / scalar fields of the tracked objects).  native/replay.py builds that pre-state, runs the real function under
        CPython and compares.  Only paths that ARE executions are exported: no cut loop, no callee used through its contract, no abstraction."""
        limit = int(os.environ.get("PYVC_XCHECK_MAX", "40"))
        if len(fr.xchecks) >= limit:
            return
        opaque = [c_ for c_ in run.calls if not c_.get("contract") and c_.get("outcome") == "return" and not isinstance(c_.get("value"), (VInt, VReal, VBool, VStr, VNone, VEnum))]
        if getattr(run, "cut", False) or run.abstractions or run.imprecise or run.contract_calls or c.options.get("closure") or c.pre_state \
                or getattr(run, "externals", 0) or opaque:
            fr.xskipped += 1
            if os.environ.get("PYVC_DEBUG"):
                print("XSKIP", "cut" if getattr(run, "cut", False) else "", run.abstractions[:1], run.imprecise[:1], len(run.contract_calls))
            return
        # prefer a model with empty input containers (the native state builder cannot populate symbolic containers)
        empties = [c_ == 0 for n_, c_ in run.inputs.items() if n_.endswith("#len") or n_.endswith("#size")]
        if not (empties and run.solver.check(*empties) == z3.sat) and run.check() != z3.sat:
            fr.xskipped += 1
            return
        # diversify: pin scalar inputs to small non-zero values where the path allows (z3's default models are mostly zeros)
        import random as _random
        rnd = _random.Random(hash((c.target, len(fr.xchecks))) & 0xFFFF)
        assumps = list(empties) if empties and run.solver.check(*empties) == z3.sat else []
        pinned = 0
        for n_, c_ in list(run.inputs.items()):
            if pinned >= 10 or "#" in n_ or "!" in n_ or n_.startswith("now"):
                continue
            if z3.is_int(c_) or z3.is_real(c_):
                vals = [1, 2, 3, 5, 7, 10, -1, 50]
                rnd.shuffle(vals)
                for v_ in vals[:3]:
                    if run.solver.check(*assumps, c_ == v_) == z3.sat:
                        assumps.append(c_ == v_)
                        pinned += 1
                        break
        if run.solver.check(*assumps) != z3.sat:
            fr.xskipped += 1
            return
        m = run.solver.model()
        mj = model_json(run, m)
        for name, ty in run.input_types.items():
            t = ty[1] if ty and ty[0] == "opt" else ty
            if not t:
                continue
            if "#ret" in name and t[0] == "any":
                continue
            if "[" in name or t[0] in ("any", "tuple", "union") or (t[0] in ("list", "dict", "set") and mj.get(name + "#len", mj.get(name + "#size", 1)) != 0):
                if not (ty[0] == "opt" and mj.get(name + "#none") is True):
                    fr.xskipped += 1
                    if os.environ.get("PYVC_DEBUG"):
                        print("XSKIP input", name, ty)
                    return

        def pv(v):
            if isinstance(v, VOpt):
                if v.forced is not None:
                    return pv(v.forced)
                return None if z3.is_true(m.eval(v.isnone, model_completion=True)) else pv(v.get())
            if isinstance(v, VNone):
                return None
            if isinstance(v, VEnum):
                return {"enum": v.ename, "member": model_val(m, v.t)}
            if isinstance(v, VReal):
                return {"real": model_val(m, v.t), "unit": getattr(v, "unit", None)}
            if isinstance(v, VStr) and getattr(run, "opaque_strings", False) and not z3.is_string_value(E.simp(v.t)):
                return "?"
            if isinstance(v, (VInt, VBool, VStr)):
                return model_val(m, v.t)
            if isinstance(v, VTuple):
                items = [pv(x) for x in v.items]
                return {"tuple": items}
            return "?"
        pred = {"exc": exc.exc.cls if exc is not None else None, "arbitrary_exc": bool(exc is not None and exc.exc.arbitrary),
                "result": pv(result) if exc is None else None, "fields": {}}
        for n, v in I.tracked:
            rec = run.rec(v.oid)
            for f_, fv in rec.fields.items():
                x = pv(fv)
                if x != "?":
                    pred["fields"][f"{n}.{f_}"] = x
        fr.xchecks.append({"property": fr.prop, "target": c.target, "kind": "xcheck", "is_init": c.is_init, "model": mj,
                           "types": {k: list(flat_type(v)) for k, v in run.input_types.items()}, "calls": calls_json(run, m),
                           "path": " ; ".join(run.trace)[:600], "predicted": pred})

    def oblige_clause(self, I, ctx, kind, lbl, ex, sframe, extra, fr):
        node = self.parse_clause(ex)
        # cover: antecedent of implication-shaped clauses must be satisfiable on some path
        if isinstance(node, ast.Call) and isinstance(node.func, ast.Name) and node.func.id == "implies" \
                and kind in ("post", "xpost", "always"):
            key = f"{kind}[{lbl}]"
            if not fr.covers.get(key):
                try:
                    I.pure += 1
                    f = E.Frame(sframe.relpath, sframe.ci, dict(sframe.locals), None, "spec")
                    f.locals.update(extra)
                    a = I.truthy(I.eval(node.args[0], f))
                    fr.covers[key] = bool(I.run.feasible(a)) or fr.covers.get(key, False)
                    if os.environ.get("PYVC_DEBUG"):
                        print("cover", key, a, fr.covers[key])
                except (E.PyExc, E.Unsupported) as ex_:
                    if os.environ.get("PYVC_DEBUG"):
                        print("cover", key, "raised", repr(ex_))
                    fr.covers.setdefault(key, False)
                finally:
                    I.pure -= 1
        try:
            t = self.eval_bool(I, ex, sframe, extra)
        except E.PyExc as pe:
            ctx.oblige(I, kind, lbl, z3.BoolVal(False), f"clause raised {pe.exc.cls} ({pe.origin})", text=ex)
            return
        ctx.oblige(I, kind, lbl, t, "", text=ex)
