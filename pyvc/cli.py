"""python3-vt -m pyvc.cli <contract file> [--only substr] [--json out] [-v]"""
from __future__ import annotations
import argparse, json, os, sys, time
sys.path.insert(0, os.path.dirname(os.path.dirname(os.path.abspath(__file__))))
from pyvc import spec as S
from pyvc.source import Repo
from pyvc.verify import Verifier, load_contract_module


def run_file(path, only=None, repo_root=None, verbose=False):
    S.REG.clear()
    funcs, mod = load_contract_module(path)
    repo = Repo(repo_root)
    V = Verifier(repo, S.REG, funcs)
    results = []
    for key in S.REG.order:
        c = S.REG.contracts[key]
        if only and only not in c.target:
            continue
        if c.options.get("assumed"):
            continue
        fr = V.verify(c)
        results.append(fr)
        if verbose:
            print_result(fr)
    for p_ in sorted({l["prop"] for l in S.REG.lemmas}):
        if only and "lemma" not in only:
            continue
        fr = V.verify_lemmas(p_, path)
        results.append(fr)
        if verbose:
            print_result(fr)
    return results, repo


def print_result(fr):
    print(f"== {fr.target}  paths={fr.paths} pruned={fr.pruned} exits={fr.exits} solver={fr.solver_calls}/{fr.solver_time:.2f}s wall={fr.wall:.2f}s")
    if fr.error:
        print("   ERROR", fr.error)
    for u in fr.unsupported[:5]:
        print("   UNSUPPORTED", u)
    if fr.escaped:
        print("   escaped:", fr.escaped)
    for o in fr.obs.values():
        print(f"   {o.status:11s} {o.name}  ({o.discharged}/{o.instances})")
        for f in o.failed[:2]:
            print("       path:", f["path"][:300])
            print("       model:", {k: v for k, v in f["model"].items() if not k.startswith("now")}, f["detail"])
        for u in o.unknown[:1]:
            print("       unknown:", u)


if __name__ == "__main__":
    ap = argparse.ArgumentParser()
    ap.add_argument("file")
    ap.add_argument("--only")
    ap.add_argument("--repo")
    ap.add_argument("-v", action="store_true")
    a = ap.parse_args()
    t0 = time.time()
    res, _ = run_file(a.file, a.only, a.repo, True)
    print(f"total {time.time() - t0:.1f}s")
