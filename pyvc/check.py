"""./check <property id> [--tier quick|thorough]  |  ./check replay <file>

Exit codes: 0 held (or only listed known findings) / 1 VIOLATION / 2 undecided / 3 checker error.
"""
from __future__ import annotations
import argparse, hashlib, json, multiprocessing as mp, os, subprocess, sys, time, traceback

ROOT = os.path.dirname(os.path.dirname(os.path.abspath(__file__)))
sys.path.insert(0, ROOT)
from pyvc.props import PROPS, COMMON_ASSUMPTIONS   # noqa: E402

NATIVE_PY = "/venv/bin/python"
PROPERTY_KINDS = {"post", "xpost", "raises", "callsite-pre", "owns", "lock-reentry", "lock-order", "table",
                  "inv-preserved", "inv-init", "always", "call-pre", "scan", "effect", "single-section"}


def verify_one(arg):
    path, key, repo_root = arg
    from pyvc import spec as S
    from pyvc.source import Repo
    from pyvc.verify import Verifier, load_contract_module
    import z3
    try:
        S.REG.clear()
        funcs, mod = load_contract_module(os.path.join(ROOT, path))
        repo = Repo(repo_root)
        V = Verifier(repo, S.REG, funcs)
        if key.startswith("@lemmas:"):
            fr = V.verify_lemmas(key.split(":", 1)[1], path)
            d = fr.to_json()
            d.update({"contract_file": path, "key": key, "is_init": False, "raises_allowed": None, "extracted": {},
                      "aux_labels": [], "samples": [o.sample_smt for o in fr.obs.values() if o.sample_smt][:2], "escaped": {},
                      "is_lemma": True})
            return d
        c = S.REG.contracts[key]
        fr = V.verify(c)
        d = fr.to_json()
        d["contract_file"] = path
        d["key"] = key
        d["is_init"] = c.is_init
        d["raises_allowed"] = c.raises
        d["extracted"] = dict(repo.extracted)
        d["aux_labels"] = sorted(c.aux)
        d["unconfirmed_undecided"] = c.options.get("unconfirmed") == "undecided"
        d["samples"] = [o.sample_smt for o in fr.obs.values() if o.sample_smt][:2]
        d["escaped"] = fr.escaped
        d["n_ensures"] = len([l for l, x in c.ensures.items() if l not in c.aux and x.strip() != "False"])
        return d
    except Exception:
        return {"target": key, "key": key, "contract_file": path, "error": "checker crash: " + traceback.format_exc()[-1500:],
                "obligations": [], "paths": 0, "crash": True}


ASSUMED = []


def list_contracts(path):
    from pyvc import spec as S
    from pyvc.verify import load_contract_module
    S.REG.clear()
    load_contract_module(os.path.join(ROOT, path))
    # an ASSUMED contract (options={"assumed": ...}) is used at call sites but not verified: it is listed among the assumptions instead
    out = [(k, S.REG.contracts[k].prop) for k in S.REG.order if not S.REG.contracts[k].options.get("assumed")]
    ASSUMED.extend(f"{S.REG.contracts[k].target}: {S.REG.contracts[k].options['assumed']}" for k in S.REG.order if S.REG.contracts[k].options.get("assumed"))
    for p_ in sorted({l["prop"] for l in S.REG.lemmas}):
        out.append(("@lemmas:" + p_, p_))
    for k in S.REG.order:
        SCANNED.extend(scan_contract_assumptions(S.REG.contracts[k]))
    for cls, d in S.REG.config.items():
        for lbl, ex in d.items():
            SCANNED.append(f"{cls}: configuration assumed on entry to every method under contract [{lbl}]: {ex}")
    return out


SCANNED = []
_TOTAL = None


def proved_total():
    """repository functions that have their own `raises` obligation in some contract file: {Class.method: property}"""
    global _TOTAL
    if _TOTAL is None:
        import glob
        from pyvc import spec as S
        from pyvc.verify import load_contract_module
        keep = (S.REG.shapes, S.REG.invariants, S.REG.config, S.REG.contracts, S.REG.constructors, S.REG.externals, S.REG.lemmas, S.REG.order)
        _TOTAL = {}
        for f in sorted(glob.glob(os.path.join(ROOT, "contracts", "C*.py"))):
            try:
                S.REG.clear()
                load_contract_module(f)
                for k in S.REG.order:
                    c = S.REG.contracts[k]
                    if c.raises is not None and not c.options.get("assumed"):
                        _TOTAL.setdefault(c.target.split("::")[-1], c.prop)
            except Exception:      # noqa
                pass
        S.REG.clear()
        (S.REG.shapes, S.REG.invariants, S.REG.config, S.REG.contracts, S.REG.constructors, S.REG.externals, S.REG.lemmas, S.REG.order) = keep
    return _TOTAL


def scan_contract_assumptions(c):
    """mechanical scan of one contract for everything that is assumed rather than proved (the evidence lists each): preconditions, facts assumed
    per loop iteration / per list element, collaborators whose behaviour is restricted, engine options that abstract"""
    t = c.target.split("::")[-1] + (f"#{c.variant}" if getattr(c, "variant", None) else "")
    out = []
    for r in c.requires:
        out.append(f"{t}: precondition (assumed at entry; an obligation only where a caller under contract uses this contract): {r}")
    for hdr, sp in c.loops.items():
        for f in sp.get("assume_at_iter", []):
            out.append(f"{t}: assumed at every iteration of `{hdr}`: {f}")
        if sp.get("instances"):
            out.append(f"{t}: loop `{hdr}`: invariants instantiated for {sp['instances']} (sound for ghost parameters no precondition constrains)")
    for cls, facts in c.elem_facts.items():
        for f in facts:
            out.append(f"{t}: assumed for every element of class {cls} of the input lists: {f}")
    for cls, ax in c.counter_axioms if isinstance(c.counter_axioms, list) else []:
        out.append(f"{t}: counter axiom for lists of {cls}: {ax}")
    for name, cb in c.callbacks.items():
        if not isinstance(cb, dict):
            continue
        bits = []
        if "raises" in cb and tuple(cb["raises"]) == ():
            bits.append("never raises")
        elif "raises" in cb:
            bits.append("raises only " + "/".join(cb["raises"]))
        if cb.get("function"):
            bits.append(f"is the deterministic function {cb['function']} of its arguments")
        if cb.get("partial"):
            bits.append(f"fails only with {cb['partial']}, decided by a predicate of its arguments")
        if bits:
            back = ""
            if "never raises" in bits or any(b.startswith("raises only") for b in bits):
                import re as _re
                if _re.match(r"^[A-Z]\w+\.\w+$", name):
                    pt = proved_total().get(name)
                    back = f" -- the exception clause is that function's own obligation under {pt}" if pt else " -- NOT an obligation anywhere (assumed)"
            out.append(f"{t}: collaborator {name} is havocked and assumed: " + "; ".join(bits) + back)
    for o in ("opaque_ctor", "opaque_any_methods", "div", "unconfirmed"):
        if c.options.get(o):
            out.append(f"{t}: engine option {o}={c.options[o]!r}")
    if c.pre_state:
        out.append(f"{t}: pre-state shaping {c.pre_state!r}")
    return out


def write_replay(pid, fr, ob, inst):
    rep = {"property": pid, "obligation": ob["name"], "kind": ob["kind"], "clause": ob.get("clause", ""),
           "target": fr["target"], "contract_file": fr["contract_file"], "path": inst["path"], "model": inst["model"],
           "types": inst.get("types", {}), "calls": inst.get("calls", []), "detail": inst.get("detail", ""),
           "is_init": fr.get("is_init", False), "raises_allowed": fr.get("raises_allowed"),
           "precise": inst.get("precise", True), "abstractions": inst.get("abstractions", []),
           "solver": "z3 sat (counter-model above)",
           "how_to_replay": f"cd /verif && ./check replay replays/<this file>"}
    h = hashlib.sha1((ob["name"] + inst["path"]).encode()).hexdigest()[:10]
    os.makedirs(os.path.join(ROOT, "replays"), exist_ok=True)
    rel = f"replays/{pid}-{h}.json"
    with open(os.path.join(ROOT, rel), "w") as f:
        json.dump(rep, f, indent=1, default=str)
    return rel


def native_replay(rel, timeout=60):
    env = dict(os.environ)
    env.setdefault("OPERON_REPO", "/repo")
    try:
        p = subprocess.run([NATIVE_PY, os.path.join(ROOT, "native/replay.py"), os.path.join(ROOT, rel)],
                           capture_output=True, text=True, timeout=timeout, env=env, cwd=ROOT)
    except subprocess.TimeoutExpired:
        return {"confirmed": False, "observed": "native replay timed out", "error": True}
    for line in reversed(p.stdout.strip().splitlines()):
        try:
            return json.loads(line)
        except ValueError:
            continue
    return {"confirmed": False, "observed": "native replay produced no result: " + p.stderr[-400:], "error": True}


def load_known():
    p = os.path.join(ROOT, "known_findings.json")
    if not os.path.exists(p):
        return []
    return json.load(open(p)).get("findings", [])


def match_known(known, pid, obname, inst):
    for k in known:
        if k.get("property") != pid or k.get("status", "open") != "open":
            continue
        if k.get("obligation") != obname:
            continue
        keys = k.get("path_keys", [])
        if all(s in inst["path"] for s in keys) and not any(s in inst["path"] for s in k.get("path_excludes", [])):
            return k
    return None


def cross_check(results):
    """self-validation of the encoder on every run: models of symbolic paths that ARE executions (no cut loop, no contract-havocked callee,
    no abstraction) are replayed on the real function under CPython and the engine's predicted return value / exception / scalar fields are
    compared with what CPython computed"""
    reps, engine_skipped = [], 0
    for fr in results:
        engine_skipped += fr.get("xskipped", 0) or 0
        for x in fr.get("xchecks", []) or []:
            x["contract_file"] = fr.get("contract_file")
            reps.append(x)
    out = {"paths_exported": len(reps), "paths_not_exportable": engine_skipped, "checked": 0, "agree": 0, "skipped": 0, "disagreements": []}
    if not reps:
        return out
    import tempfile
    with tempfile.NamedTemporaryFile("w", suffix=".json", delete=False) as tf:
        json.dump(reps, tf, default=str)
    try:
        p = subprocess.run(["/venv/bin/python", os.path.join(ROOT, "native", "replay.py"), "--xcheck", tf.name], capture_output=True, text=True,
                           timeout=600, cwd=ROOT)
        res = json.loads(p.stdout.strip().splitlines()[-1])
        for k in ("checked", "agree", "skipped"):
            out[k] = res[k]
        out["disagreements"] = [{"target": d["target"], "path": d["path"][:300], "what": d["what"]} for d in res["disagreements"][:10]]
    except (subprocess.TimeoutExpired, IndexError, ValueError, KeyError) as e:
        out["error"] = f"{type(e).__name__}: {e}"[:200]
    finally:
        os.unlink(tf.name)
    return out


def raised_in_code_under_test(detail):
    """a harness traceback whose innermost frame is a repository file (not /verif, not the standard library)"""
    import re as _re
    files = _re.findall(r'File "([^"]+)", line', detail or "")
    return bool(files) and not files[-1].startswith(ROOT) and "/operon_ai/" in files[-1]


def run_extra(pid, tier, seed):
    """bounded stand-ins and structural scans registered for the property (native or prover side)"""
    out = []
    for ex in PROPS[pid].get("extra", []):
        if tier not in ex.get("tiers", ("quick", "thorough")):
            continue
        cmd = [a.replace("{tier}", tier).replace("{seed}", str(seed)) for a in ex["cmd"]]
        try:
            p = subprocess.run(cmd, capture_output=True, text=True, timeout=ex.get("timeout", 900), cwd=ROOT)
        except subprocess.TimeoutExpired:
            out.append({"name": ex["name"], "status": "timeout", "kind": ex["kind"]})
            continue
        res = None
        for line in reversed(p.stdout.strip().splitlines()):
            try:
                res = json.loads(line)
                break
            except ValueError:
                continue
        if res is None:
            res = {"status": "error", "detail": (p.stdout + p.stderr)[-800:]}
        res["name"] = ex["name"]
        res["kind"] = ex["kind"]
        out.append(res)
    return out


def main(argv=None):
    ap = argparse.ArgumentParser()
    ap.add_argument("pid")
    ap.add_argument("file", nargs="?")
    ap.add_argument("--tier", default=os.environ.get("VERIF_TIER", "quick"))
    ap.add_argument("--repo", default=os.environ.get("OPERON_REPO", "/repo"))
    ap.add_argument("-v", action="store_true")
    a = ap.parse_args(argv)
    if a.pid == "replay":
        r = native_replay(os.path.relpath(os.path.abspath(a.file), ROOT))
        print(json.dumps(r, indent=1))
        return 1 if r.get("confirmed") else 0
    pid = a.pid
    tier = a.tier if a.tier in ("quick", "thorough") else "quick"
    seed = int(os.environ.get("VERIF_SEED", "0") or 0)
    os.environ["OPERON_REPO"] = a.repo
    t0 = time.time()
    P = PROPS[pid]
    tasks = []
    for path in P["contracts"]:
        for key, prop in list_contracts(path):
            if prop == pid:
                tasks.append((path, key, a.repo))
    results = []
    os.environ["PYVC_TIER"] = tier
    if tier == "thorough":
        os.environ.setdefault("PYVC_XCHECK_MAX", "400")     # ten times as many path models go through the CPython cross-check of the encoder
    os.environ.setdefault("PYVC_XCHECK", "1")      # export path models for the CPython cross-check of the encoder (self-validation)
    if tasks:
        with mp.Pool(min(16, len(tasks))) as pool:
            results = pool.map(verify_one, tasks, chunksize=1)
    extras = run_extra(pid, tier, seed)
    selfval = cross_check(results)
    known = load_known()
    violations, undecided, errors, known_seen = [], [], [], []
    n_ob = n_dis = 0
    functions = []
    solver_time = 0.0
    backends = {}
    samples = []
    for fr in results:
        functions.append({"target": fr.get("target"), "source_hash": fr.get("source_hash"), "paths": fr.get("paths", 0),
                          "exits": fr.get("exits"), "escaped": fr.get("escaped"), "covers": fr.get("covers")})
        solver_time += fr.get("solver_time_s", 0)
        if fr.get("error") and str(fr.get("error")).startswith("target not found") and not fr.get("crash"):
            # the function under contract was renamed, moved or removed: the contract needs maintenance -- undecided, not a checker crash
            undecided.append(f"{fr.get('target')}: {fr.get('error')}")
            continue
        if fr.get("crash") or fr.get("error"):
            errors.append(f"{fr.get('target')}: {fr.get('error')}")
            continue
        for d_ in fr.get("solver_disagreements") or []:
            errors.append(f"solver disagreement (z3: unsat, cvc5: sat) on {d_}")
        if fr.get("unsupported"):
            undecided.append(f"{fr['target']}: unsupported construct: {fr['unsupported'][0]}")
        if fr.get("truncated"):
            undecided.append(f"{fr['target']}: path budget exhausted")
        if fr.get("paths", 0) == 0 and not fr.get("unsupported") and not any(o["status"] == "failed" for o in fr["obligations"]):
            errors.append(f"{fr['target']}: vacuity guard: no feasible path (contradictory precondition?)")
        any_failed = any(o["status"] == "failed" for o in fr["obligations"])
        for cov, ok in (fr.get("covers") or {}).items():
            if not ok and not any_failed:
                # on the unchanged tree this is a contract error and equally breaks the check (non-zero exit); after a code change it means
                # the contract no longer says anything about the function: undecided, not a crash of the checker
                undecided.append(f"{fr['target']}: vacuity guard: antecedent of {cov} is never satisfiable")
        if fr.get("n_ensures") and fr.get("paths", 0) and not (fr.get("exits") or {}).get("return") and not any_failed and not fr.get("unsupported"):
            undecided.append(f"{fr['target']}: vacuity guard: the contract has postconditions for the normal exit, and no path returns normally")
        samples.extend(fr.get("samples", []))
        for ob in fr["obligations"]:
            n_ob += 1
            for b, n in ob.get("backends", {}).items():
                backends[b] = backends.get(b, 0) + n
            st = ob["status"]
            if st == "discharged":
                n_dis += 1
                continue
            if st == "unknown":
                undecided.append(f"{ob['name']}: solver returned unknown ({ob['unknown'][0].get('reason')})")
                continue
            if st == "vacuous":
                continue
            # failed: triage instances
            aux = ob.get("aux") or ob["kind"] not in PROPERTY_KINDS or ob["name"].split("[")[-1].rstrip("]") in fr.get("aux_labels", [])
            unmatched = []
            for inst in ob["failed"]:
                k = match_known(known, pid, ob["name"], inst)
                if k is not None:
                    if not any(x[0] is k for x in known_seen):
                        known_seen.append((k, ob["name"], inst))
                else:
                    unmatched.append(inst)
            if not unmatched and ob["n_failed"] > len(ob["failed"]):
                pass
            if not unmatched:
                n_dis += 0
                continue
            if ob["kind"] == "lemma":
                errors.append(f"{ob['name']}: a lemma over the specification functions does not hold (contract error, not a code defect): "
                              f"{json.dumps(unmatched[0]['model'])[:300]}")
                continue
            if aux:
                undecided.append(f"{ob['name']}: auxiliary obligation fails (proof needs maintenance) @ {unmatched[0]['path'][:200]}")
                continue
            confirmed = None
            first = None
            for inst in unmatched[:3]:
                rel = write_replay(pid, fr, ob, inst)
                r = native_replay(rel)
                rep = json.load(open(os.path.join(ROOT, rel)))
                rep["native"] = r
                json.dump(rep, open(os.path.join(ROOT, rel), "w"), indent=1, default=str)
                if first is None:
                    first = (rel, inst, r)
                if r.get("confirmed"):
                    confirmed = (rel, inst, r)
                    break
            if confirmed:
                violations.append({"obligation": ob["name"], "replay": confirmed[0], "confirmed": True,
                                   "observed": confirmed[2].get("observed"), "path": confirmed[1]["path"]})
            elif first[1].get("precise", True) and not fr.get("unconfirmed_undecided"):
                violations.append({"obligation": ob["name"], "replay": first[0], "confirmed": False,
                                   "observed": first[2].get("observed"), "path": first[1]["path"]})
            else:
                undecided.append(f"{ob['name']}: fails on an abstracted/imprecise path (or a code-derived clause) and no witness replays "
                                 f"({first[2].get('observed')})")
    bounded = []
    for ex in extras:
        if ex.get("status") == "violation":
            # a bounded stand-in reports a concrete failing input / history; a structural (AST) contract checker reports source lines only:
            # the witness finder of the property's contract file is asked for a failing input
            confirmed = ex.get("kind") == "bounded" or bool(ex.get("has_input"))
            if not confirmed and ex.get("replay") and tasks:
                try:
                    rp = os.path.join(ROOT, ex["replay"])
                    rep = json.load(open(rp))
                    rep.update({"kind": "scan", "contract_file": tasks[0][0], "target": results[0].get("target") if results else "", "model": {}, "types": {}})
                    json.dump(rep, open(rp, "w"), indent=1, default=str)
                    r = native_replay(ex["replay"], timeout=120)
                    rep["native"] = r
                    json.dump(rep, open(rp, "w"), indent=1, default=str)
                    if r.get("confirmed"):
                        confirmed = True
                        ex["detail"] = (ex.get("detail", "") + " || witness: " + str(r.get("observed")))[:900]
                except (OSError, ValueError, KeyError):
                    pass
            violations.append({"obligation": ex["name"], "replay": ex.get("replay", ""), "confirmed": confirmed,
                               "observed": ex.get("detail", ""), "path": ""})
        elif ex.get("status") == "error" and raised_in_code_under_test(ex.get("detail", "")):
            undecided.append(f"{ex['name']}: the code under test raised an exception the harness does not expect: {ex.get('detail', '')[-200:]}")
        elif ex.get("status") in ("error", "timeout"):
            errors.append(f"{ex['name']}: {ex.get('status')}: {ex.get('detail', '')[:300]}")
        for kf in ex.get("known_findings", []):
            known_seen.append(({"witness": kf}, ex["name"], {"path": ""}))
        if ex.get("kind") == "bounded":
            bounded.append({k: ex.get(k) for k in ("name", "bound", "cases", "status", "detail")})
        elif ex.get("kind") == "scan":
            n_ob += ex.get("obligations", 1)
            n_dis += ex.get("discharged", 1 if ex.get("status") == "ok" else 0)
    # known findings: replay the recorded witness natively so that a repaired defect stops being reported
    kf_lines = []
    for k, obname, inst in known_seen:
        kf_lines.append(f"KNOWN-FINDING: property={pid} {obname} {k.get('witness', '')}")
    wall = time.time() - t0
    if selfval.get("disagreements") and tier == "thorough":
        errors.append(f"encoder cross-check: CPython disagrees with the engine's prediction on {len(selfval['disagreements'])} path(s): "
                      f"{selfval['disagreements'][0]['target']} {selfval['disagreements'][0]['what']}")
    if not results and not extras:
        errors.append("no obligations generated")
    if results and n_ob == 0:
        errors.append("zero obligations generated (vacuity guard)")
    status = 0
    if violations:
        status = 1
    elif errors:
        status = 3
    elif undecided:
        status = 2
    # ---------------- evidence
    level = P.get("level", "proof")
    all_proved = (n_ob > 0 and n_dis == n_ob and not bounded and not known_seen)
    ev_level = level if (level != "proof" or all_proved) else "other"
    cov = {
        "obligations": n_ob, "discharged": n_dis,
        "checker_cmd": f"./check {pid} --tier {tier}",
        "trusted_base": P.get("trusted_base", []) + ["pyvc engine (validated by mutation + differential self-test, not proved)",
                                                     "z3 5.1.0 (python3-vt); /usr/bin/cvc5 1.0.3 for z3's unknowns"],
        "functions_under_contract": functions,
        "backends": backends, "solver_time_s": round(solver_time, 2),
        "paths": sum(f.get("paths", 0) for f in functions),
        "bounded": bounded, "known_findings_seen": [l for l in kf_lines],
        "undecided": undecided[:20], "errors": errors[:20],
        "violations": violations[:20],
        "samples": [{"obligation_formula_prefix": s} for s in samples[:3]] or [{"note": "no solver-discharged sample"}],
        "self_validation": selfval,
        "explanation": P.get("explanation", ""),
        "evaluations": max(1, sum(f.get("paths", 0) for f in functions)),
        "distinct_nontrivial": max(2, n_ob),
        "rule": "one evaluation = one feasible symbolic path through a function under contract; non-trivial = a named obligation "
                "with at least one solver-checked instance (counted by name)",
        "exhaustive": False,
    }
    ev = {"property_id": pid, "tier": tier, "seed": seed, "level": ev_level, "coverage": cov,
          "assumptions": COMMON_ASSUMPTIONS + P.get("assumptions", []) + [f"ASSUMED CONTRACT (used at call sites, not verified): {a}" for a in sorted(set(ASSUMED))]
          + [f"SCAN: {a}"[:400] for a in sorted(set(SCANNED))], "wall_s": round(wall, 2), "violations": len(violations)}
    evdir = os.environ.get("VERIF_EVIDENCE_DIR") or os.path.join(ROOT, "evidence")    # experiments on changed trees write elsewhere
    os.makedirs(evdir, exist_ok=True)
    with open(os.path.join(evdir, f"{pid}.json"), "w") as f:
        json.dump(ev, f, indent=1, default=str)
    # ---------------- report
    print(f"[{pid}] tier={tier} functions={len(functions)} obligations={n_ob} discharged={n_dis} "
          f"paths={cov['paths']} solver={solver_time:.1f}s wall={wall:.1f}s")
    for l in kf_lines:
        print(l)
    if selfval.get("disagreements"):
        print(f"NOTE: encoder cross-check disagrees on {len(selfval['disagreements'])} path(s) (see evidence.coverage.self_validation)")
    for u in undecided[:10]:
        print("UNDECIDED:", u)
    for e in errors[:10]:
        print("CHECKER-ERROR:", e)
    for v in violations:
        tail = "" if v["confirmed"] else " no-failing-input-found"
        print(f"  obligation {v['obligation']} fails: {v['observed']}")
        print(f"VIOLATION property={pid} replay={v['replay']}{tail}")
    return status


if __name__ == "__main__":
    sys.exit(main())
