"""Effect / provenance checker for the safe evaluator (C01, C02 structural clauses).

An *effect contract* says which callables a function may invoke and what it may do with evaluated user values.
This module type-checks the REAL AST of the walker against that contract with a small provenance lattice:

  NODE      an AST node (the parameter, a field of a NODE, a loop variable over a NODELIST / zip of NODELISTs)
  NODELIST  a list-valued field of a NODE (args, keywords, elts, values, ops, comparators)
  STR       an identifier string taken from a node (node.id, node.func.id, kw.arg) or type(x).__name__
  TYPE      type(NODE)
  PYVAL     an evaluated user value (result of the walker, Constant.value, result of a table callable)
  PYVALS    a list/tuple/dict of PYVALs built by the walker
  TABLEFN   a value looked up in one of the four constant tables (guarded by `is None` / `in` / callable())
  BOOL, NONE, TABLE, SELF, OTHER

Every rule violation is a named obligation failure with the source line as witness.
"""
from __future__ import annotations
import ast

NODE, NODELIST, STR, TYPE, PYVAL, PYVALS, TABLEFN, BOOL, NONE_, TABLE, SELF, OTHER, KW, KWLIST, PAIRS = (
    "NODE", "NODELIST", "STR", "TYPE", "PYVAL", "PYVALS", "TABLEFN", "BOOL", "NONE", "TABLE", "SELF", "OTHER", "KW", "KWLIST", "PAIRS")
LIST_FIELDS = {"args", "elts", "values", "ops", "comparators"}
TABLES = {"SAFE_OPERATORS", "SAFE_COMPARISONS", "SAFE_BOOL_OPS", "SAFE_FUNCTIONS"}
FORBIDDEN_NODE_CLASSES = {"Attribute", "Subscript", "Slice", "Lambda", "ListComp", "SetComp", "DictComp", "GeneratorExp", "JoinedStr", "FormattedValue",
                          "NamedExpr", "Await", "Yield", "YieldFrom", "Starred"}
ALLOWED_NODE_CLASSES = {"Constant", "BinOp", "UnaryOp", "Call", "Name", "List", "Tuple", "Compare", "BoolOp", "IfExp"}
WALKER_PRIMS = {"isinstance", "type", "zip", "callable", "tuple", "list", "len", "bool", "enumerate"}


class EffectChecker:
    def __init__(self, fnode: ast.FunctionDef, walker="_compute_node", extra_prims=()):
        self.fn = fnode
        self.walker = walker
        self.prims = set(WALKER_PRIMS) | set(extra_prims)
        self.viol: dict[str, list[str]] = {}
        self.checked = {"calls": 0, "pyvalue_uses": 0, "branches": 0}
        self.classes_returning: set[str] = set()
        self.env: dict[str, str] = {}

    def bad(self, ob, node, msg):
        self.viol.setdefault(ob, []).append(f"line {getattr(node, 'lineno', '?')}: {msg}: {ast.unparse(node)[:90]}")

    # ---------------------------------------------------------------- expression kinds
    def kind(self, e) -> str:
        if isinstance(e, ast.Constant):
            return NONE_ if e.value is None else (BOOL if isinstance(e.value, bool) else (STR if isinstance(e.value, str) else OTHER))
        if isinstance(e, ast.Name):
            if e.id == "self":
                return SELF
            return self.env.get(e.id, OTHER)
        if isinstance(e, ast.Attribute):
            base = self.kind(e.value)
            if base == SELF:
                return TABLE if e.attr in TABLES else (OTHER if e.attr != "tools" else "TOOLS")
            if base == NODE:
                if e.attr in LIST_FIELDS:
                    return NODELIST
                if e.attr == "keywords":
                    return KWLIST
                if e.attr in ("id", "attr"):
                    return STR
                if e.attr == "value":
                    return PYVAL        # Constant.value: literal data
                return NODE
            if base == KW:
                return STR if e.attr == "arg" else NODE
            if base == TYPE and e.attr == "__name__":
                return STR
            if base in (PYVAL, PYVALS):
                self.checked["pyvalue_uses"] += 1
                self.bad("effect[pyvalue-use]", e, "attribute access on an evaluated value")
                return PYVAL
            if isinstance(e.value, ast.Name) and e.value.id == "ast":
                return "ASTCLASS"
            return OTHER
        if isinstance(e, ast.Subscript):
            base = self.kind(e.value)
            if base == TABLE:
                self.kind(e.slice)
                return TABLEFN
            if base == "TOOLS":
                return "TOOL"
            if base in (PYVAL, PYVALS):
                self.checked["pyvalue_uses"] += 1
                self.bad("effect[pyvalue-use]", e, "subscript of an evaluated value")
                return PYVAL
            if base in (NODELIST, KWLIST):
                return NODE
            return OTHER
        if isinstance(e, ast.Call):
            return self.call_kind(e)
        if isinstance(e, ast.UnaryOp):
            k = self.kind(e.operand)
            if isinstance(e.op, ast.Not):
                if k in (PYVAL, PYVALS):
                    self.checked["pyvalue_uses"] += 1
                return PYVAL if k in (PYVAL, PYVALS) else BOOL      # `not value` is a value of the expression language
            if k in (PYVAL, PYVALS):
                self.bad("effect[pyvalue-use]", e, "arithmetic on an evaluated value outside the operator table")
            return k
        if isinstance(e, ast.BoolOp):
            ks = [self.kind(v) for v in e.values]
            return PYVAL if PYVAL in ks else BOOL
        if isinstance(e, ast.Compare):
            ks = [self.kind(e.left)] + [self.kind(c) for c in e.comparators]
            for k, c in zip(ks, [e.left] + e.comparators):
                if k in (PYVAL, PYVALS) and not all(isinstance(o, (ast.Is, ast.IsNot)) for o in e.ops):
                    self.bad("effect[pyvalue-use]", e, "comparison of an evaluated value outside the comparison table")
            return BOOL
        if isinstance(e, (ast.ListComp, ast.GeneratorExp, ast.SetComp)):
            return self.comp_kind(e, e.elt)
        if isinstance(e, ast.DictComp):
            saved = dict(self.env)
            self.bind_generators(e.generators)
            kk, vk = self.kind(e.key), self.kind(e.value)
            self.env = saved
            if vk in (PYVAL, PYVALS) and kk in (STR,):
                return PYVALS
            return OTHER
        if isinstance(e, (ast.List, ast.Tuple)):
            ks = [self.kind(x) for x in e.elts]
            return PYVALS if any(k in (PYVAL, PYVALS) for k in ks) else OTHER
        if isinstance(e, ast.JoinedStr):
            for v in e.values:
                if isinstance(v, ast.FormattedValue) and self.kind(v.value) in (PYVAL, PYVALS):
                    self.checked["pyvalue_uses"] += 1
                    self.bad("effect[pyvalue-use]", v, "formatting of an evaluated value")
            return STR
        if isinstance(e, ast.IfExp):
            self.kind(e.test)
            a, b = self.kind(e.body), self.kind(e.orelse)
            return a if a == b else (PYVAL if PYVAL in (a, b) else OTHER)
        if isinstance(e, ast.BinOp):
            a, b = self.kind(e.left), self.kind(e.right)
            if a in (PYVAL, PYVALS) or b in (PYVAL, PYVALS):
                self.checked["pyvalue_uses"] += 1
                self.bad("effect[pyvalue-use]", e, "arithmetic on an evaluated value outside the operator table")
                return PYVAL
            return OTHER
        if isinstance(e, ast.Starred):
            return self.kind(e.value)
        if isinstance(e, ast.Lambda):
            return OTHER
        return OTHER

    def bind_generators(self, gens):
        for g in gens:
            ik = self.kind(g.iter)
            if ik == NODELIST:
                self.bind(g.target, NODE)
            elif ik == KWLIST:
                self.bind(g.target, KW)
            elif ik == PAIRS:
                self.bind(g.target, NODE)
            elif ik in (PYVAL, PYVALS):
                self.checked["pyvalue_uses"] += 1
                self.bad("effect[pyvalue-use]", g.iter, "iteration over an evaluated value")
                self.bind(g.target, PYVAL)
            else:
                self.bind(g.target, OTHER)
            for c in g.ifs:
                self.kind(c)

    def comp_kind(self, e, elt):
        saved = dict(self.env)
        self.bind_generators(e.generators)
        k = self.kind(elt)
        self.env = saved
        return PYVALS if k in (PYVAL, PYVALS) else (NODELIST if k == NODE else OTHER)

    def bind(self, target, k):
        if isinstance(target, ast.Name):
            self.env[target.id] = k
        elif isinstance(target, (ast.Tuple, ast.List)):
            for t in target.elts:
                self.bind(t, k)

    def call_kind(self, c: ast.Call) -> str:
        self.checked["calls"] += 1
        f = c.func
        argk = [self.kind(a) for a in c.args]
        kwk = [self.kind(k.value) for k in c.keywords]
        # recursive walker call: only on AST nodes
        if isinstance(f, ast.Attribute) and self.kind(f.value) == SELF and f.attr == self.walker:
            if len(c.args) != 1 or argk[0] != NODE:
                self.bad("effect[calls-allowlisted]", c, "walker applied to something that is not a field of the node")
            return PYVAL
        # table lookups
        if isinstance(f, ast.Attribute) and self.kind(f.value) == TABLE and f.attr == "get":
            return TABLEFN
        if isinstance(f, ast.Name):
            if f.id in self.prims:
                if f.id in ("tuple", "list"):
                    return argk[0] if argk and argk[0] in (PYVALS, NODELIST) else OTHER
                if f.id == "bool":
                    return PYVAL if argk and argk[0] in (PYVAL, PYVALS) else BOOL
                if f.id == "type":
                    return TYPE
                if f.id == "zip":
                    if not all(k == NODELIST for k in argk):
                        self.bad("effect[calls-allowlisted]", c, "zip over something that is not a node field")
                    return PAIRS
                if f.id in ("isinstance", "callable"):
                    return BOOL
                return OTHER
            k = self.env.get(f.id)
            if k == TABLEFN:
                # a table callable applied to evaluated values only
                for a, ak in zip(c.args, argk):
                    if ak not in (PYVAL, PYVALS):
                        self.bad("effect[calls-allowlisted]", c, "table callable applied to a non-value")
                return PYVAL
            if f.id in ("ValueError", "TypeError", "PermissionError", "ZeroDivisionError"):
                return OTHER
            self.bad("effect[calls-allowlisted]", c, f"call of {f.id!r}, which is neither a walker primitive nor a table callable")
            return OTHER
        if isinstance(f, ast.Attribute):
            bk = self.kind(f.value)
            if bk == "TOOL" and f.attr == "execute":
                return PYVAL
            if bk in (PYVAL, PYVALS):
                self.checked["pyvalue_uses"] += 1
                self.bad("effect[pyvalue-use]", c, "method call on an evaluated value")
                return PYVAL
            if bk == OTHER and isinstance(f.value, ast.Name) and self.env.get(f.value.id) in ("PYLIST",):
                return OTHER
            if isinstance(f.value, ast.Name) and f.value.id in getattr(self, "local_lists", ()) and f.attr in ("append", "extend", "insert") and not c.keywords:
                # a list the function itself created (display / list()), filled element by element: the explicit-loop form of a comprehension.
                # The list takes the kind of what is put into it; nothing is called on the elements.
                if any(k_ in (PYVAL, PYVALS) for k_ in argk):
                    self.env[f.value.id] = PYVALS
                elif any(k_ == NODE for k_ in argk) and self.env.get(f.value.id) != PYVALS:
                    self.env[f.value.id] = NODELIST
                return OTHER
            if isinstance(f.value, ast.Name) and f.value.id in ("ast", "json") and f.attr in ("parse", "literal_eval", "loads"):
                return NODE if f.attr == "parse" else PYVAL
            if bk == STR and f.attr in ("strip", "lower", "replace", "startswith"):
                return STR
            self.bad("effect[calls-allowlisted]", c, "method call outside the effect contract")
            return OTHER
        self.bad("effect[calls-allowlisted]", c, "call of a computed callee")
        return OTHER

    # ---------------------------------------------------------------- statements
    def run(self):
        a = self.fn.args.args
        for p in a[1:]:
            self.env[p.arg] = NODE if p.arg == "node" else STR
        self.block(self.fn.body)
        last = self.fn.body[-1]
        if not (isinstance(last, ast.Raise) and isinstance(last.exc, ast.Call) and getattr(last.exc.func, "id", "") == "ValueError"):
            self.bad("post[default-raises]", last, "the walker does not end with `raise ValueError` for unsupported node classes")
        # what the statement forbids by name (attribute access, subscripting, lambda / comprehension / f-string evaluation, anything that binds or
        # awaits); a node class that is merely not listed (the Expression wrapper, a dict display) is confined by the call/value-use clauses above
        extra = self.classes_returning & FORBIDDEN_NODE_CLASSES
        if extra:
            self.viol.setdefault("post[node-classes]", []).append(
                f"node classes on which the walker can return normally but the statement forbids: {sorted(extra)}")
        return self.viol

    def block(self, stmts):
        for st in stmts:
            self.stmt(st)

    def always_raises(self, stmts):
        return bool(stmts) and isinstance(stmts[-1], ast.Raise)

    def stmt(self, st):
        if isinstance(st, ast.If):
            self.kind(st.test)
            # isinstance(node, ast.X) dispatch: record classes whose branch can return normally
            t = st.test
            if isinstance(t, ast.Call) and isinstance(t.func, ast.Name) and t.func.id == "isinstance" and len(t.args) == 2 \
                    and self.kind(t.args[0]) == NODE and isinstance(t.args[0], ast.Name) and t.args[0].id == "node":
                self.checked["branches"] += 1
                names = [ast.unparse(x).split(".")[-1] for x in (t.args[1].elts if isinstance(t.args[1], ast.Tuple) else [t.args[1]])]
                if not self.always_raises(st.body):
                    self.classes_returning.update(names)
            saved = dict(self.env)
            self.block(st.body)
            env1 = self.env
            self.env = dict(saved)
            self.block(st.orelse)
            for k, v in env1.items():
                self.env.setdefault(k, v)
        elif isinstance(st, ast.Assign):
            k = self.kind(st.value)
            for t in st.targets:
                self.bind(t, k)
                if isinstance(t, ast.Name):
                    if not hasattr(self, "local_lists"):
                        self.local_lists = set()
                    fresh_list = isinstance(st.value, ast.List) or (isinstance(st.value, ast.Call) and isinstance(st.value.func, ast.Name)
                                                                      and st.value.func.id == "list" and not st.value.args)
                    (self.local_lists.add if fresh_list else self.local_lists.discard)(t.id)
        elif isinstance(st, ast.AugAssign):
            self.kind(st.value)
        elif isinstance(st, ast.Return):
            if st.value is not None:
                rk = self.kind(st.value)
                if rk in (NODE, NODELIST, KW, KWLIST, PAIRS):
                    # the walker hands back evaluated values, never pieces of the syntax tree it was given
                    self.bad("effect[returns-values]", st, "the walker returns (part of) the syntax tree instead of an evaluated value")
        elif isinstance(st, ast.Raise):
            if st.exc is not None:
                self.kind(st.exc)
        elif isinstance(st, ast.For):
            ik = self.kind(st.iter)
            self.bind(st.target, NODE if ik in (NODELIST, PAIRS) else (KW if ik == KWLIST else (PYVAL if ik in (PYVAL, PYVALS) else OTHER)))
            if ik in (PYVAL, PYVALS):
                self.bad("effect[pyvalue-use]", st.iter, "iteration over an evaluated value")
            self.block(st.body)
            self.block(st.orelse)
        elif isinstance(st, ast.Expr):
            if not isinstance(st.value, ast.Constant):
                self.kind(st.value)
        elif isinstance(st, ast.Try):
            self.block(st.body)
            for h in st.handlers:
                self.block(h.body)
            self.block(st.orelse)
            self.block(st.finalbody)
        elif isinstance(st, (ast.Pass, ast.Import, ast.ImportFrom)):
            pass
        elif isinstance(st, ast.While):
            self.kind(st.test)
            self.block(st.body)
        else:
            self.bad("effect[calls-allowlisted]", st, f"statement kind {type(st).__name__} outside the effect contract")
