"""Typed symbolic values, type specs and heap records of the pyvc symbolic executor."""
from __future__ import annotations
import ast
import z3

# ------------------------------------------------------------------ type specs
# A type is a tuple: ('int',) ('real',) ('bool',) ('str',) ('none',) ('any',) ('datetime',) ('timedelta',)
# ('enum', Name) ('obj', Class) ('opt', T) ('list', T) ('set', T) ('dict', K, V) ('tuple', T1, ...)
# ('callback', name) ('lock', kind) ('union', T1, T2, ...)

ATOMS = {"int", "real", "bool", "str", "none", "any", "datetime", "timedelta", "callback", "lock", "rlock",
         "float", "bytes", "astnode", "pyvalue", "type"}


def parse_type(s):
    if isinstance(s, tuple):
        return s
    s = s.strip()
    if s.startswith("opt:"):
        return ("opt", parse_type(s[4:]))
    if s.startswith("list:"):
        return ("list", parse_type(s[5:]))
    if s.startswith("set:"):
        return ("set", parse_type(s[4:]))
    if s.startswith("dict:"):
        k, v = s[5:].split(",", 1)
        return ("dict", parse_type(k), parse_type(v))
    if s.startswith("tuple:"):
        return ("tuple",) + tuple(parse_type(x) for x in s[6:].split(";") if x)
    if s.startswith("union:"):
        return ("union",) + tuple(parse_type(x) for x in s[6:].split("|"))
    if s.startswith("enum:"):
        return ("enum", s[5:])
    if s.startswith("obj:"):
        return ("obj", s[4:])
    if s.startswith("callback"):
        return ("callback", s[9:] if s.startswith("callback:") else "")
    if s == "float":
        return ("real",)
    if s == "lock":
        return ("lock", "Lock")
    if s == "rlock":
        return ("lock", "RLock")
    if s in ATOMS:
        return (s,)
    raise ValueError(f"bad type spec {s!r}")


def type_from_annotation(node, resolver):
    """ast annotation -> type tuple. `resolver(name)` -> 'enum' | 'obj' | None for repo classes."""
    if node is None:
        return ("any",)
    if isinstance(node, ast.Constant):
        if node.value is None:
            return ("none",)
        if isinstance(node.value, str):
            try:
                return type_from_annotation(ast.parse(node.value, mode="eval").body, resolver)
            except SyntaxError:
                return ("any",)
    if isinstance(node, ast.Name):
        n = node.id
        if n == "int":
            return ("int",)
        if n == "float":
            return ("real",)
        if n == "bool":
            return ("bool",)
        if n == "str":
            return ("str",)
        if n == "datetime":
            return ("datetime",)
        if n == "timedelta":
            return ("timedelta",)
        if n in ("Any", "object"):
            return ("any",)
        if n == "Callable":
            return ("callback", "")
        if n in ("list", "List"):
            return ("list", ("any",))
        if n in ("dict", "Dict"):
            return ("dict", ("any",), ("any",))
        if n in ("set", "Set"):
            return ("set", ("any",))
        k = resolver(n)
        if k == "enum":
            return ("enum", n)
        if k == "obj":
            return ("obj", n)
        return ("any",)
    if isinstance(node, ast.Attribute):
        s = ast.unparse(node)
        if s.endswith("Lock"):
            return ("lock", "RLock" if "RLock" in s else "Lock")
        if s.endswith("datetime"):
            return ("datetime",)
        return type_from_annotation(ast.Name(id=node.attr), resolver)
    if isinstance(node, ast.BinOp) and isinstance(node.op, ast.BitOr):
        l = type_from_annotation(node.left, resolver)
        r = type_from_annotation(node.right, resolver)
        if r == ("none",):
            return ("opt", l)
        if l == ("none",):
            return ("opt", r)
        return ("union", l, r)
    if isinstance(node, ast.Subscript):
        base = ast.unparse(node.value).split(".")[-1]
        sl = node.slice
        args = list(sl.elts) if isinstance(sl, ast.Tuple) else [sl]
        if base in ("list", "List", "Sequence", "Iterable", "deque"):
            return ("list", type_from_annotation(args[0], resolver))
        if base in ("set", "Set", "frozenset"):
            return ("set", type_from_annotation(args[0], resolver))
        if base in ("dict", "Dict", "Mapping"):
            return ("dict", type_from_annotation(args[0], resolver), type_from_annotation(args[1], resolver))
        if base == "Optional":
            return ("opt", type_from_annotation(args[0], resolver))
        if base == "Callable":
            return ("callback", "")
        if base in ("tuple", "Tuple"):
            return ("tuple",) + tuple(type_from_annotation(a, resolver) for a in args)
        if base == "type" or base == "Type":
            return ("type",)
        return ("any",)
    return ("any",)


# ------------------------------------------------------------------ sorts
AnySort = z3.DeclareSort("Any")
_enum_sorts: dict[str, tuple] = {}


def enum_sort(name: str, members: list[str]):
    key = name
    if key not in _enum_sorts or _enum_sorts[key][2] != tuple(members):
        # sort names must be unique per member list (a mutated tree may change the members)
        sname = name if key not in _enum_sorts else f"{name}_{len(_enum_sorts)}"
        s, consts = z3.EnumSort(sname, list(members))
        _enum_sorts[key] = (s, dict(zip(members, consts)), tuple(members))
    return _enum_sorts[key][0], _enum_sorts[key][1]


# ------------------------------------------------------------------ values
class SV:
    pass


class VInt(SV):
    __slots__ = ("t",)

    def __init__(self, t):
        self.t = z3.IntVal(t) if isinstance(t, int) else t

    def __repr__(self):
        return f"Int({self.t})"


class VReal(SV):
    __slots__ = ("t", "unit")

    def __init__(self, t, unit=None):
        self.t = z3.RealVal(t) if isinstance(t, (int, float, str)) else t
        self.unit = unit

    def __repr__(self):
        return f"Real({self.t})"


class VBool(SV):
    __slots__ = ("t",)

    def __init__(self, t):
        self.t = z3.BoolVal(t) if isinstance(t, bool) else t

    def __repr__(self):
        return f"Bool({self.t})"


class VStr(SV):
    __slots__ = ("t", "tags")

    def __init__(self, t, tags=()):
        self.t = z3.StringVal(t) if isinstance(t, str) else t
        self.tags = tags

    def __repr__(self):
        return f"Str({self.t})"


class VNone(SV):
    def __repr__(self):
        return "None"


NONE = VNone()


class VOpt(SV):
    """a lazily resolved Optional input: `isnone` is a Bool term; the inner value is only materialised (and the path only forks) when the
    value is USED rather than merely tested against None / truth-tested"""
    __slots__ = ("isnone", "thunk", "inner", "forced", "name", "ty")

    def __init__(self, isnone, thunk, name, ty):
        self.isnone = isnone
        self.thunk = thunk
        self.inner = None
        self.forced = None
        self.name = name
        self.ty = ty

    def get(self):
        if self.inner is None:
            self.inner = self.thunk()
        return self.inner

    def __repr__(self):
        return f"Opt({self.name})"


class VEnum(SV):
    __slots__ = ("ename", "t")

    def __init__(self, ename, t):
        self.ename = ename
        self.t = t

    def __repr__(self):
        return f"Enum[{self.ename}]({self.t})"


class VRef(SV):
    """reference to a heap record (object / list / dict / set / lock)"""
    __slots__ = ("oid", "kind", "cls", "from_list")

    def __init__(self, oid, kind, cls=None):
        self.oid = oid
        self.kind = kind
        self.cls = cls
        self.from_list = None       # symbolic list this reference was taken from (min/max with a key): list.remove(x) then cannot fail

    def __repr__(self):
        return f"Ref({self.kind}:{self.cls}#{self.oid})"


class VTuple(SV):
    __slots__ = ("items",)

    def __init__(self, items):
        self.items = tuple(items)

    def __repr__(self):
        return f"Tuple{self.items}"


class VAny(SV):
    """opaque value of unknown Python type: only equality, truthiness (uninterpreted) and passing around"""
    __slots__ = ("t", "tag")

    def __init__(self, t, tag=None):
        self.t = t
        self.tag = tag

    def __repr__(self):
        return f"Any({self.t})"


class VCallback(SV):
    __slots__ = ("name", "spec", "ident")

    def __init__(self, name, spec=None, ident=None):
        self.name = name
        self.spec = spec or {}
        self.ident = ident

    def __repr__(self):
        return f"Callback({self.name})"


class VClass(SV):
    __slots__ = ("name", "info")

    def __init__(self, name, info=None):
        self.name = name
        self.info = info

    def __repr__(self):
        return f"Class({self.name})"


class VFunc(SV):
    __slots__ = ("node", "frame", "ci", "relpath", "name")

    def __init__(self, node, frame=None, ci=None, relpath=None, name=None):
        self.node = node
        self.frame = frame
        self.ci = ci
        self.relpath = relpath
        self.name = name or getattr(node, "name", "<lambda>")

    def __repr__(self):
        return f"Func({self.name})"


class VBound(SV):
    __slots__ = ("recv", "name")

    def __init__(self, recv, name):
        self.recv = recv
        self.name = name

    def __repr__(self):
        return f"Bound({self.recv}.{self.name})"


class VSuper(SV):
    """`super()` inside a method: attribute lookups start at the bases of the defining class, bound to the same object"""
    __slots__ = ("recv", "ci")

    def __init__(self, recv, ci):
        self.recv = recv
        self.ci = ci


class VPartial(SV):
    """a function with its first argument already supplied (super().method)"""
    __slots__ = ("fn", "first")

    def __init__(self, fn, first):
        self.fn = fn
        self.first = first


class VBuiltin(SV):
    __slots__ = ("name",)

    def __init__(self, name):
        self.name = name

    def __repr__(self):
        return f"Builtin({self.name})"


class VModule(SV):
    __slots__ = ("name",)

    def __init__(self, name):
        self.name = name

    def __repr__(self):
        return f"Module({self.name})"


class VGen(SV):
    """an unevaluated comprehension over a symbolic list (consumed by sum/any/all/len)"""
    __slots__ = ("node", "frame", "src")

    def __init__(self, node, frame, src):
        self.node = node
        self.frame = frame
        self.src = src


class VExcClass(SV):
    __slots__ = ("name",)

    def __init__(self, name):
        self.name = name


class VExc(SV):
    """an exception instance"""
    __slots__ = ("cls", "msg", "arbitrary", "fields")

    def __init__(self, cls, msg=None, arbitrary=False):
        self.cls = cls
        self.msg = msg
        self.arbitrary = arbitrary
        self.fields = {}

    def __repr__(self):
        return f"Exc({self.cls})"


# ------------------------------------------------------------------ heap records
class ObjRec:
    __slots__ = ("cls", "fields", "sym", "frozen")

    def __init__(self, cls, fields=None, sym=None):
        self.cls = cls
        self.fields = fields if fields is not None else {}
        self.sym = sym          # symbolic name prefix for lazily materialised fields (None: fully constructed)
        self.frozen = False

    def copy(self):
        r = ObjRec(self.cls, dict(self.fields), self.sym)
        r.frozen = self.frozen
        return r


class ListRec:
    """concrete prefix-free list: python list of SVs; or symbolic: length term + element array/opaque"""
    __slots__ = ("items", "length", "elem", "arr", "sym", "farr", "cnt", "shift", "sums", "preds", "origin", "parts", "appended", "mem", "memfn")

    def __init__(self, items=None, length=None, elem=("any",), arr=None, sym=None):
        self.items = items          # list[SV] when concrete, else None
        self.length = length        # z3 Int when symbolic
        self.elem = elem
        self.arr = arr              # z3 Array(Int -> sort) for primitive element types
        self.sym = sym
        self.farr = {}              # obj element type: field -> z3 Array(Int -> sort)
        self.shift = 0              # obj element lists: element i is the symbolic object `sym[i + shift]`
        self.sums = {}              # ghost sums: canonical element expression -> z3 Real (sum over all elements)
        self.origin = None          # (source list sym, [filter texts]) for lists produced by a filter comprehension
        self.mem = None             # ghost membership set (Array elem -> Bool) kept exact under append; dropped by removals
        self.memfn = None           # membership as a function of the element (a filter comprehension: x in result <=> x in source and filter(x))
        self.appended = []          # symbolic object lists: [(position term, value)] for elements appended on this path
        self.parts = None           # (oid_a, oid_b) for a concatenation of two symbolic lists
        self.preds = []             # element-wise facts known for every element (canonical predicate texts over `x`)
        self.cnt = {}               # ghost counters: name -> z3 Int (number of elements satisfying a registered predicate)

    @property
    def concrete(self):
        return self.items is not None

    def copy(self):
        r = ListRec(list(self.items) if self.items is not None else None, self.length, self.elem, self.arr, self.sym)
        r.farr = dict(self.farr)
        r.cnt = dict(self.cnt)
        r.shift = self.shift
        r.sums = dict(self.sums)
        r.preds = list(self.preds)
        r.origin = self.origin
        r.parts = self.parts
        r.appended = list(self.appended)
        r.mem = self.mem
        r.memfn = self.memfn
        return r


class DictRec:
    """concrete: python dict key(hashable python const) -> SV, insertion ordered.
    symbolic: dom : Array(K,Bool), val : Array(K,sort) / per-field arrays, plus a size term"""
    __slots__ = ("items", "ktype", "vtype", "dom", "val", "sym", "size", "farr", "over", "valsym", "ordver")

    def __init__(self, items=None, ktype=("any",), vtype=("any",), dom=None, val=None, sym=None, size=None):
        self.items = items
        self.ktype = ktype
        self.vtype = vtype
        self.dom = dom
        self.val = val
        self.sym = sym
        self.size = size
        self.farr = {}
        self.over = []          # symbolic dict with non-primitive values: [(key term, value)] latest last
        self.valsym = None      # values alias the value objects of another symbolic map (same key -> same object)
        self.ordver = 0         # version of the key set: the ghost iteration order `sym#order[@ver]` belongs to one key set only

    @property
    def concrete(self):
        return self.items is not None

    def copy(self):
        r = DictRec(dict(self.items) if self.items is not None else None, self.ktype, self.vtype, self.dom, self.val,
                    self.sym, self.size)
        r.farr = dict(self.farr)
        r.over = list(self.over)
        r.valsym = self.valsym
        r.ordver = self.ordver
        return r


class SetRec:
    __slots__ = ("items", "etype", "dom", "sym", "size")

    def __init__(self, items=None, etype=("any",), dom=None, sym=None, size=None):
        self.items = items      # python list of SV (concrete, deduplicated structurally) or None
        self.etype = etype
        self.dom = dom
        self.sym = sym
        self.size = size

    @property
    def concrete(self):
        return self.items is not None

    def copy(self):
        return SetRec(list(self.items) if self.items is not None else None, self.etype, self.dom, self.sym, self.size)


class LockRec:
    __slots__ = ("kind", "held", "sym")

    def __init__(self, kind, held, sym=None):
        self.kind = kind
        self.held = held        # z3 Int term: acquisition count on the current thread
        self.sym = sym

    def copy(self):
        return LockRec(self.kind, self.held, self.sym)
