"""Helper builtins that need interpreter access; specification special forms; loop cutting."""
from __future__ import annotations
import ast
import z3
from .values import *
from . import engine as E
from .ops import _fn


class ExtrasMixin:
    # ------------------------------------------------------------ isinstance / hasattr
    def isinstance_(self, v, cls):
        v = self.force(v)
        if isinstance(cls, VTuple):
            return z3.Or([self.isinstance_(v, c) for c in cls.items])
        if isinstance(cls, VBuiltin):
            n = cls.name
            table = {"int": (VInt, VBool), "float": (VReal,), "str": (VStr,), "bool": (VBool,), "tuple": (VTuple,),
                     "Exception": (VExc,), "BaseException": (VExc,)}
            if n in table:
                if isinstance(v, VAny):
                    return _fn(f"isinstance_{n}", AnySort, z3.BoolSort())(v.t)
                return z3.BoolVal(isinstance(v, table[n]))
            if n in ("list", "dict", "set"):
                if isinstance(v, VAny):
                    return _fn(f"isinstance_{n}", AnySort, z3.BoolSort())(v.t)
                return z3.BoolVal(isinstance(v, VRef) and v.kind == n)
            if n == "object":
                return z3.BoolVal(True)
        if isinstance(cls, VClass):
            if isinstance(v, VRef) and v.kind == "obj":
                rec = self.run.rec(v.oid)
                return z3.BoolVal(self.is_subclass(rec.cls, cls.name))
            if isinstance(v, VEnum):
                return z3.BoolVal(self.is_subclass(v.ename, cls.name))
            if isinstance(v, VAny):
                return _fn(f"isinstance_{cls.name}", AnySort, z3.BoolSort())(v.t)
            return z3.BoolVal(False)
        if isinstance(cls, VExcClass):
            if isinstance(v, VExc):
                return z3.BoolVal(cls.name in self.exc_bases(v.cls))
            return z3.BoolVal(False)
        if isinstance(cls, VModule):
            if isinstance(v, VAny):
                return _fn(f"isinstance_{cls.name}", AnySort, z3.BoolSort())(v.t)
            if isinstance(v, VRef) and v.kind == "obj" and cls.name.startswith("ast."):
                # a syntax-tree node given by a shape of the contract: its class is the shape's name (ast.expr / ast.AST are bases of all)
                import ast as _ast
                have, want = getattr(_ast, self.run.rec(v.oid).cls, None), getattr(_ast, cls.name.split(".", 1)[1], None)
                return z3.BoolVal(isinstance(have, type) and isinstance(want, type) and issubclass(have, want))
            return z3.BoolVal(False)
        raise E.Unsupported(f"isinstance(_, {cls!r})")

    def is_subclass(self, name, base):
        if name == base:
            return True
        ci = self.repo.find_class(name)
        if ci is None:
            return False
        return any(self.is_subclass(b.split(".")[-1].split("[")[0], base) for b in ci.bases)

    def hasattr_(self, v, name):
        key = self.key_of(name)
        if key is None:
            raise E.Unsupported("hasattr symbolic name")
        attr = key[1]
        if isinstance(v, VRef) and v.kind == "obj":
            rec = self.run.rec(v.oid)
            if attr in rec.fields:
                return z3.BoolVal(True)
            ci = self.repo.find_class(rec.cls)
            if ci is not None and (self.repo.lookup_method(ci, attr) or self.repo.lookup_property(ci, attr)
                                   or self.repo.lookup_const(ci, attr) or self.field_type(rec.cls, attr)):
                return z3.BoolVal(True)
            return z3.BoolVal(False)
        if isinstance(v, VAny):
            return _fn(f"hasattr_{attr}", AnySort, z3.BoolSort())(v.t)
        if isinstance(v, VCallback):
            return z3.BoolVal(True)
        return z3.BoolVal(False)

    def as_set(self, v):
        if isinstance(v, VRef) and v.kind == "set":
            return v
        return self.new_set(self.iterate_concrete(v))

    # ------------------------------------------------------------ folds over concrete iterables
    def fold_gen(self, name, g: VGen):
        """sum/any/all over a comprehension on a symbolic list"""
        run = self.run
        r = run.rec(g.src.oid)
        gen = g.node.generators[0]
        if not isinstance(gen.target, ast.Name):
            raise E.Unsupported("comprehension target over symbolic list")
        var = gen.target.id
        if name == "sum" and isinstance(g.node.elt, ast.Constant) and g.node.elt.value == 1 and len(gen.ifs) == 1 \
                and r.elem[0] == "obj" and self.contract is not None:
            class Ren(ast.NodeTransformer):
                def visit_Name(self, n):
                    return ast.copy_location(ast.Name(id="x", ctx=n.ctx), n) if n.id == var else n
            import copy as _copy
            text = ast.unparse(Ren().visit(_copy.deepcopy(gen.ifs[0])))
            for cn, ptext in self.contract.counters.get(r.elem[1], {}).items():
                if ast.unparse(ast.parse(ptext, mode="eval").body) == text and cn in r.cnt:
                    return VInt(r.cnt[cn])
            raise E.Unsupported(f"no registered counter for predicate {text!r} on list of {r.elem[1]}")
        if name == "sum" and r.parts is not None and not gen.ifs:
            tot = None
            for poid in r.parts:
                part = VGen(g.node, g.frame, VRef(poid, "list"))
                v = self.fold_gen("sum", part)
                tot = v if tot is None else self.binop(ast.Add(), tot, v)
            return tot
        if name == "sum" and r.elem[0] == "obj":
            # ghost sum of an element expression over a symbolic object list: one real constant per (list, expression);
            # empty list => 0; non-negative if the expression is non-negative for an arbitrary element satisfying the element facts
            class Ren2(ast.NodeTransformer):
                def visit_Name(self, n):
                    return ast.copy_location(ast.Name(id="x", ctx=n.ctx), n) if n.id == var else n
            import copy as _copy
            etext = ast.unparse(Ren2().visit(_copy.deepcopy(g.node.elt)))
            own_filters = [ast.unparse(Ren2().visit(_copy.deepcopy(c))) for c in gen.ifs]
            # canonical filters: constants of the enclosing class are inlined so that `self.X` in code and a literal in a spec agree
            base = r.origin or (r.sym, [])
            filters = sorted(set(self.canon_filter(t_, g.frame) for t_ in list(base[1]) + own_filters))
            skey = (etext, tuple(filters))
            store = run.ghost_sums
            gkey = (base[0], skey) if not r.shift or isinstance(r.shift, int) and not r.shift else (base[0], skey, str(r.shift))
            if gkey not in store:
                sname = f"{base[0]}#sum:{etext}" + ("|" + "&".join(filters) if filters else "")
                sv = z3.Real(sname)
                run.inputs[sname] = sv
                store[gkey] = sv
                # an empty list sums to 0; a filtered sum of non-negative terms is bounded by the unfiltered one
                if not own_filters:
                    run.assume(z3.Implies(r.length == 0, sv == 0))
                # sign: evaluate the element expression on an arbitrary element
                witness = self.symlist_elem(g.src, r, z3.Int(run.fresh_name("i!any")))
                f2 = E.Frame(g.frame.relpath, g.frame.ci, {var: witness}, g.frame, g.frame.fname)
                self.pure += 1
                try:
                    ev = self.eval(g.node.elt, f2)
                    nonneg = self.num(ev) >= 0
                    pos = self.num(ev) > 0
                finally:
                    self.pure -= 1
                if run.check(z3.Not(nonneg)) == z3.unsat:
                    run.assume(sv >= 0)
                if run.check(z3.Not(pos)) == z3.unsat and not own_filters:
                    run.assume(z3.Implies(r.length > 0, sv > 0))
            return VReal(store[gkey])
        if name in ("any", "all") and r.arr is not None:
            i = z3.Int(run.fresh_name("i!q"))
            x = self.wrap(r.elem, z3.Select(r.arr, i))
            f2 = E.Frame(g.frame.relpath, g.frame.ci, {var: x}, g.frame, g.frame.fname)
            self.pure += 1
            try:
                conds = [self.truthy(self.eval(c, f2)) for c in gen.ifs]
                body = self.truthy(self.eval(g.node.elt, f2))
            finally:
                self.pure -= 1
            rng = z3.And(i >= 0, i < r.length, *conds)
            if name == "any":
                return VBool(z3.Exists([i], z3.And(rng, body)))
            return VBool(z3.ForAll([i], z3.Implies(rng, body)))
        raise E.Unsupported(f"{name}() over a comprehension on a symbolic list")

    def canon_filter(self, text, frame):
        """filter text with `self.CONST` class constants replaced by their literal value"""
        node = ast.parse(text, mode="eval").body
        ci = frame.ci if frame is not None else None

        class Sub(ast.NodeTransformer):
            def visit_Attribute(s_, n):
                if isinstance(n.value, ast.Name) and n.value.id == "self" and n.attr.isupper() and ci is not None:
                    c = self.repo.lookup_const(ci, n.attr)
                    if c is not None and isinstance(c[0], ast.Constant):
                        return ast.copy_location(ast.Constant(value=c[0].value), n)
                return n
        return ast.unparse(Sub().visit(node))

    def fold_builtin(self, name, args, kwargs):
        if args and isinstance(args[0], VGen):
            return self.fold_gen(name, args[0])
        try:
            items = self.iterate_concrete(args[0])
        except E.Unsupported:
            h = self.hooks.get("fold")
            if h:
                r = h(name, args, kwargs)
                if r is not None:
                    return r
            raise
        if name == "sum":
            acc = args[1] if len(args) > 1 else VInt(0)
            for x in items:
                acc = self.binop(ast.Add(), acc, x)
            return acc
        ts = [self.truthy(x) for x in items]
        if name == "any":
            return VBool(E.simp(z3.Or(ts)) if ts else False)
        return VBool(E.simp(z3.And(ts)) if ts else True)

    def minmax_key(self, name, args, kwargs):
        default = kwargs.get("default")
        key = kwargs.get("key")
        if len(args) > 1:
            items = list(args)
        elif isinstance(args[0], VTuple) and args[0].items and isinstance(args[0].items[0], VStr) and \
                str(E.simp(args[0].items[0].t)) == '"#dictitems"':
            # external contract: min/max over the items of a non-empty dict returns one of its items
            ref = args[0].items[1]
            r = self.run.rec(ref.oid)
            if self.run.decide(r.size <= 0, "dict empty"):
                if default is not None:
                    return default
                raise E.PyExc(VExc("ValueError"), f"{name}() of empty")
            kt = z3.Const(self.run.fresh_name(f"{r.sym}#argmin"), self.sort_of(r.ktype))
            self.run.assume(z3.Select(r.dom, kt))
            self.run.imprecise.append("min/max over symbolic dict: arbitrary element")
            return VTuple([self.wrap(r.ktype, kt), self.symdict_val(ref, r, kt)])
        elif isinstance(args[0], VRef) and args[0].kind == "list" and not self.run.rec(args[0].oid).concrete and key is not None:
            # min/max with a key over a symbolic list: ValueError (or the default) when empty, otherwise SOME element of the list at an arbitrary
            # position (that it is the extremal one is not modelled: imprecise); the key is applied to it so that a raising key is seen
            ref = args[0]
            r = self.run.rec(ref.oid)
            if self.run.decide(r.length <= 0, "sequence empty"):
                if default is not None:
                    return default
                raise E.PyExc(VExc("ValueError"), f"{name}() of empty")
            k = z3.Int(self.run.fresh_name(f"{r.sym}#arg{name}"))
            self.run.assume(z3.And(k >= 0, k < r.length))
            x = self.symlist_elem(ref, r, k)
            self.call_value(key, [x], {})
            if isinstance(x, VRef):
                try:
                    x.from_list = r.sym
                except AttributeError:
                    pass
            self.run.imprecise.append(f"{name}(key=...) over a symbolic list: an arbitrary element")
            return x
        else:
            items = self.iterate_concrete(args[0])
        if not items:
            if default is not None:
                return default
            raise E.PyExc(VExc("ValueError"), f"{name}() of empty")
        keys = [self.call_value(key, [x], {}) if key is not None else x for x in items]
        best, bk = items[0], keys[0]
        for x, k in zip(items[1:], keys[1:]):
            op = ast.Lt() if name == "min" else ast.Gt()
            c = E.simp(self.compare(op, k, bk))
            if E.is_true(c):
                best, bk = x, k
            elif E.is_false(c):
                pass
            elif self.run.decide(c, f"{name} key better"):
                best, bk = x, k
        return best

    def sorted_(self, v, kwargs):
        items = self.iterate_concrete(v)
        if len(items) <= 1:
            return self.new_list(items)
        key = kwargs.get("key")
        rev = kwargs.get("reverse")
        keys = [self.call_value(key, [x], {}) if key is not None else x for x in items]
        # insertion sort with forks (small concrete lists only)
        if len(items) > 4:
            raise E.Unsupported("sorted of more than 4 symbolic items")
        order = []
        for i in range(len(items)):
            pos = len(order)
            for j, oj in enumerate(order):
                c = self.compare(ast.Lt(), keys[i], keys[oj])
                if self.run.decide(c, "sort lt"):
                    pos = j
                    break
            order.insert(pos, i)
        out = [items[i] for i in order]
        if rev is not None and self.test(rev, "reverse"):
            out.reverse()
        return self.new_list(out)

    def super_(self, frame):
        f = frame
        while f is not None and "self" not in f.locals:
            f = f.parent
        if f is None or frame.ci is None:
            raise E.Unsupported("super() outside a method")
        return VSuper(f.locals["self"], frame.ci)

    def super_getattr(self, sv, attr):
        for b in sv.ci.bases:
            bn = b.split(".")[-1].split("[")[0]
            bc = self.repo.find_class(bn, sv.ci.mod.relpath)
            if bc is None:
                continue
            m = self.repo.lookup_method(bc, attr)
            if m is not None:
                return VPartial(VFunc(m[0], None, m[1], m[1].mod.relpath, attr), sv.recv)
        if attr == "__init__":
            return VPartial(None, sv.recv)        # object.__init__: nothing to do
        raise E.Unsupported(f"super().{attr}: no base method in the repository")

    def deepcopy(self, v, memo=None):
        memo = {} if memo is None else memo
        if isinstance(v, VRef):
            if v.oid in memo:
                return memo[v.oid]
            r = self.run.rec(v.oid)
            if v.kind == "lock":
                return v
            nr = r.copy()
            ref = VRef(self.run.alloc(nr), v.kind, v.cls)
            memo[v.oid] = ref
            if v.kind == "obj":
                for k, x in list(nr.fields.items()):
                    nr.fields[k] = self.deepcopy(x, memo)
                if nr.sym is not None:
                    raise E.Unsupported("deepcopy of lazily materialised object")
            elif v.kind == "list" and nr.concrete:
                nr.items = [self.deepcopy(x, memo) for x in nr.items]
            elif v.kind == "dict" and nr.concrete:
                nr.items = {k: (kk, self.deepcopy(x, memo)) for k, (kk, x) in nr.items.items()}
            return ref
        if isinstance(v, VTuple):
            return VTuple([self.deepcopy(x, memo) for x in v.items])
        return v

    def shallowcopy(self, v):
        if isinstance(v, VRef) and v.kind != "lock":
            return VRef(self.run.alloc(self.run.rec(v.oid).copy()), v.kind, v.cls)
        return v

    def inject_deep(self, v):
        if isinstance(v, VRef) and v.kind in ("list", "dict", "set", "obj"):
            r = self.run.rec(v.oid)
            f = _fn("any_pair", AnySort, AnySort, AnySort)
            t = z3.Const(f"any_{v.kind}", AnySort)
            if v.kind == "list" and r.concrete:
                for x in r.items:
                    t = f(t, self.inject_deep(x))
                return t
            if v.kind == "dict" and r.concrete:
                for k, x in r.items.values():
                    t = f(f(t, self.inject_deep(k)), self.inject_deep(x))
                return t
            if v.kind == "dict" and not r.concrete and r.val is not None:
                return _fn("any_of_map_" + str(r.val.sort()).replace(" ", ""), r.dom.sort(), r.val.sort(), AnySort)(r.dom, r.val)
            raise E.Unsupported("inject_deep of symbolic container")
        return self.inject(v)

    # ------------------------------------------------------------ specification special forms
    def spec_old(self, node, frame):
        run = self.run
        cur = run.heap
        if run.old_heap is None:
            raise E.Unsupported("old() outside a postcondition")
        run.heap = run.old_heap
        f2 = E.Frame(frame.relpath, frame.ci, dict(frame.locals), frame.parent, frame.fname)
        f2.locals.update(getattr(self, "old_locals", {}))
        try:
            v = self.eval(node.args[0], f2)
        finally:
            run.old_heap = run.heap
            run.heap = cur
        return self.oldify(v)

    def oldify(self, v, like=None):
        if isinstance(v, VOpt):
            if v.forced is None and v.ty[0] not in ("obj", "list", "dict", "set"):
                return v
            v = self.force(v)
        if isinstance(v, VRef) and v.kind != "lock":
            if like is not None and like in self.run.alias_heap:
                return self.run.old_view(v, self.run.alias_heap[like], f"view:{id(self.run.alias_heap[like])}")
            return self.run.old_view(v)
        if isinstance(v, VTuple):
            return VTuple([self.oldify(x) for x in v.items])
        return v

    def spec_implies(self, node, frame):
        a = self.truthy(self.eval(node.args[0], frame))
        sa = E.simp(a)
        if E.is_false(sa):
            return VBool(True)
        v = self.under(sa, lambda: self.eval(node.args[1], frame))
        if v is None:
            return VBool(True)
        return VBool(E.simp(z3.Implies(a, self.truthy(v))))

    def spec_iff(self, node, frame):
        a = self.truthy(self.eval(node.args[0], frame))
        b = self.truthy(self.eval(node.args[1], frame))
        return VBool(E.simp(a == b))

    def spec_count_of(self, node, frame):
        lst = self.eval(node.args[0], frame)
        cn = node.args[1].value
        r = self.run.rec(lst.oid)
        if r.concrete:
            cls = None
            tot = z3.IntVal(0)
            for x in r.items:
                cls = self.run.rec(x.oid).cls
                tot = tot + z3.If(self.counter_pred(cls, cn, x), 1, 0)
            return VInt(E.simp(tot))
        if cn not in r.cnt:
            raise E.Unsupported(f"list has no counter {cn}")
        return VInt(r.cnt[cn])

    def spec_at_head(self, node, frame):
        """value of a local variable at the head of the current (cut) loop iteration"""
        name = node.args[0].id if isinstance(node.args[0], ast.Name) else node.args[0].value
        heads = getattr(self, "loop_heads", [])
        if not heads or name not in heads[-1][0]:
            raise E.Unsupported(f"at_head({name}) outside a cut loop")
        v = heads[-1][0][name]
        if isinstance(v, VRef) and v.kind != "lock":
            return self.run.old_view(v, heads[-1][1], f"head{len(heads)}:{id(heads[-1][1])}")
        return v

    def spec_gate_passed(self, node, frame):
        """some call (since the current loop iteration began) to a collaborator whose name ends with `suffix`
        returned a truthy value for exactly the argument `arg`"""
        suf = node.args[0].value
        arg = self.eval(node.args[1], frame)
        start = getattr(self, "iter_call_start", [0])[-1]
        alts = []
        for c in self.run.calls[start:]:
            if c["name"].endswith(suf) and c["outcome"] == "return" and len(c["args"]) >= 1:
                alts.append(z3.And(self.identical(c["args"][0], arg), self.truthy(c["value"])))
        return VBool(E.simp(z3.Or(alts)) if alts else False)

    def spec_calls_in_iter(self, node, frame):
        suf = node.args[0].value
        start = getattr(self, "iter_call_start", [0])[-1]
        return VInt(len([c for c in self.run.calls[start:] if c["name"].endswith(suf)]))

    def spec_arg_in_iter(self, node, frame):
        """i-th positional argument of the last call (this iteration) to a collaborator named *suffix"""
        suf = node.args[0].value
        i = node.args[1].value
        start = getattr(self, "iter_call_start", [0])[-1]
        for c in reversed(self.run.calls[start:]):
            if c["name"].endswith(suf) and len(c["args"]) > i:
                return c["args"][i]
        return NONE

    def spec_returned_in_iter(self, node, frame):
        suf = node.args[0].value
        start = getattr(self, "iter_call_start", [0])[-1]
        for c in reversed(self.run.calls[start:]):
            if c["name"].endswith(suf) and c["outcome"] == "return":
                return c["value"]
        return NONE

    def spec_ceil_int(self, node, frame):
        v = self.eval(node.args[0], frame)
        x = self.num(v)
        fl = z3.ToInt(x)
        return VInt(z3.If(z3.ToReal(fl) == x, fl, fl + 1))

    def spec_trunc_int(self, node, frame):
        v = self.eval(node.args[0], frame)
        x = self.num(v)
        return VInt(z3.If(x >= 0, z3.ToInt(x), -z3.ToInt(-x)))

    def spec_nth_key(self, node, frame):
        d = self.eval(node.args[0], frame)
        j = self.eval(node.args[1], frame)
        r = self.run.rec(d.oid)
        ks = self.order_array(r)
        # trusted structural fact: the j-th key of a dict (0 <= j < len) is a key of the dict
        base = self.run.old_heap.get(self.run.base_oid(d.oid)) if self.run.old_heap is not None else None
        dom0 = z3.Array(f"{r.sym}#dom", ks.sort().range(), z3.BoolSort())
        sz0 = z3.Int(f"{r.sym}#size")
        self.run.assume(z3.Implies(z3.And(j.t >= 0, j.t < sz0), z3.Select(dom0, z3.Select(ks, j.t))), persist=True)
        return self.wrap(r.ktype, z3.Select(ks, j.t))

    def spec_contract_arg(self, node, frame):
        """i-th argument (after self) of the last call to a callee used through its contract"""
        suf = node.args[0].value
        i = node.args[1].value
        for c in reversed(self.run.contract_calls):
            if c["name"].endswith(suf):
                return c["args"][i] if len(c.get("args", [])) > i else NONE
        return NONE

    def spec_contract_calls(self, node, frame):
        suf = node.args[0].value
        return VInt(len([c for c in self.run.contract_calls if c["name"].endswith(suf)]))

    def spec_exists_index(self, node, frame):
        """exists_index(L, lambda i: P(i)) for a symbolic list of objects: proved by WITNESS -- the disjunction of P over the index terms of
        the elements of L materialised on this path (the code can only have used such an element).  Sound: the disjunction implies the
        existential; a failure may in principle be incompleteness, so a counter-model is replayed natively like any other."""
        L = self.force(self.eval(node.args[0], frame))
        lam = node.args[1]
        if not isinstance(lam, ast.Lambda) or len(lam.args.args) != 1:
            raise E.Unsupported("exists_index needs a one-argument lambda")
        base = L
        if isinstance(L, VRef) and L.oid in self.run.old_alias:
            pass
        r = self.run.rec(L.oid)
        if r.concrete:
            cands = [z3.IntVal(i) for i in range(len(r.items))]
        else:
            shift = r.shift
            cands = []
            for (qterm, _qn) in list(self.run.elem_index.get(r.sym, [])):
                cands.append(E.simp(qterm - shift) if not isinstance(shift, int) or shift else qterm)
        var = lam.args.args[0].arg
        ds = []
        for c in cands:
            f2 = E.Frame(frame.relpath, frame.ci, {var: VInt(c)}, frame, frame.fname)
            inr = z3.And(c >= 0, c < (r.length if not r.concrete else len(r.items)))
            t = self.under(inr, lambda: self.truthy(self.eval(lam.body, f2)))
            if t is not None:
                ds.append(z3.And(inr, t))
        return VBool(E.simp(z3.Or(ds)) if ds else False)

    def spec_nth_value(self, node, frame):
        """value stored under the j-th key (in iteration order) of a symbolic dict"""
        d = self.eval(node.args[0], frame)
        j = self.eval(node.args[1], frame)
        r = self.run.rec(d.oid)
        ks = self.order_array(r)
        return self.symdict_val(d, r, z3.Select(ks, j.t))

    def _loop_view(self):
        v = (getattr(self, "loop_views", None) or [None])[-1]
        if v is None:
            raise E.Unsupported("visit_index / in_visit outside the invariants of a loop over a symbolic dict view")
        return v

    def spec_in_visit(self, node, frame):
        """the key belongs to the key set the loop iterates over (the snapshot taken when the loop starts)"""
        v = self._loop_view()
        return VBool(z3.Select(v["dom"], self.term_of(self.eval(node.args[0], frame), v["ktype"])))

    def spec_visit_index(self, node, frame):
        """position at which the loop visits the key: defined for every key of the snapshot (each key is visited exactly once)"""
        v = self._loop_view()
        xt = self.term_of(self.eval(node.args[0], frame), v["ktype"])
        p = v["pos"](xt)
        self.run.assume(z3.Implies(z3.Select(v["dom"], xt), z3.And(p >= 0, p < v["n"], z3.Select(v["ks"], p) == xt)), persist=True)
        return VInt(p)

    def spec_reached_loop(self, node, frame):
        """the path reached the loop whose header text contains the given string (for a cut loop: its cut point)"""
        sub = node.args[0].value
        return VBool(any(sub in h for h in getattr(self.run, "loops_reached", ())))

    def spec_json_ok(self, node, frame):
        v = self.eval(node.args[0], frame)
        return VBool(_fn("json_ok", z3.StringSort(), z3.BoolSort())(v.t))

    def spec_mv_ok(self, node, frame):
        sch = self.eval(node.args[0], frame)
        d = self.eval(node.args[1], frame)
        # same term as the partial function collaborator builds: mv#ok(recv, arg)
        recv = sch
        return VBool(z3.Function("mv#ok", AnySort, AnySort, z3.BoolSort())(self.inject(recv), self.inject(d)))

    def spec_compiles(self, node, frame):
        """the regular expression given as text compiles (the predicate re.compile decides)"""
        v = self.force(self.eval(node.args[0], frame))
        return VBool(_fn("re_ok", z3.StringSort(), z3.BoolSort())(v.t))

    def spec_is_tuple(self, node, frame):
        return VBool(isinstance(self.force(self.eval(node.args[0], frame)), VTuple))

    def spec_is_list(self, node, frame):
        v = self.force(self.eval(node.args[0], frame))
        return VBool(isinstance(v, VRef) and v.kind == "list")

    def spec_is_str(self, node, frame):
        return VBool(isinstance(self.force(self.eval(node.args[0], frame)), VStr))

    def spec_is_obj(self, node, frame):
        v = self.force(self.eval(node.args[0], frame))
        return VBool(isinstance(v, VRef) and v.kind == "obj")

    def spec_truthy(self, node, frame):
        return VBool(E.simp(self.truthy(self.eval(node.args[0], frame))))

    def spec_is_bound(self, node, frame):
        name = node.args[0].value
        f = frame
        while f is not None:
            if name in f.locals:
                return VBool(True)
            f = f.parent
        return VBool(False)

    def spec_calls_to(self, node, frame):
        """number of havocked-collaborator invocations whose name ends with the given suffix"""
        suf = node.args[0].value
        return VInt(len([c for c in self.run.calls if c["name"].endswith(suf)]))

    def spec_returned(self, node, frame):
        """value returned by the last invocation of the collaborator / contract callee whose name ends with the suffix"""
        suf = node.args[0].value
        for c in reversed(self.run.calls + self.run.contract_calls):
            if c["name"].endswith(suf) and c["outcome"] == "return":
                return c["value"]
        return NONE

    def spec_raised(self, node, frame):
        suf = node.args[0].value
        return VBool(any(c["name"].endswith(suf) and c["outcome"] == "raise" for c in self.run.calls))

    def spec_clock_first(self, node, frame):
        """first reading of the ghost clock during this call (or a fresh later time if none was taken)"""
        t = getattr(self.run, "clock_first", None)
        return VReal(t if t is not None else z3.Real("clock!none"), "datetime")

    def spec_clock_last(self, node, frame):
        t = self.run.clock
        return VReal(t if t is not None else z3.Real("clock!none"), "datetime")

    def spec_encodable(self, node, frame):
        v = self.eval(node.args[0], frame)
        from .builtins_ import enc_pred
        return VBool(enc_pred(self.run, v.t))

    def spec_is_none(self, node, frame):
        v = self.eval(node.args[0], frame)
        if isinstance(v, VOpt) and v.forced is None:
            return VBool(v.isnone)
        return VBool(isinstance(self.force(v), VNone))

    # ------------------------------------------------------------ loop cutting
    def write_set(self, stmts, frame, seen=None):
        """syntactic write set of a loop body: local names, and attribute paths mutated
        (through assignments, mutating method calls, and calls to methods of the same class, transitively)"""
        seen = set() if seen is None else seen
        locs, paths = set(), set()
        MUT = {"append", "extend", "pop", "clear", "add", "update", "remove", "discard", "insert", "setdefault",
               "popitem", "sort", "reverse", "appendleft", "popleft"}

        def target(t):
            if isinstance(t, ast.Name):
                locs.add(t.id)
            elif isinstance(t, (ast.Tuple, ast.List)):
                for e in t.elts:
                    target(e)
            elif isinstance(t, ast.Attribute):
                paths.add(ast.unparse(t))
            elif isinstance(t, ast.Subscript):
                paths.add(ast.unparse(t.value))
            elif isinstance(t, ast.Starred):
                target(t.value)

        for st in stmts:
            for n in ast.walk(st):
                if isinstance(n, ast.Assign):
                    for t in n.targets:
                        target(t)
                elif isinstance(n, (ast.AugAssign, ast.AnnAssign)):
                    target(n.target)
                elif isinstance(n, (ast.For, ast.comprehension)):
                    target(n.target)
                elif isinstance(n, ast.NamedExpr):
                    target(n.target)
                elif isinstance(n, ast.Delete):
                    for t in n.targets:
                        target(t)
                elif isinstance(n, ast.ExceptHandler) and n.name:
                    locs.add(n.name)
                elif isinstance(n, ast.With):
                    for it in n.items:
                        if it.optional_vars is not None:
                            target(it.optional_vars)
                elif isinstance(n, (ast.Import, ast.ImportFrom)):
                    for a in n.names:
                        locs.add(a.asname or a.name.split(".")[0])
                elif isinstance(n, ast.FunctionDef):
                    locs.add(n.name)
                elif isinstance(n, ast.Call) and isinstance(n.func, ast.Attribute):
                    if n.func.attr in MUT:
                        paths.add(ast.unparse(n.func.value))
                    recv = n.func.value
                    if isinstance(recv, ast.Name) and recv.id == "self" and frame.ci is not None:
                        m = self.repo.lookup_method(frame.ci, n.func.attr)
                        key = (frame.ci.name, n.func.attr)
                        if m is not None and key not in seen:
                            seen.add(key)
                            _l, p = self.write_set(m[0].body, E.Frame(m[1].mod.relpath, m[1]), seen)
                            paths |= {x for x in p if x.startswith("self.")}
        return locs, paths
