"""C01 (and the structural half of C02): effect contract of the safe evaluator, table clauses, no-dynamic-exec scan.
Prints one JSON line {status, obligations, discharged, failed:[...]}; exit 0."""
import ast, json, os, sys
ROOT = os.path.dirname(os.path.dirname(os.path.abspath(__file__)))
sys.path.insert(0, ROOT)
from pyvc.effects import EffectChecker
REPO = os.environ.get("OPERON_REPO", "/repo")
F = "operon_ai/organelles/mitochondria.py"

# "allow-listed pure functions/constants" of the statement: qualified names that are pure, total-or-raising, side-effect free
PURE = {"abs", "round", "min", "max", "sum", "len", "int", "float", "bool"} | {
    "math." + n for n in ("sqrt sin cos tan asin acos atan atan2 sinh cosh tanh log log10 log2 exp pow ceil floor trunc factorial gcd degrees radians "
                          "pi e tau inf fabs fmod hypot isfinite isinf isnan copysign").split()}
OPERATORS = {"Add": "add", "Sub": "sub", "Mult": "mul", "Div": "truediv", "FloorDiv": "floordiv", "Mod": "mod", "Pow": "pow", "USub": "neg", "UAdd": "pos"}
COMPARISONS = {"Eq": "eq", "NotEq": "ne", "Lt": "lt", "LtE": "le", "Gt": "gt", "GtE": "ge"}
# text preparation of the expression string and pure builtins never evaluate anything: they are inside every pathway's effect contract
PURE_STR_METHODS = {"strip", "lstrip", "rstrip", "lower", "upper", "replace", "startswith", "endswith", "split", "splitlines", "join", "find", "count",
                    "isdigit", "isspace", "isidentifier", "removeprefix", "removesuffix", "casefold", "partition", "rpartition", "format", "encode"}
PURE_BUILTINS = {"len", "str", "bool", "int", "float", "isinstance", "list", "tuple", "set", "dict", "sorted", "min", "max", "any", "all", "repr", "type", "range", "enumerate", "zip"}
DANGEROUS = {"eval", "exec", "compile", "__import__", "open", "input", "globals", "locals", "vars", "setattr", "delattr", "breakpoint"}


TABLES = ("SAFE_FUNCTIONS", "SAFE_OPERATORS", "SAFE_COMPARISONS", "SAFE_BOOL_OPS", "SAFE_UNARY_OPS")


def table_frame_violations():
    """frame of the allow-list tables: the class-level literals checked by table[...] are what the walker consults -- nothing in the anchored
    files rebinds or mutates them (else a registered tool body could become callable from an expression without passing the capability gate)"""
    bad = []
    for rel in (F, "operon_ai/core/agent.py"):
        t2 = ast.parse(open(os.path.join(REPO, rel), encoding="utf-8").read())
        for n in ast.walk(t2):
            tgts = []
            if isinstance(n, (ast.Assign, ast.Delete)):
                tgts = n.targets
            elif isinstance(n, (ast.AugAssign, ast.AnnAssign)):
                tgts = [n.target]
            for tg in tgts:
                base = tg.value if isinstance(tg, ast.Subscript) else tg
                if isinstance(base, ast.Attribute) and base.attr in TABLES:
                    bad.append(f"{rel}:{n.lineno}: {ast.unparse(tg)} is assigned outside the class-level literal (the allow-list would no longer be the checked table)")
            if isinstance(n, ast.Call) and isinstance(n.func, ast.Attribute) and n.func.attr in ("update", "setdefault", "pop", "clear", "popitem", "__setitem__") \
                    and isinstance(n.func.value, ast.Attribute) and n.func.value.attr in TABLES:
                bad.append(f"{rel}:{n.lineno}: {ast.unparse(n.func)}(...) mutates an allow-list table")
            if isinstance(n, ast.Call) and isinstance(n.func, ast.Name) and n.func.id == "setattr" and len(n.args) >= 2 \
                    and isinstance(n.args[1], ast.Constant) and n.args[1].value in TABLES:
                bad.append(f"{rel}:{n.lineno}: setattr(..., {n.args[1].value!r}, ...)")
    return bad


def class_table(cls, name):
    for st in cls.body:
        tgt = st.targets[0] if isinstance(st, ast.Assign) else (st.target if isinstance(st, ast.AnnAssign) else None)
        if isinstance(tgt, ast.Name) and tgt.id == name and isinstance(st.value, ast.Dict):
            return st.value
    return None


def main(which="C01"):
    src = open(os.path.join(REPO, F), encoding="utf-8").read()
    tree = ast.parse(src)
    cls = next(n for n in tree.body if isinstance(n, ast.ClassDef) and n.name == "Mitochondria")
    meth = {n.name: n for n in cls.body if isinstance(n, ast.FunctionDef)}
    obs = {}

    def ob(name, failures):
        obs[name] = list(failures)
    # ---- walker effect contract
    w = meth.get("_compute_node")
    if w is None:
        ob("C01/Mitochondria._compute_node/effect[calls-allowlisted]", ["walker not found"])
    else:
        ch = EffectChecker(w)
        viol = ch.run()
        for o in ("effect[calls-allowlisted]", "effect[pyvalue-use]", "effect[returns-values]", "post[node-classes]", "post[default-raises]"):
            ob(f"C01/Mitochondria._compute_node/{o}", viol.get(o, []))
        # vacuity: the checker must have seen calls, value uses and the dispatch
        if ch.checked["calls"] < 5 or ch.checked["branches"] < 5:
            ob("C01/Mitochondria._compute_node/vacuity", [f"checker saw {ch.checked}"])
        # C02 structural clauses on the Call branch: keyword arguments are evaluated and passed; non-callables are not returned for a call
        call_if = None
        for n in ast.walk(w):
            if isinstance(n, ast.If) and "ast.Call" in ast.unparse(n.test):
                call_if = n
                break
        c2 = []
        if call_if is None:
            c2.append("no ast.Call branch")
        else:
            body_src = ast.unparse(call_if)
            if "node.keywords" not in body_src:
                c2.append(f"line {call_if.lineno}: keyword arguments of a call (node.keywords) are never evaluated: they are silently dropped")
            rets = [n for n in ast.walk(call_if) if isinstance(n, ast.Return) and isinstance(n.value, ast.Name)]
            for r in rets:
                if r.value.id == "func":
                    c2.append(f"line {r.lineno}: a call of a non-callable table entry returns the entry instead of failing (e.g. pi())")
        ob("C02/Mitochondria._compute_node/post[call-passes-all-arguments]", c2)
    # ---- tables
    t = class_table(cls, "SAFE_FUNCTIONS")
    bad = []
    if t is None:
        bad.append("SAFE_FUNCTIONS table not found as a dict literal")
    else:
        for k, v in zip(t.keys, t.values):
            q = ast.unparse(v)
            if q not in PURE:
                bad.append(f"line {v.lineno}: SAFE_FUNCTIONS[{ast.unparse(k)}] = {q} is not an allow-listed pure function/constant")
    ob("C01/SAFE_FUNCTIONS/table[pure]", bad)
    for tname, ref, obname in (("SAFE_OPERATORS", OPERATORS, "C02/SAFE_OPERATORS/table[python-operator]"),
                               ("SAFE_COMPARISONS", COMPARISONS, "C02/SAFE_COMPARISONS/table[python-operator]")):
        t = class_table(cls, tname)
        bad = []
        if t is None:
            bad.append(f"{tname} not found")
        else:
            for k, v in zip(t.keys, t.values):
                kn, vn = ast.unparse(k).split(".")[-1], ast.unparse(v)
                if ref.get(kn) is None or vn != "operator." + ref[kn]:
                    bad.append(f"line {v.lineno}: {tname}[ast.{kn}] = {vn}, the language reference assigns operator.{ref.get(kn)}")
        ob(obname, bad)
    t = class_table(cls, "SAFE_BOOL_OPS")
    bad = []
    if t is None:
        bad.append("SAFE_BOOL_OPS not found")
    else:
        for k, v in zip(t.keys, t.values):
            if not isinstance(v, ast.Lambda):
                bad.append(f"SAFE_BOOL_OPS[{ast.unparse(k)}] is not a lambda")
                continue
            for c in ast.walk(v):
                if isinstance(c, ast.Call) and not (isinstance(c.func, ast.Name) and c.func.id in ("all", "any", "next", "bool")):
                    bad.append(f"line {c.lineno}: SAFE_BOOL_OPS lambda calls {ast.unparse(c.func)}")
    ob("C01/SAFE_BOOL_OPS/table[pure]", bad)
    ob("C01/tables/frame[allow-lists-are-the-checked-literals]", table_frame_violations())
    # ---- pathways: only the allowed externals
    allowed_calls = {
        "_glycolysis": {"ast.parse", "self._compute_node"},
        "_krebs_cycle": {"ast.parse", "self._compute_node", "bool", "expression.replace", "expression.replace('True', '1').replace", "expression.replace('true', '1').replace"},
        "_beta_oxidation": {"json.loads", "ast.literal_eval", "expression.strip", "ValueError"},
        "_oxidative_phosphorylation": {"ast.parse", "self._compute_node", "isinstance", "ValueError", "list", "self.tools.keys", "tool.execute",
                                       "self._require_capabilities", "getattr", "set", "sorted", "required_caps.issubset", "PermissionError", "str"},
    }
    for m, allowed in allowed_calls.items():
        bad = []
        fn = meth.get(m)
        if fn is None:
            bad.append(f"{m} not found")
        else:
            for c in ast.walk(fn):
                if isinstance(c, ast.Call):
                    q = ast.unparse(c.func)
                    pure_text = isinstance(c.func, ast.Attribute) and c.func.attr in PURE_STR_METHODS
                    pure_builtin = isinstance(c.func, ast.Name) and c.func.id in PURE_BUILTINS
                    if q not in allowed and not pure_text and not pure_builtin:
                        bad.append(f"line {c.lineno}: {m} calls {q}, outside its effect contract")
                    if q == "ast.parse":
                        mode = [k for k in c.keywords if k.arg == "mode"]
                        if not mode or not (isinstance(mode[0].value, ast.Constant) and mode[0].value.value == "eval"):
                            bad.append(f"line {c.lineno}: ast.parse without mode='eval'")
                    if q == "getattr" and not (len(c.args) >= 2 and isinstance(c.args[1], ast.Constant)):
                        bad.append(f"line {c.lineno}: getattr with a computed attribute name")
            if m == "_oxidative_phosphorylation":
                s_ = ast.unparse(fn)
                if "tool = self.tools[tool_name]" not in s_ or "tool_name = tree.body.func.id" not in s_:
                    bad.append("the executed tool is not the registered tool addressed by the call's Name")
        ob(f"C01/Mitochondria.{m}/effect[calls-allowlisted]", bad)
    # ---- C02: the text handed to the parser IS the given expression (up to surrounding whitespace): a textual rewrite before parsing also rewrites
    # the contents of string literals and turns refused operators into allowed ones, so the value computed is no longer Python's value of the text
    WS = {"strip", "lstrip", "rstrip"}
    for m in ("_glycolysis", "_krebs_cycle", "_oxidative_phosphorylation"):
        fn = meth.get(m)
        if fn is None:
            continue
        per = {}
        derived = {"expression"}

        def clean(e):
            """e is the parameter, or a whitespace-stripped copy of a clean value"""
            if isinstance(e, ast.Name):
                return e.id in derived
            if isinstance(e, ast.Call) and isinstance(e.func, ast.Attribute) and e.func.attr in WS and not e.args:
                return clean(e.func.value)
            return False
        for st in ast.walk(fn):
            if isinstance(st, ast.Assign) and len(st.targets) == 1 and isinstance(st.targets[0], ast.Name):
                tn = st.targets[0].id
                mentions = any(isinstance(x_, ast.Name) and x_.id in derived for x_ in ast.walk(st.value))
                if clean(st.value):
                    derived.add(tn)
                elif tn in derived and mentions:
                    how = sorted({x_.func.attr for x_ in ast.walk(st.value) if isinstance(x_, ast.Call) and isinstance(x_.func, ast.Attribute)} - WS)
                    key = f"C02/Mitochondria.{m}/callsite-pre[parses-the-given-text]#{'+'.join(how) or 'rewrite'}"
                    per.setdefault(key, []).append(f"line {st.lineno}: the expression text is rewritten before it is parsed: {ast.unparse(st)[:90]}")
        for c in ast.walk(fn):
            if isinstance(c, ast.Call) and ast.unparse(c.func) == "ast.parse" and c.args and not clean(c.args[0]):
                key = f"C02/Mitochondria.{m}/callsite-pre[parses-the-given-text]#argument"
                per.setdefault(key, []).append(f"line {c.lineno}: ast.parse is given {ast.unparse(c.args[0])[:60]}, not the expression text")
        ob(f"C02/Mitochondria.{m}/callsite-pre[parses-the-given-text]", [])
        for k_, v_ in per.items():
            ob(k_, v_)
    # ---- no dynamic execution reachable in the anchored files
    bad = []
    for rel in (F, "operon_ai/core/agent.py"):
        t2 = ast.parse(open(os.path.join(REPO, rel), encoding="utf-8").read())
        for c in ast.walk(t2):
            if isinstance(c, ast.Call):
                q = ast.unparse(c.func)
                if q in DANGEROUS or q.startswith("importlib.") or q.startswith("os.system") or q.startswith("subprocess."):
                    bad.append(f"{rel}:{c.lineno}: call of {q}")
    ob("C01/scan[no-dynamic-exec]", bad)
    # ---- length guard is the first statement that can return (before any parse)
    bad = []
    mt = meth.get("metabolize")
    if mt is not None:
        first_if = next((s for s in mt.body if isinstance(s, ast.If)), None)
        if first_if is None or "len(expression) > MAX_EXPRESSION_LENGTH" not in ast.unparse(first_if.test):
            bad.append("metabolize does not start with the MAX_EXPRESSION_LENGTH guard")
    ob("C01/Mitochondria.metabolize/post[len-guard-first]", bad)
    sel = {k: v for k, v in obs.items() if k.startswith(which + "/")}
    failed = {k: v for k, v in sel.items() if v}
    # failing scan obligations that are recorded known findings (matched by obligation name) are reported as such, not as violations
    known_seen = []
    try:
        kf = json.load(open(os.path.join(ROOT, "known_findings.json"))).get("findings", [])
    except (OSError, ValueError):
        kf = []
    known = {f["obligation"] for f in kf if f.get("property") == which and f.get("status", "open") == "open" and f.get("obligation")}
    for k_ in list(failed):
        if k_ in known:
            known_seen.append(f"{k_}: {failed[k_][0]}")
            del failed[k_]
    out = {"status": "ok" if not failed else "violation", "obligations": len(sel), "discharged": len(sel) - len(failed),
           "names": sorted(sel), "failed": failed, "known_findings": known_seen}
    if failed:
        out["detail"] = "; ".join(f"{k}: {v[0]}" for k, v in list(failed.items())[:3])
        os.makedirs(os.path.join(ROOT, "replays"), exist_ok=True)
        rp = os.path.join(ROOT, f"replays/{which}-effects.json")
        json.dump({"property": which, "failed_obligations": failed, "note": "static witness (source lines); see the bounded stand-in for a failing input"},
                  open(rp, "w"), indent=1)
        out["replay"] = f"replays/{which}-effects.json"
    print(json.dumps(out))


if __name__ == "__main__":
    main(sys.argv[1] if len(sys.argv) > 1 else "C01")
