"""pyvc symbolic executor: generates verification conditions from the real ASTs of /repo.

Forking is by re-execution: the interpreter is a plain recursive evaluator; every nondeterministic
or symbolic decision goes through Run.choose(), which follows a forced prefix of choices and then
takes the first feasible alternative, recording the others for later runs (DFS over the choice tree).
"""
from __future__ import annotations
import ast, builtins, hashlib, re
import z3
from .values import *
from .source import Repo, ClassInfo

SOLVER_TIMEOUT_MS = 20000
UNKNOWN_SPENT_S = 0.0       # wall time this process spent on solver calls that came back `unknown`
UNKNOWN_BUDGET_S = 90.0
SOLVER_RLIMIT = 40_000_000      # roughly what z3 spends in 20 s on this machine for the string-heavy queries (linear arithmetic queries use ~10^3..10^5)


class Unsupported(Exception):
    pass


class PathEnd(Exception):
    """this path ends here (infeasible, loop iteration finished, assumption contradicted)"""


class PyExc(Exception):
    """a Python exception propagating through the interpreted code"""

    def __init__(self, exc: VExc, origin: str = ""):
        super().__init__(exc.cls)
        self.exc = exc
        self.origin = origin
        self.excluded: set[str] = set()


class _Return(Exception):
    def __init__(self, value):
        self.value = value


class _Break(Exception):
    pass


class _Continue(Exception):
    pass


def is_true(t):
    return z3.is_true(t)


def is_false(t):
    return z3.is_false(t)


def simp(t):
    return z3.simplify(t)


BUILTIN_EXC = {n: o for n, o in vars(builtins).items() if isinstance(o, type) and issubclass(o, BaseException)}
# a few stdlib exceptions that appear in handlers
EXTRA_EXC_BASES = {
    "JSONDecodeError": ["ValueError", "Exception", "BaseException"],
    "json.JSONDecodeError": ["ValueError", "Exception", "BaseException"],
    "ValidationError": ["ValueError", "Exception", "BaseException"],
    "StatisticsError": ["ValueError", "Exception", "BaseException"],
    "re.error": ["Exception", "BaseException"],
    "TimeoutError": ["OSError", "Exception", "BaseException"],
}


class Obligation:
    __slots__ = ("name", "kind", "label", "status", "model", "path", "precise", "time", "backend", "text", "smt", "aux",
                 "detail")

    def __init__(self, name, kind, label):
        self.name = name
        self.kind = kind
        self.label = label
        self.status = None
        self.model = None
        self.path = None
        self.precise = True
        self.time = 0.0
        self.backend = "z3"
        self.text = ""
        self.smt = None
        self.aux = False
        self.detail = ""


class Run:
    """one path"""

    def __init__(self, forced, checker):
        self.forced = list(forced)
        self.log = []          # [n_options, taken, feasible list, label]
        self.pc = []
        self.solver = z3.Solver()
        # budgets are RESOURCE limits (deterministic: the same query gives the same answer whatever the machine load), with a generous wall-clock
        # net behind them; a time-dependent `unknown` would make re-executed paths diverge
        self.solver.set("timeout", SOLVER_TIMEOUT_MS * 3)
        self.solver.set("rlimit", SOLVER_RLIMIT)
        self.heap = {}
        self.old_heap = None
        self.old_alias = {}    # alias oid -> base oid (old-state views)
        self.alias_heap = {}   # alias oid -> the saved heap it reads (default: old_heap)
        self.templates = {}    # oid -> factory for lazily shared symbolic records
        self.sym_oids = {}
        self.next_oid = 1
        self.counters = {}
        self.obligations = []
        self.imprecise = []
        self.calls = []        # ghost call log
        self.contract_calls = []
        self.ghost = {}
        self.trace = []
        self.clock = None
        self.clock_first = None
        self.checker = checker
        self.inputs = {}       # name -> z3 const (for model extraction)
        self.n_solver = 0
        self.t_solver = 0.0
        self.held_locks = []
        self.inj_seen = set()
        self.ghost_sums = {}
        self.elem_index = {}   # list sym -> [(index term, element object name)] for alias resolution of symbolic indices
        self.members = {}      # oid of an object -> oids of counter-tracked symbolic lists it was appended to
        self.abstractions = []
        self.input_types = {}
        self.decided = {}
        self.decided_persist = {}
        self.ob_occ = {}
        self.guard_unchecked = 0
        self.guard_depth = 0
        self.nopersist = 0
        self.persistent = []   # constraints about input symbols that must survive the pop of a guarded (spec) region
        self._keep = []
        self.written = set()

    # -- naming
    def fresh_name(self, base):
        n = self.counters.get(base, 0)
        self.counters[base] = n + 1
        return base if n == 0 else f"{base}!{n}"

    # -- constraints
    def assume(self, t, persist=False):
        t = simp(t) if not isinstance(t, bool) else z3.BoolVal(t)
        if is_true(t):
            return
        if is_false(t):
            raise PathEnd()
        self.pc.append(t)
        self.solver.add(t)
        if persist:
            self.persistent.append(t)

    def quick_feasible(self, ms=1500):
        """cheap feasibility probe: False only when z3 proves the path condition unsat within the budget"""
        self.solver.set("rlimit", max(1, int(SOLVER_RLIMIT * ms / SOLVER_TIMEOUT_MS)))
        try:
            return self.check() != z3.unsat
        finally:
            self.solver.set("rlimit", SOLVER_RLIMIT)

    def check(self, extra=None):
        import time
        global UNKNOWN_SPENT_S
        t0 = time.time()
        if UNKNOWN_SPENT_S > UNKNOWN_BUDGET_S and not getattr(self, "_short", False):
            # this process has already burnt its budget on queries the solvers could not decide: the verdict is "undecided" whatever comes,
            # later queries get a short leash instead of a minute each
            self.solver.set("timeout", 5000)
            self._short = True
        if extra is None:
            r = self.solver.check()
        else:
            r = self.solver.check(extra)
        dt = time.time() - t0
        if r == z3.unknown:
            UNKNOWN_SPENT_S += dt
        self.n_solver += 1
        self.t_solver += dt
        return r

    def feasible(self, cond):
        c = simp(cond)
        if is_true(c):
            return True
        if is_false(c):
            return False
        r = self.check(c)
        if r == z3.unknown:
            self.imprecise.append("feasibility unknown")
            return True
        return r == z3.sat

    def choose(self, options, label="", persist=False):
        """options: list of (tag, cond or None). Returns index of the option taken on this path."""
        conds = [z3.BoolVal(True) if c is None else simp(c) for _t, c in options]
        if self.guard_depth > 0 and self.guard_unchecked:
            # first decision inside a guarded region whose guard has not been looked at yet: an infeasible guard means nothing is decided (or
            # consumed from the forced prefix) here -- exactly as if the region had been skipped
            self.guard_unchecked = 0
            if self.check() == z3.unsat:
                raise PathEnd()
        pos = len(self.log)
        if self.guard_depth > 0 and not self.nopersist:
            # a decision taken while evaluating a guarded specification sub-expression holds for the whole path (both
            # evaluations of an invariant must agree); alternatives are explored regardless of the guard
            persist = True
        if pos < len(self.forced):
            k, feas = self.forced[pos]
        else:
            feas = [self.feasible(c) for c in conds]
            k = next((i for i, f in enumerate(feas) if f), None)
            if k is None:
                raise PathEnd()
            if self.guard_depth > 0 and not self.nopersist:
                feas = [not is_false(c) for c in conds]
        self.log.append([len(options), k, feas, label])
        self.trace.append(f"{label}={options[k][0]}")
        self.assume(conds[k], persist)
        return k

    def decide(self, cond, label="", persist=False):
        c = simp(cond)
        if is_true(c):
            return True
        if is_false(c):
            return False
        key = c.get_id()
        if key in self.decided:
            return self.decided[key]
        r = self.choose([("T", c), ("F", z3.Not(c))], label, persist) == 0
        self.decided[key] = r
        if persist:
            self.decided_persist[key] = r
        self._keep.append(c)
        return r

    # -- heap
    def alloc(self, rec):
        oid = self.next_oid
        self.next_oid += 1
        self.heap[oid] = rec
        return oid

    def old_view(self, ref, heap=None, tag="old"):
        """reference to the entry-state (old) version of a heap record (or its version in another saved heap)"""
        if ref.oid in self.old_alias:
            return ref
        key = (tag, ref.oid)
        oid = self.sym_oids.get(key)
        if oid is None:
            oid = self.next_oid
            self.next_oid += 1
            self.sym_oids[key] = oid
            self.old_alias[oid] = ref.oid
            if heap is not None:
                self.alias_heap[oid] = heap
        return VRef(oid, ref.kind, ref.cls)

    def base_oid(self, oid):
        return self.old_alias.get(oid, oid)

    def rec(self, oid):
        if oid in self.old_alias:
            base = self.old_alias[oid]
            heap = self.alias_heap.get(oid, self.old_heap)
            r = heap.get(base)
            if r is None:
                f = self.templates.get(base)
                if f is None:
                    raise Unsupported(f"object allocated during the call has no old state")
                r = f()
                heap[base] = r
            return r
        r = self.heap.get(oid)
        if r is None:
            f = self.templates.get(oid)
            if f is None:
                raise Unsupported(f"dangling oid {oid}")
            r = f()
            sym = getattr(r, "sym", None)
            if sym and hasattr(r, "fields"):
                # an object of a map that a callee (used through its contract) may have modified: first touched after that call, its fields are the
                # post-call ones (fresh), not the entry values the template names
                for (prefix, tag) in reversed(getattr(self, "havoc_prefixes", [])):
                    if sym.startswith(prefix + "[") and sym.endswith("]"):
                        r.sym = f"{sym}@{tag}"
                        break
            self.heap[oid] = r
        return r

    def snapshot(self):
        return {k: v.copy() for k, v in self.heap.items()}

    def now(self, unit="datetime"):
        nm = self.fresh_name("now")
        t = z3.Real(nm)
        self.inputs[nm] = t
        if self.clock is not None:
            self.assume(t >= self.clock)
        if self.clock_first is None:
            self.clock_first = t
        self.clock = t
        return VReal(t, unit)


def next_forced(log):
    """DFS successor of a finished run's choice log, or None when the tree is exhausted"""
    i = len(log) - 1
    while i >= 0:
        n, k, feas, _ = log[i]
        if len(feas) != n:
            raise Unsupported("re-execution diverged (a forced decision met a different choice point): the engine must be deterministic")
        for j in range(k + 1, n):
            if feas[j]:
                return [(e[1], e[2]) for e in log[:i]] + [(j, feas)]
        i -= 1
    return None


class Frame:
    def __init__(self, relpath, ci, locals_=None, parent=None, fname=""):
        self.relpath = relpath
        self.ci = ci
        self.locals = locals_ if locals_ is not None else {}
        self.parent = parent       # enclosing frame for closures
        self.fname = fname
        self.exc_stack = []


from .interp import Interp   # noqa: E402  (the evaluator proper)
