"""Contract DSL. Pure Python, importable under both interpreters (prover: python3-vt, replay: /venv).

Contract files call these functions at import time; clause texts are Python expressions kept as
strings: the prover parses them with `ast` and translates them with the same expression translator as
the code under verification; the native replay `eval`s them against the real objects.
"""
from __future__ import annotations


class Contract:
    def __init__(self, target, prop, **kw):
        self.target = target            # "operon_ai/state/metabolism.py::ATP_Store.consume"
        self.prop = prop                # "C04"
        self.requires = list(kw.pop("requires", []))
        self.ensures = dict(kw.pop("ensures", {}))          # label -> expr  (normal exit)
        self.xensures = dict(kw.pop("xensures", {}))        # label -> expr  (exceptional exit; `exc` = class name)
        self.always = dict(kw.pop("always", {}))            # label -> expr  (every exit)
        self.raises = kw.pop("raises", None)                # None = unconstrained; list of class names allowed to escape
        self.modifies = kw.pop("modifies", None)            # None = unconstrained; list of "self.f" paths
        self.reads = kw.pop("reads", None)                  # None = unconstrained; fields of `self` the function may read (its result depends on nothing else)
        self.params = dict(kw.pop("params", {}))            # param -> type spec (overrides annotations)
        self.callbacks = dict(kw.pop("callbacks", {}))      # path -> callback spec
        self.callsite_pre = dict(kw.pop("callsite_pre", {}))  # callee pattern -> {label: expr}
        self.loops = dict(kw.pop("loops", {}))              # loop header text -> {invariant:[..], ...}
        self.ghost = dict(kw.pop("ghost", {}))              # ghost var -> initial expr
        self.ghost_updates = list(kw.pop("ghost_updates", []))  # [(event pattern, "name = expr")]
        self.locks = dict(kw.pop("locks", {}))
        self.inline = kw.pop("inline", True)                # callers inline the body instead of using the contract
        self.use_invariants = kw.pop("use_invariants", True)
        self.is_init = kw.pop("is_init", False)
        self.returns = kw.pop("returns", None)              # type spec of the result when used as callee contract
        self.self_type = kw.pop("self_type", None)
        self.pre_state = dict(kw.pop("pre_state", {}))      # path -> type override for this function only
        self.max_paths = kw.pop("max_paths", 4000)
        self.native = dict(kw.pop("native", {}))            # hints for native replay
        self.notes = kw.pop("notes", "")
        self.aux = set(kw.pop("aux", []))
        self.options = dict(kw.pop("options", {}))
        self.ghost_instances = list(kw.pop("ghost_instances", []))  # extra instantiations of the ghost params when used as a callee
        self.ghost_params = dict(kw.pop("ghost_params", {}))     # name -> type: arbitrary-but-fixed values (universal quantification by generalisation)
        self.counter_axioms = list(kw.pop("counter_axioms", []))   # [(elem class, "expr over counters c['name'] and n")]
        self.elem_facts = dict(kw.pop("elem_facts", {}))       # elem class -> ["fact over x"] assumed for every element (precondition)
        self.counters = dict(kw.pop("counters", {}))           # elem class -> {name: "pred over x"}
        self.ghost_exit = dict(kw.pop("ghost_exit", {}))         # "self.ghost_field" -> expr, applied at every exit before the clauses             # engine options, e.g. {"div": "uninterpreted"}                   # labels of auxiliary (non property-level) clauses
        if kw:
            raise TypeError(f"unknown contract keys: {sorted(kw)}")


class Registry:
    def __init__(self):
        self.shapes: dict[str, dict[str, str]] = {}
        self.invariants: dict[str, dict[str, str]] = {}
        self.config: dict[str, dict[str, str]] = {}
        self.contracts: dict[str, Contract] = {}
        self.constructors: dict[str, dict] = {}
        self.externals: dict[str, dict] = {}
        self.lemmas: list = []
        self.order: list[str] = []

    def clear(self):
        self.__init__()


REG = Registry()


def shape(cls: str, **fields: str):
    REG.shapes.setdefault(cls, {}).update(fields)


def invariant(cls: str, label: str, expr: str):
    REG.invariants.setdefault(cls, {})[label] = expr


def assume_config(cls: str, label: str, expr: str):
    """Configuration assumption: assumed for `self` on entry to every method under contract, and must be
    preserved (it is an invariant that the property statement grants, not one it demands)."""
    REG.config.setdefault(cls, {})[label] = expr


def contract(target: str, prop: str, **kw) -> Contract:
    variant = kw.pop("variant", None)       # a second contract on the same function under a different typing of its inputs
    c = Contract(target, prop, **kw)
    key = f"{prop}:{target}" + (f"#{variant}" if variant else "")
    c.variant = variant
    REG.contracts[key] = c
    REG.order.append(key)
    return c


def lemma(prop: str, name: str, vars: dict, assume: list, prove: str, note: str = ""):
    """A lemma over the specification functions only (no code): `assume` => `prove` for all values of `vars`."""
    REG.lemmas.append({"prop": prop, "name": name, "vars": dict(vars), "assume": list(assume), "prove": prove, "note": note})


def construct(cls: str, module: str, init: dict, post=None):
    """How the native replay builds a benign instance of `cls` before overwriting fields from a model."""
    REG.constructors[cls] = {"module": module, "init": init, "post": post}


def implies(a, b):
    return (not a) or bool(b)


def iff(a, b):
    return bool(a) == bool(b)
