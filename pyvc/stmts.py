"""Statement execution."""
from __future__ import annotations
import ast
import z3
from .values import *
from . import engine as E


class StmtMixin:
    def exec_block(self, stmts, frame):
        for st in stmts:
            self.exec(st, frame)

    def exec(self, node, frame):
        m = getattr(self, "s_" + type(node).__name__, None)
        if m is None:
            raise E.Unsupported(f"statement {type(node).__name__}")
        return m(node, frame)

    def s_Expr(self, node, frame):
        if isinstance(node.value, ast.Constant):
            return
        self.eval(node.value, frame)

    def s_Pass(self, node, frame):
        pass

    def s_Import(self, node, frame):
        for a in node.names:
            frame.locals[a.asname or a.name.split(".")[0]] = VModule(a.name if a.asname else a.name.split(".")[0])

    def s_ImportFrom(self, node, frame):
        for a in node.names:
            org = ("." * node.level) + (node.module or "") + "." + a.name
            if node.level or (node.module or "").startswith("operon_ai"):
                ci = self.repo.find_class(a.name, frame.relpath)
                if ci is not None:
                    frame.locals[a.asname or a.name] = self.class_value(ci)
                    continue
                rp = self.repo._resolve_import(frame.relpath, org)
                if rp:
                    m2 = self.repo.module(rp)
                    if a.name in m2.functions:
                        frame.locals[a.asname or a.name] = VFunc(m2.functions[a.name], None, None, rp, a.name)
                        continue
                raise E.Unsupported(f"import {org}")
            frame.locals[a.asname or a.name] = self.stdlib_name(org)

    def s_Assign(self, node, frame):
        v = self.eval(node.value, frame)
        for t in node.targets:
            self.assign_target(t, v, frame)

    def s_AnnAssign(self, node, frame):
        if node.value is not None:
            self.assign_target(node.target, self.eval(node.value, frame), frame)

    def s_AugAssign(self, node, frame):
        t = node.target
        if isinstance(t, ast.Name):
            cur = self.lookup(t.id, frame)
            self.set_local(t.id, self.aug(node.op, cur, self.eval(node.value, frame)), frame)
        elif isinstance(t, ast.Attribute):
            obj = self.eval(t.value, frame)
            cur = self.getattr(obj, t.attr, frame)
            val = self.aug(node.op, cur, self.eval(node.value, frame))
            if not (isinstance(cur, VRef) and isinstance(val, VRef) and cur.oid == val.oid):
                self.setattr(obj, t.attr, val)
        elif isinstance(t, ast.Subscript):
            obj = self.eval(t.value, frame)
            idx = self.eval(t.slice, frame)
            cur = self.subscript(obj, idx)
            self.store_subscript(obj, idx, self.aug(node.op, cur, self.eval(node.value, frame)))
        else:
            raise E.Unsupported("augassign target")

    def aug(self, op, cur, val):
        if isinstance(cur, VRef) and cur.kind == "list" and isinstance(op, ast.Add):
            for x in self.iterate_concrete(val):
                self.list_append(cur, x)
            return cur
        if isinstance(cur, VRef) and cur.kind == "set" and isinstance(op, ast.BitOr):
            try:
                items = self.iterate_concrete(val)
            except E.Unsupported:
                return self.binop(op, cur, val)       # symbolic union: a new set value (rebinding is equivalent for a local)
            if not self.run.rec(cur.oid).concrete:
                return self.binop(op, cur, self.new_set(items))
            for x in items:
                self.set_add(cur, x)
            return cur
        return self.binop(op, cur, val)

    def set_local(self, name, v, frame):
        # python scoping: assignment binds in the current function frame unless declared nonlocal
        nl = getattr(frame, "nonlocals", None)
        if nl and name in nl:
            f = frame.parent
            while f is not None:
                if name in f.locals:
                    f.locals[name] = v
                    return
                f = f.parent
        frame.locals[name] = v

    def assign_target(self, t, v, frame):
        if isinstance(t, ast.Name):
            self.set_local(t.id, v, frame)
        elif isinstance(t, ast.Attribute):
            self.setattr(self.eval(t.value, frame), t.attr, v)
        elif isinstance(t, ast.Subscript):
            obj = self.eval(t.value, frame)
            if isinstance(t.slice, ast.Slice):
                raise E.Unsupported("slice assignment")
            self.store_subscript(obj, self.eval(t.slice, frame), v)
        elif isinstance(t, (ast.Tuple, ast.List)):
            items = self.unpack(v, len(t.elts))
            for tt, x in zip(t.elts, items):
                self.assign_target(tt, x, frame)
        else:
            raise E.Unsupported(f"assign target {type(t).__name__}")

    def unpack(self, v, n):
        v = self.force(v)
        if isinstance(v, VTuple):
            items = list(v.items)
        else:
            items = self.iterate_concrete(v)
        if len(items) != n:
            raise E.PyExc(VExc("ValueError"), "unpack")
        return items

    def store_subscript(self, obj, idx, v):
        if isinstance(obj, VRef) and obj.kind == "dict":
            self.fire("container_write", obj)
            return self.dict_set(obj, idx, v)
        if isinstance(obj, VRef) and obj.kind == "list":
            r = self.run.rec(obj.oid)
            k = self.concrete_int(idx) if isinstance(idx, VInt) else None
            if r.concrete and k is not None and -len(r.items) <= k < len(r.items):
                r.items[k] = v
                return
            if not r.concrete and r.arr is not None and isinstance(idx, VInt):
                n = r.length
                if not self.run.decide(z3.And(idx.t >= -n, idx.t < n), "index in range"):
                    raise E.PyExc(VExc("IndexError"), "list assignment index")
                r.arr = z3.Store(r.arr, z3.If(idx.t < 0, idx.t + n, idx.t), self.term_of(v, r.elem))
                return
        raise E.Unsupported(f"store subscript on {obj!r}")

    def s_Delete(self, node, frame):
        for t in node.targets:
            if isinstance(t, ast.Subscript):
                obj = self.eval(t.value, frame)
                idx = self.eval(t.slice, frame)
                if isinstance(obj, VRef) and obj.kind == "dict":
                    self.fire("container_write", obj)
                    self.dict_del(obj, idx)
                    continue
            if isinstance(t, ast.Name):
                frame.locals.pop(t.id, None)
                continue
            raise E.Unsupported("del target")

    def s_Return(self, node, frame):
        raise E._Return(self.eval(node.value, frame) if node.value is not None else NONE)

    def s_Break(self, node, frame):
        raise E._Break()

    def s_Continue(self, node, frame):
        raise E._Continue()

    PURE_BUILTINS = {"len", "min", "max", "abs", "int", "float", "str", "bool", "round"}

    def simple_expr(self, e):
        for n in ast.walk(e):
            if isinstance(n, ast.Call):
                if not (isinstance(n.func, ast.Name) and n.func.id in self.PURE_BUILTINS):
                    return False
            elif isinstance(n, (ast.Lambda, ast.ListComp, ast.SetComp, ast.DictComp, ast.GeneratorExp, ast.Await, ast.Yield,
                                ast.NamedExpr, ast.Starred)):
                return False
        return True

    def is_print(self, st):
        return isinstance(st, ast.Expr) and isinstance(st.value, ast.Call) and isinstance(st.value.func, ast.Name) \
            and st.value.func.id == "print"

    def mergeable_block(self, stmts):
        for st in stmts:
            if isinstance(st, ast.Pass) or self.is_print(st):
                continue
            if isinstance(st, ast.Expr) and isinstance(st.value, ast.Constant):
                continue
            if isinstance(st, ast.Expr) and isinstance(st.value, ast.Call) and isinstance(st.value.func, ast.Attribute) \
                    and st.value.func.attr == "append" and isinstance(st.value.func.value, ast.Name) \
                    and len(st.value.args) == 1 and not st.value.keywords and self.simple_expr(st.value.args[0]):
                continue      # local_list.append(simple): merged as a list whose length depends on the condition
            if isinstance(st, ast.If):
                if not (self.simple_expr(st.test) and self.mergeable_block(st.body) and self.mergeable_block(st.orelse)):
                    return False
                continue
            if isinstance(st, (ast.Assign, ast.AugAssign)):
                tg = st.targets if isinstance(st, ast.Assign) else [st.target]
                for t in tg:
                    if isinstance(t, ast.Name):
                        continue
                    if isinstance(t, ast.Attribute) and self.simple_expr(t.value):
                        continue
                    return False
                if not self.simple_expr(st.value):
                    return False
                continue
            return False
        return True

    def merge_value(self, c, a, b):
        """value that is `a` when c holds and `b` otherwise, or None if the kinds cannot be merged"""
        run = self.run
        if a is b:
            return a
        if isinstance(a, VRef) and isinstance(b, VRef):
            if a.oid == b.oid:
                return a
            if a.kind == b.kind == "list":
                ra, rb = run.rec(a.oid), run.rec(b.oid)
                if not ra.concrete and not rb.concrete and ra.elem == rb.elem and (ra.arr is None) == (rb.arr is None) \
                        and ra.elem[0] != "obj":
                    nr = ListRec(None, z3.If(c, ra.length, rb.length), ra.elem,
                                 None if ra.arr is None else z3.If(c, ra.arr, rb.arr), sym=ra.sym)
                    return VRef(run.alloc(nr), "list")
            return None
        if isinstance(a, VNone) and isinstance(b, VNone):
            return a
        if isinstance(a, VOpt) or isinstance(b, VOpt):
            return None
        if isinstance(a, VTuple) and isinstance(b, VTuple) and len(a.items) == len(b.items):
            xs = [self.merge_value(c, x, y) for x, y in zip(a.items, b.items)]
            return None if any(x is None for x in xs) else VTuple(xs)
        prim = (VInt, VReal, VBool, VStr, VEnum, VAny)
        if isinstance(a, prim) and isinstance(b, prim):
            if type(a) is type(b) or (isinstance(a, (VInt, VReal)) and isinstance(b, (VInt, VReal))):
                if isinstance(a, VEnum) and a.ename != b.ename:
                    return None
                if isinstance(a, VInt) != isinstance(b, VInt):
                    return None
                return self.ite(c, a, b)
        return None

    def try_merge_if(self, node, frame, t):
        """if-conversion of a side-effect-light `if`: run both branches speculatively and merge the states"""
        run = self.run
        nlog = len(run.log)
        heap0 = run.snapshot()
        locals0 = dict(frame.locals)
        next0 = run.next_oid

        def restore():
            run.heap = {k: v.copy() for k, v in heap0.items()}
            frame.locals.clear()
            frame.locals.update(locals0)

        def fail():
            restore()
            del run.log[nlog:]
            del run.trace[nlog:]
            return False

        def branch(cond, stmts):
            def thunk():
                self.exec_block(stmts, frame)
                return True
            try:
                r = self.under(cond, thunk, persist=False)
            except (E.PyExc, E._Return, E._Break, E._Continue):
                return "fail"
            if len(run.log) != nlog:
                return "fail"
            return "ok" if r else "infeasible"

        r1 = branch(t, node.body)
        if r1 == "fail":
            return fail()
        heap1, locals1 = run.heap, dict(frame.locals)
        restore()
        r2 = branch(z3.Not(t), node.orelse)
        if r2 == "fail":
            return fail()
        heap2, locals2 = run.heap, dict(frame.locals)
        if r1 == "infeasible" and r2 == "infeasible":
            raise E.PathEnd()
        if r1 == "infeasible":
            run.assume(z3.Not(t))
            return True
        if r2 == "infeasible":
            run.heap = heap1
            frame.locals.clear()
            frame.locals.update(locals1)
            run.assume(t)
            return True
        # merge (current heap is heap2; fold heap1 into it)
        merged_locals = {}
        for k in set(locals1) | set(locals2):
            if k not in locals1 or k not in locals2:
                return fail()          # a name bound on one side only
            run.heap = heap2
            # merged list records are allocated in heap2 but may reference heap1 records: make both visible
            for oid, rec in heap1.items():
                if oid not in heap2:
                    heap2[oid] = rec
            m = self.merge_value(t, locals1[k], locals2[k])
            if m is None:
                return fail()
            merged_locals[k] = m
        for oid in list(heap1):
            r1_, r2_ = heap1[oid], heap2.get(oid)
            if r2_ is None or r1_ is r2_:
                heap2.setdefault(oid, r1_)
                continue
            if isinstance(r1_, ObjRec) and isinstance(r2_, ObjRec):
                for f in set(r1_.fields) | set(r2_.fields):
                    v1, v2 = r1_.fields.get(f), r2_.fields.get(f)
                    if v1 is None or v2 is None:
                        # lazily materialised on one side only -- and possibly WRITTEN there afterwards: materialise the pre-state value on the
                        # other side too (same symbol by construction) and merge like any other field
                        saved_heap = run.heap
                        try:
                            run.heap = heap2 if v2 is None else heap1
                            missing = self.getattr(VRef(oid, "obj", r1_.cls), f)
                        except (E.Unsupported, E.PyExc):
                            run.heap = saved_heap
                            return fail()
                        finally:
                            run.heap = saved_heap
                        if v2 is None:
                            v2 = missing
                        else:
                            v1 = missing
                    m = self.merge_value(t, v1, v2)
                    if m is None:
                        return fail()
                    r2_.fields[f] = m
            elif isinstance(r1_, ListRec) and isinstance(r2_, ListRec):
                if r1_.concrete and r2_.concrete and len(r1_.items) == len(r2_.items) and all(x is y for x, y in zip(r1_.items, r2_.items)):
                    continue
                if r1_.concrete and r2_.concrete:
                    # one branch appended to a common prefix: a list whose length depends on the condition
                    short, long_ = (r1_, r2_) if len(r1_.items) <= len(r2_.items) else (r2_, r1_)
                    if all(x is y for x, y in zip(short.items, long_.items)) and all(isinstance(x, VStr) for x in long_.items):
                        arr = z3.K(z3.IntSort(), z3.StringVal(""))
                        for i_, x in enumerate(long_.items):
                            arr = z3.Store(arr, i_, x.t)
                        r2_.length = z3.If(t, z3.IntVal(len(r1_.items)), z3.IntVal(len(r2_.items)))
                        r2_.items = None
                        r2_.elem = ("str",)
                        r2_.arr = arr
                        r2_.sym = self.run.fresh_name("merged")
                        continue
                    return fail()
                if not r1_.concrete and not r2_.concrete and r1_.elem == r2_.elem == ("str",) and r1_.arr is not None and r2_.arr is not None:
                    r2_.arr = z3.If(t, r1_.arr, r2_.arr)
                    r2_.length = z3.If(t, r1_.length, r2_.length)
                    continue
                if not r1_.concrete and not r2_.concrete and r1_.arr is r2_.arr and r1_.elem == r2_.elem:
                    r2_.length = z3.If(t, r1_.length, r2_.length) if r1_.length is not r2_.length else r2_.length
                    continue
                return fail()
            elif isinstance(r1_, LockRec) and isinstance(r2_, LockRec):
                if r1_.held is not r2_.held and not z3.eq(r1_.held, r2_.held):
                    return fail()
            elif isinstance(r1_, DictRec) and isinstance(r2_, DictRec):
                same = (r1_.items == r2_.items) if r1_.concrete and r2_.concrete else \
                    (r1_.dom is r2_.dom and r1_.val is r2_.val and len(r1_.over) == len(r2_.over))
                if not same:
                    return fail()
            elif isinstance(r1_, SetRec) and isinstance(r2_, SetRec):
                same = (r1_.items == r2_.items) if r1_.concrete and r2_.concrete else r1_.dom is r2_.dom
                if not same:
                    return fail()
            else:
                return fail()
        run.heap = heap2
        frame.locals.clear()
        frame.locals.update(merged_locals)
        return True

    def s_If(self, node, frame):
        c = self.eval(node.test, frame)
        t = E.simp(self.truthy(c))
        if not (E.is_true(t) or E.is_false(t)) and self.mergeable_block(node.body) and self.mergeable_block(node.orelse) \
                and not getattr(self, "no_merge", False):
            if self.try_merge_if(node, frame, t):
                return
        if self.test(c, ast.unparse(node.test)):
            self.exec_block(node.body, frame)
        else:
            self.exec_block(node.orelse, frame)

    def s_Assert(self, node, frame):
        c = self.eval(node.test, frame)
        if not self.test(c, "assert " + ast.unparse(node.test)):
            raise E.PyExc(VExc("AssertionError"), "assert")

    def s_Raise(self, node, frame):
        if node.exc is None:
            if self.cur_exc:
                raise self.cur_exc[-1]
            raise E.PyExc(VExc("RuntimeError"), "bare raise")
        v = self.force(self.eval(node.exc, frame))
        if isinstance(v, VExcClass):
            v = VExc(v.name)
        if not isinstance(v, VExc):
            raise E.Unsupported(f"raise of {v!r}")
        if node.cause is not None:
            self.eval(node.cause, frame)
        raise E.PyExc(v, f"raise@{getattr(node, 'lineno', 0)}")

    def s_Global(self, node, frame):
        raise E.Unsupported("global")

    def s_Nonlocal(self, node, frame):
        if not hasattr(frame, "nonlocals"):
            frame.nonlocals = set()
        frame.nonlocals.update(node.names)

    def s_FunctionDef(self, node, frame):
        frame.locals[node.name] = VFunc(node, frame, frame.ci, frame.relpath, node.name)

    # ------------------------------------------------------------ try / with
    def exc_bases(self, name):
        o = E.BUILTIN_EXC.get(name)
        if o is not None:
            return [c.__name__ for c in o.__mro__]
        if name in E.EXTRA_EXC_BASES:
            return [name] + E.EXTRA_EXC_BASES[name]
        ci = self.repo.find_class(name)
        if ci is not None:
            return [name] + self.repo.exception_bases(ci)
        if name == "FrozenInstanceError":
            return [name, "AttributeError", "Exception", "BaseException"]
        return [name, "Exception", "BaseException"]

    def handler_classes(self, h, frame):
        if h.type is None:
            return ["BaseException"]
        v = self.eval(h.type, frame)
        if isinstance(v, VExcClass):
            return [v.name]
        if isinstance(v, VTuple):
            return [x.name for x in v.items if isinstance(x, VExcClass)]
        if isinstance(v, VModule):          # e.g. json.JSONDecodeError via module attr
            return [v.name.split(".")[-1]]
        raise E.Unsupported(f"except clause {ast.unparse(h.type)}")

    def matches(self, pe: E.PyExc, classes):
        """does the propagating exception match `except classes`? may fork for arbitrary exceptions."""
        bases = self.exc_bases(pe.exc.cls)
        if any(c in bases for c in classes):
            return True
        if pe.exc.arbitrary:
            # an arbitrary subclass of pe.exc.cls: may or may not be one of `classes`
            cands = [c for c in classes if pe.exc.cls in self.exc_bases(c) and c not in pe.excluded]
            for c in cands:
                if self.run.choose([("is", None), ("isnot", None)], f"raised {pe.exc.cls}* is {c}") == 0:
                    pe.exc = VExc(c, pe.exc.msg, arbitrary=True)
                    return True
                pe.excluded.add(c)
        return False

    def s_Try(self, node, frame):
        try:
            try:
                self.exec_block(node.body, frame)
            except E.PyExc as pe:
                handled = False
                for h in node.handlers:
                    if self.matches(pe, self.handler_classes(h, frame)):
                        handled = True
                        if h.name:
                            frame.locals[h.name] = pe.exc
                        self.cur_exc.append(pe)
                        try:
                            self.exec_block(h.body, frame)
                        finally:
                            self.cur_exc.pop()
                        break
                if not handled:
                    raise
            else:
                self.exec_block(node.orelse, frame)
        finally:
            if node.finalbody:
                # `finally` runs on every outcome; a PathEnd / Unsupported must not run it
                import sys
                et = sys.exc_info()[0]
                if et is None or issubclass(et, (E.PyExc, E._Return, E._Break, E._Continue)):
                    self.exec_block(node.finalbody, frame)

    def s_With(self, node, frame):
        if len(node.items) != 1:
            raise E.Unsupported("multi-item with")
        item = node.items[0]
        cm = self.force(self.eval(item.context_expr, frame))
        if isinstance(cm, VRef) and cm.kind == "lock":
            self.lock_acquire(cm, ast.unparse(item.context_expr))
            try:
                self.exec_block(node.body, frame)
            finally:
                import sys
                et = sys.exc_info()[0]
                if et is None or issubclass(et, (E.PyExc, E._Return, E._Break, E._Continue)):
                    self.lock_release(cm)
            return
        raise E.Unsupported(f"context manager {cm!r}")

    def lock_acquire(self, cm, text=""):
        rec = self.run.rec(cm.oid)
        if rec.kind == "Lock":
            self.oblige("lock-reentry", text, rec.held == 0, f"non-reentrant lock {text} acquired while held")
        rec.held = rec.held + 1
        self.run.held_locks.append(cm.oid)
        self.fire("lock_acquire", cm, text)

    def lock_release(self, cm):
        rec = self.run.rec(cm.oid)
        rec.held = rec.held - 1
        if cm.oid in self.run.held_locks:
            self.run.held_locks.remove(cm.oid)
        self.fire("lock_release", cm)

    # ------------------------------------------------------------ loops
    def s_While(self, node, frame):
        spec = self.loop_spec(node)
        if spec is not None:
            return self.cut_loop(node, frame, spec)
        # no invariant: bounded unrolling is unsound -> require concrete termination
        for _ in range(64):
            c = E.simp(self.truthy(self.eval(node.test, frame)))
            if E.is_false(c):
                self.exec_block(node.orelse, frame)
                return
            if not E.is_true(c):
                raise E.Unsupported(f"while loop without invariant: {ast.unparse(node.test)}")
            try:
                self.exec_block(node.body, frame)
            except E._Break:
                return
            except E._Continue:
                continue
        raise E.Unsupported("while loop: unrolling limit")

    def s_For(self, node, frame):
        node = self.index_loop_as_element_loop(node)
        spec = self.loop_spec(node)
        it = self.force(self.eval(node.iter, frame))
        items = None
        try:
            items = self.iter_items(it)
        except E.Unsupported:
            if spec is None:
                if self.partition_loop(node, frame):
                    return
                raise
        if items is not None and (spec is None or spec.get("unroll")):
            for x in items:
                self.assign_target(node.target, x, frame)
                try:
                    self.exec_block(node.body, frame)
                except E._Break:
                    return
                except E._Continue:
                    continue
            self.exec_block(node.orelse, frame)
            return
        return self.cut_for(node, frame, spec, it)

    def enclosing_function_of(self, node):
        """the function definition (of the module being executed) whose body contains this statement"""
        try:
            for rel, m in list(self.repo._mods.items()):
                for fn in ast.walk(m.tree):
                    if isinstance(fn, (ast.FunctionDef, ast.AsyncFunctionDef)) and fn.lineno <= node.lineno <= (fn.end_lineno or fn.lineno):
                        if any(n_ is node for n_ in ast.walk(fn)):
                            return fn
        except Exception:      # noqa
            pass
        return None

    def index_loop_as_element_loop(self, node):
        """`for i in range(len(X)): x = X[i]; BODY`  is  `for x in X: BODY`  when BODY does not use i, and  `for (i, x) in enumerate(X): BODY`  when it does
        (X a plain name / attribute path that BODY does not rebind).  The contract's loop specification is written for the element form; the index form
        is the same loop."""
        try:
            it = node.iter
            if not (isinstance(node.target, ast.Name) and isinstance(it, ast.Call) and isinstance(it.func, ast.Name) and it.func.id == "range"
                    and len(it.args) == 1 and not it.keywords and isinstance(it.args[0], ast.Call) and isinstance(it.args[0].func, ast.Name)
                    and it.args[0].func.id == "len" and len(it.args[0].args) == 1 and node.body and not node.orelse):
                return node
            X = it.args[0].args[0]
            if not isinstance(X, (ast.Name, ast.Attribute)):
                return node
            first = node.body[0]
            i = node.target.id
            if not (isinstance(first, ast.Assign) and len(first.targets) == 1 and isinstance(first.targets[0], ast.Name)
                    and isinstance(first.value, ast.Subscript) and ast.dump(first.value.value) == ast.dump(X)
                    and isinstance(first.value.slice, ast.Name) and first.value.slice.id == i):
                return node
            x = first.targets[0].id
            rest = node.body[1:]
            xtxt = ast.unparse(X)
            for st in rest:
                for n_ in ast.walk(st):
                    if isinstance(n_, ast.Name) and isinstance(n_.ctx, ast.Store) and n_.id in (i, x, xtxt):
                        return node
            uses_i = any(isinstance(n_, ast.Name) and n_.id == i for st in rest for n_ in ast.walk(st))
            if uses_i:
                tgt = ast.Tuple(elts=[ast.Name(id=i, ctx=ast.Store()), ast.Name(id=x, ctx=ast.Store())], ctx=ast.Store())
                new_iter = ast.Call(func=ast.Name(id="enumerate", ctx=ast.Load()), args=[X], keywords=[])
            else:
                tgt = ast.Name(id=x, ctx=ast.Store())
                new_iter = X
            new = ast.For(target=tgt, iter=new_iter, body=rest or [ast.Pass()], orelse=[], type_comment=None)
            ast.copy_location(new, node)
            ast.fix_missing_locations(new)
            return new
        except Exception:      # noqa
            return node

    def map_loop(self, node, frame, tgt):
        """`for x in L: t1 = e1(x); ...; acc.append(e(x, t1, ...))` with acc a local list that is empty when the loop starts: the explicit-loop form of
        acc = [e(x, e1(x), ...) for x in L]; executed as that comprehension (temporaries inlined; after the loop they hold arbitrary values)."""
        import copy as _copy
        body = node.body
        if not body or not isinstance(body[-1], ast.Expr) or not isinstance(body[-1].value, ast.Call):
            return False
        c = body[-1].value
        if not (isinstance(c.func, ast.Attribute) and c.func.attr == "append" and isinstance(c.func.value, ast.Name) and len(c.args) == 1 and not c.keywords):
            return False
        acc = c.func.value.id
        temps = {}
        for st in body[:-1]:
            if not (isinstance(st, ast.Assign) and len(st.targets) == 1 and isinstance(st.targets[0], ast.Name)):
                return False
            nm = st.targets[0].id
            if nm in (acc, tgt) or nm in temps:
                return False
            temps[nm] = st.value
        if not temps and isinstance(c.args[0], ast.Name) and c.args[0].id == tgt:
            return False        # plain copy / partition: handled by the caller
        cur = frame.locals.get(acc)
        if not (isinstance(cur, VRef) and cur.kind == "list" and self.run.rec(cur.oid).concrete and len(self.run.rec(cur.oid).items) == 0):
            return False
        for e_ in list(temps.values()) + [c.args[0]]:
            if any(isinstance(x_, (ast.NamedExpr, ast.Await, ast.Yield, ast.YieldFrom)) or (isinstance(x_, ast.Name) and x_.id == acc) for x_ in ast.walk(e_)):
                return False

        class Inline(ast.NodeTransformer):
            def __init__(self, env):
                self.env = env

            def visit_Name(self, n_):
                if isinstance(n_.ctx, ast.Load) and n_.id in self.env:
                    return _copy.deepcopy(self.env[n_.id])
                return n_
        env = {}
        for nm, e_ in temps.items():
            env[nm] = Inline(dict(env)).visit(_copy.deepcopy(e_))
        elt = Inline(env).visit(_copy.deepcopy(c.args[0]))
        comp = ast.ListComp(elt=elt, generators=[ast.comprehension(target=ast.Name(id=tgt, ctx=ast.Store()), iter=node.iter, ifs=[], is_async=0)])
        ast.copy_location(comp, node)
        ast.fix_missing_locations(comp)
        frame.locals[acc] = self.eval(comp, frame)
        for nm in temps:
            frame.locals[nm] = self.fresh(("any",), self.run.fresh_name(f"{nm}@after-loop"))
        return True

    def partition_loop(self, node, frame):
        """`for x in L: if c1(x): a.append(x) elif c2(x): b.append(x) ...` over a symbolic list, with a, b, ... local lists that are empty when
        the loop starts, is the explicit-loop form of the comprehensions  a = [x for x in L if c1(x)], b = [x for x in L if not c1(x) and c2(x)], ...
        and is executed as those (so the refactoring comprehension <-> loop does not need a loop contract).  Returns False when the loop is not
        of that shape."""
        if node.orelse:
            return False
        tuple_names = None
        if isinstance(node.target, ast.Tuple) and all(isinstance(e_, ast.Name) for e_ in node.target.elts):
            tuple_names = [e_.id for e_ in node.target.elts]       # `for a, b in L: if c: acc.append((a, b))`
            tgt = "|".join(tuple_names)
        elif isinstance(node.target, ast.Name):
            tgt = node.target.id
            if self.map_loop(node, frame, tgt):
                return True
        else:
            return False
        branches = []      # (test or None, accumulator name)

        def append_of(stmts_):
            if len(stmts_) != 1 or not isinstance(stmts_[0], ast.Expr) or not isinstance(stmts_[0].value, ast.Call):
                return None
            c = stmts_[0].value
            if not (isinstance(c.func, ast.Attribute) and c.func.attr == "append" and isinstance(c.func.value, ast.Name) and len(c.args) == 1 and not c.keywords):
                return None
            a0 = c.args[0]
            if tuple_names is None and isinstance(a0, ast.Name) and a0.id == tgt:
                return c.func.value.id
            if tuple_names is not None and isinstance(a0, ast.Tuple) and all(isinstance(e_, ast.Name) for e_ in a0.elts) \
                    and [e_.id for e_ in a0.elts] == tuple_names:
                return c.func.value.id
            return None
        body = node.body
        if len(body) != 1:
            return False
        st = body[0]
        if isinstance(st, ast.Expr):
            acc = append_of(body)
            if acc is None:
                return False
            branches.append((None, acc))
        else:
            while True:
                if not isinstance(st, ast.If):
                    return False
                acc = append_of(st.body)
                if acc is None:
                    return False
                branches.append((st.test, acc))
                if not st.orelse:
                    break
                if len(st.orelse) == 1 and isinstance(st.orelse[0], ast.If):
                    st = st.orelse[0]
                    continue
                acc = append_of(st.orelse)
                if acc is None:
                    return False
                branches.append((None, acc))
                break
        names = [a for _t, a in branches]
        if len(set(names)) != len(names) or tgt in names or (tuple_names is not None and set(tuple_names) & set(names)):
            return False
        for t_, _a in branches:
            if t_ is not None and any(isinstance(x_, (ast.NamedExpr, ast.Await, ast.Yield, ast.YieldFrom)) or
                                      (isinstance(x_, ast.Name) and x_.id in names) for x_ in ast.walk(t_)):
                return False
        for a in names:
            cur = frame.locals.get(a)
            if not (isinstance(cur, VRef) and cur.kind == "list"):
                return False
            r = self.run.rec(cur.oid)
            if not (r.concrete and len(r.items) == 0):
                return False
        # tests that compare ONE expression with pairwise different constants exclude each other: the `not earlier` conjuncts are redundant
        exclusive = False
        tests = [t_ for t_, _a in branches if t_ is not None]
        if tests and all(isinstance(t_, ast.Compare) and len(t_.ops) == 1 and isinstance(t_.ops[0], ast.Eq) for t_ in tests):
            lefts = {ast.unparse(t_.left) for t_ in tests}
            if len(lefts) == 1:
                try:
                    f0 = E.Frame(frame.relpath, frame.ci, {}, frame, frame.fname)
                    vals = [self.eval(t_.comparators[0], f0) for t_ in tests]
                    exclusive = all(E.is_false(E.simp(self.eq(vals[i], vals[j]))) for i in range(len(vals)) for j in range(i))
                except (E.Unsupported, E.PyExc):
                    exclusive = False
        earlier = []
        for t_, a in branches:
            conds = []
            if not exclusive:
                conds += [ast.UnaryOp(op=ast.Not(), operand=e_) for e_ in earlier]
            if t_ is not None:
                conds.append(t_)
                earlier.append(t_)
            if tuple_names is not None:
                elt_ = ast.Tuple(elts=[ast.Name(id=n_, ctx=ast.Load()) for n_ in tuple_names], ctx=ast.Load())
                tg_ = ast.Tuple(elts=[ast.Name(id=n_, ctx=ast.Store()) for n_ in tuple_names], ctx=ast.Store())
            else:
                elt_, tg_ = ast.Name(id=tgt, ctx=ast.Load()), ast.Name(id=tgt, ctx=ast.Store())
            comp = ast.ListComp(elt=elt_,
                                generators=[ast.comprehension(target=tg_, iter=node.iter,
                                                              ifs=[ast.BoolOp(op=ast.And(), values=conds)] if len(conds) > 1 else conds, is_async=0)])
            ast.copy_location(comp, node)
            ast.fix_missing_locations(comp)
            frame.locals[a] = self.eval(comp, frame)
        if "partition loop executed as the equivalent filter comprehensions" not in self.run.abstractions and False:
            pass
        return True

    def iter_items(self, it):
        if isinstance(it, VRef) and it.kind == "iter":
            raise E.Unsupported("iterator object")
        return self.iterate_concrete(it)

    def loop_header(self, node):
        if isinstance(node, ast.For):
            return f"for {ast.unparse(node.target)} in {ast.unparse(node.iter)}"
        return f"while {ast.unparse(node.test)}"

    def loop_spec(self, node):
        if self.contract is None:
            return None
        h = self.loop_header(node)
        specs = dict(getattr(self, "extra_loops", {}))
        specs.update(self.contract.loops)
        if h in specs:
            return specs[h]
        # the header text changed (refactoring or a defect in the bound itself): fall back to the loop's shape so that
        # the invariants still apply — same kind and, for `for`, same target; for `while`, same variables in the test
        if isinstance(node, ast.For):
            tgt = ast.unparse(node.target)
            cands = [k for k in specs if k.startswith(f"for {tgt} in ")]
            if not cands:
                # the function has exactly one `for` loop and the contract exactly one `for` specification: they are each other's, whatever the loop
                # variable and the iterable are called now (target names become aliases of the contract's names)
                root = getattr(self, "root_fnode", None)
                cur_fn = self.enclosing_function_of(node) or root
                fors = [n_ for n_ in ast.walk(cur_fn) if isinstance(n_, ast.For)] if cur_fn is not None else []
                fspecs = [k for k in specs if k.startswith("for ")]
                it_txt_ = ast.unparse(node.iter)
                root_fors = [n_ for n_ in ast.walk(root) if isinstance(n_, ast.For)] if root is not None else []
                own = cur_fn is root or not root_fors      # a callee's loop may only claim the specification when the function under contract has no loop of its own
                if own and len(fors) == 1 and len(fspecs) == 1 and not any(k.endswith(" in " + it_txt_) for k in fspecs):
                    k = fspecs[0]
                    try:
                        old_t = ast.parse(k[4:k.index(" in ")], mode="eval").body
                        olds = [n_.id for n_ in ast.walk(old_t) if isinstance(n_, ast.Name)]
                        news = [n_.id for n_ in ast.walk(node.target) if isinstance(n_, ast.Name)]
                        if len(olds) == len(news):
                            if not hasattr(self, "loop_alias"):
                                self.loop_alias = {}
                            self.loop_alias[id(node)] = dict(zip(olds, news))
                            cands.append(k)
                    except (SyntaxError, ValueError):
                        pass
            if not cands:
                # the loop variable(s) were renamed: same iterable, same target shape -- the contract's names for them become aliases
                it_txt = ast.unparse(node.iter)
                for k in specs:
                    if k.startswith("for ") and k.endswith(" in " + it_txt):
                        try:
                            old_t = ast.parse(k[4:-len(" in " + it_txt)], mode="eval").body
                        except SyntaxError:
                            continue
                        olds = [n.id for n in ast.walk(old_t) if isinstance(n, ast.Name)]
                        news = [n.id for n in ast.walk(node.target) if isinstance(n, ast.Name)]
                        if len(olds) == len(news) and ast.dump(old_t).replace("'", "").count("Name") == ast.dump(node.target).count("Name"):
                            if not hasattr(self, "loop_alias"):
                                self.loop_alias = {}
                            self.loop_alias[id(node)] = dict(zip(olds, news))
                            cands.append(k)
        else:
            names = {n.id for n in ast.walk(node.test) if isinstance(n, ast.Name)} | \
                    {n.attr for n in ast.walk(node.test) if isinstance(n, ast.Attribute)}
            cands = []
            for k in specs:
                if k.startswith("while "):
                    try:
                        kn = ast.parse(k[6:], mode="eval")
                    except SyntaxError:
                        continue
                    knames = {n.id for n in ast.walk(kn) if isinstance(n, ast.Name)} | \
                             {n.attr for n in ast.walk(kn) if isinstance(n, ast.Attribute)}
                    if knames == names:
                        cands.append(k)
        if len(cands) == 1:
            return specs[cands[0]]
        return None

    def cut_loop(self, node, frame, spec):
        raise E.Unsupported("while-loop cut not available")

    def cut_for(self, node, frame, spec, it):
        raise E.Unsupported("for-loop cut not available")
