"""Statement execution."""
from __future__ import annotations
import ast
import z3
from .values import *
from . import engine as E


class StmtMixin:
    def exec_block(self, stmts, frame):
        for st in stmts:
            self.exec(st, frame)

    def exec(self, node, frame):
        m = getattr(self, "s_" + type(node).__name__, None)
        if m is None:
            raise E.Unsupported(f"statement {type(node).__name__}")
        return m(node, frame)

    def s_Expr(self, node, frame):
        if isinstance(node.value, ast.Constant):
            return
        self.eval(node.value, frame)

    def s_Pass(self, node, frame):
        pass

    def s_Import(self, node, frame):
        for a in node.names:
            frame.locals[a.asname or a.name.split(".")[0]] = VModule(a.name if a.asname else a.name.split(".")[0])

    def s_ImportFrom(self, node, frame):
        for a in node.names:
            org = ("." * node.level) + (node.module or "") + "." + a.name
            if node.level or (node.module or "").startswith("operon_ai"):
                ci = self.repo.find_class(a.name, frame.relpath)
                if ci is not None:
                    frame.locals[a.asname or a.name] = self.class_value(ci)
                    continue
                rp = self.repo._resolve_import(frame.relpath, org)
                if rp:
                    m2 = self.repo.module(rp)
                    if a.name in m2.functions:
                        frame.locals[a.asname or a.name] = VFunc(m2.functions[a.name], None, None, rp, a.name)
                        continue
                raise E.Unsupported(f"import {org}")
            frame.locals[a.asname or a.name] = self.stdlib_name(org)

    def s_Assign(self, node, frame):
        v = self.eval(node.value, frame)
        for t in node.targets:
            self.assign_target(t, v, frame)

    def s_AnnAssign(self, node, frame):
        if node.value is not None:
            self.assign_target(node.target, self.eval(node.value, frame), frame)

    def s_AugAssign(self, node, frame):
        t = node.target
        if isinstance(t, ast.Name):
            cur = self.lookup(t.id, frame)
            self.set_local(t.id, self.aug(node.op, cur, self.eval(node.value, frame)), frame)
        elif isinstance(t, ast.Attribute):
            obj = self.eval(t.value, frame)
            cur = self.getattr(obj, t.attr, frame)
            val = self.aug(node.op, cur, self.eval(node.value, frame))
            if not (isinstance(cur, VRef) and isinstance(val, VRef) and cur.oid == val.oid):
                self.setattr(obj, t.attr, val)
        elif isinstance(t, ast.Subscript):
            obj = self.eval(t.value, frame)
            idx = self.eval(t.slice, frame)
            cur = self.subscript(obj, idx)
            self.store_subscript(obj, idx, self.aug(node.op, cur, self.eval(node.value, frame)))
        else:
            raise E.Unsupported("augassign target")

    def aug(self, op, cur, val):
        if isinstance(cur, VRef) and cur.kind == "list" and isinstance(op, ast.Add):
            for x in self.iterate_concrete(val):
                self.list_append(cur, x)
            return cur
        if isinstance(cur, VRef) and cur.kind == "set" and isinstance(op, ast.BitOr):
            for x in self.iterate_concrete(val):
                self.set_add(cur, x)
            return cur
        return self.binop(op, cur, val)

    def set_local(self, name, v, frame):
        # python scoping: assignment binds in the current function frame unless declared nonlocal
        nl = getattr(frame, "nonlocals", None)
        if nl and name in nl:
            f = frame.parent
            while f is not None:
                if name in f.locals:
                    f.locals[name] = v
                    return
                f = f.parent
        frame.locals[name] = v

    def assign_target(self, t, v, frame):
        if isinstance(t, ast.Name):
            self.set_local(t.id, v, frame)
        elif isinstance(t, ast.Attribute):
            self.setattr(self.eval(t.value, frame), t.attr, v)
        elif isinstance(t, ast.Subscript):
            obj = self.eval(t.value, frame)
            if isinstance(t.slice, ast.Slice):
                raise E.Unsupported("slice assignment")
            self.store_subscript(obj, self.eval(t.slice, frame), v)
        elif isinstance(t, (ast.Tuple, ast.List)):
            items = self.unpack(v, len(t.elts))
            for tt, x in zip(t.elts, items):
                self.assign_target(tt, x, frame)
        else:
            raise E.Unsupported(f"assign target {type(t).__name__}")

    def unpack(self, v, n):
        if isinstance(v, VTuple):
            items = list(v.items)
        else:
            items = self.iterate_concrete(v)
        if len(items) != n:
            raise E.PyExc(VExc("ValueError"), "unpack")
        return items

    def store_subscript(self, obj, idx, v):
        if isinstance(obj, VRef) and obj.kind == "dict":
            self.fire("container_write", obj)
            return self.dict_set(obj, idx, v)
        if isinstance(obj, VRef) and obj.kind == "list":
            r = self.run.rec(obj.oid)
            k = self.concrete_int(idx) if isinstance(idx, VInt) else None
            if r.concrete and k is not None and -len(r.items) <= k < len(r.items):
                r.items[k] = v
                return
            if not r.concrete and r.arr is not None and isinstance(idx, VInt):
                n = r.length
                if not self.run.decide(z3.And(idx.t >= -n, idx.t < n), "index in range"):
                    raise E.PyExc(VExc("IndexError"), "list assignment index")
                r.arr = z3.Store(r.arr, z3.If(idx.t < 0, idx.t + n, idx.t), self.term_of(v, r.elem))
                return
        raise E.Unsupported(f"store subscript on {obj!r}")

    def s_Delete(self, node, frame):
        for t in node.targets:
            if isinstance(t, ast.Subscript):
                obj = self.eval(t.value, frame)
                idx = self.eval(t.slice, frame)
                if isinstance(obj, VRef) and obj.kind == "dict":
                    self.fire("container_write", obj)
                    self.dict_del(obj, idx)
                    continue
            if isinstance(t, ast.Name):
                frame.locals.pop(t.id, None)
                continue
            raise E.Unsupported("del target")

    def s_Return(self, node, frame):
        raise E._Return(self.eval(node.value, frame) if node.value is not None else NONE)

    def s_Break(self, node, frame):
        raise E._Break()

    def s_Continue(self, node, frame):
        raise E._Continue()

    def is_print_only(self, stmts):
        return bool(stmts) and all(isinstance(st, ast.Expr) and isinstance(st.value, ast.Call)
                                   and isinstance(st.value.func, ast.Name) and st.value.func.id == "print"
                                   for st in stmts)

    def s_If(self, node, frame):
        c = self.eval(node.test, frame)
        if not node.orelse and self.is_print_only(node.body):
            # effect-free body: no need to fork unless evaluating the printed text can raise or branch
            run = self.run
            t = E.simp(self.truthy(c))
            if E.is_false(t):
                return
            nlog, npc = len(run.log), len(run.pc)
            saved_dec = dict(run.decided)
            run.solver.push()
            ok = False
            try:
                if not E.is_true(t):
                    run.pc.append(t)
                    run.solver.add(t)
                try:
                    self.exec_block(node.body, frame)
                    ok = len(run.log) == nlog
                except (E.PyExc, E.PathEnd):
                    ok = False
            finally:
                run.solver.pop()
                del run.pc[npc:]
                del run.log[nlog:]
                del run.trace[nlog:]
                run.decided = saved_dec
            if ok:
                return
        if self.test(c, ast.unparse(node.test)):
            self.exec_block(node.body, frame)
        else:
            self.exec_block(node.orelse, frame)

    def s_Assert(self, node, frame):
        c = self.eval(node.test, frame)
        if not self.test(c, "assert " + ast.unparse(node.test)):
            raise E.PyExc(VExc("AssertionError"), "assert")

    def s_Raise(self, node, frame):
        if node.exc is None:
            if self.cur_exc:
                raise self.cur_exc[-1]
            raise E.PyExc(VExc("RuntimeError"), "bare raise")
        v = self.eval(node.exc, frame)
        if isinstance(v, VExcClass):
            v = VExc(v.name)
        if not isinstance(v, VExc):
            raise E.Unsupported(f"raise of {v!r}")
        if node.cause is not None:
            self.eval(node.cause, frame)
        raise E.PyExc(v, f"raise@{getattr(node, 'lineno', 0)}")

    def s_Global(self, node, frame):
        raise E.Unsupported("global")

    def s_Nonlocal(self, node, frame):
        if not hasattr(frame, "nonlocals"):
            frame.nonlocals = set()
        frame.nonlocals.update(node.names)

    def s_FunctionDef(self, node, frame):
        frame.locals[node.name] = VFunc(node, frame, frame.ci, frame.relpath, node.name)

    # ------------------------------------------------------------ try / with
    def exc_bases(self, name):
        o = E.BUILTIN_EXC.get(name)
        if o is not None:
            return [c.__name__ for c in o.__mro__]
        if name in E.EXTRA_EXC_BASES:
            return [name] + E.EXTRA_EXC_BASES[name]
        ci = self.repo.find_class(name)
        if ci is not None:
            return [name] + self.repo.exception_bases(ci)
        if name == "FrozenInstanceError":
            return [name, "AttributeError", "Exception", "BaseException"]
        return [name, "Exception", "BaseException"]

    def handler_classes(self, h, frame):
        if h.type is None:
            return ["BaseException"]
        v = self.eval(h.type, frame)
        if isinstance(v, VExcClass):
            return [v.name]
        if isinstance(v, VTuple):
            return [x.name for x in v.items if isinstance(x, VExcClass)]
        if isinstance(v, VModule):          # e.g. json.JSONDecodeError via module attr
            return [v.name.split(".")[-1]]
        raise E.Unsupported(f"except clause {ast.unparse(h.type)}")

    def matches(self, pe: E.PyExc, classes):
        """does the propagating exception match `except classes`? may fork for arbitrary exceptions."""
        bases = self.exc_bases(pe.exc.cls)
        if any(c in bases for c in classes):
            return True
        if pe.exc.arbitrary:
            # an arbitrary subclass of pe.exc.cls: may or may not be one of `classes`
            cands = [c for c in classes if pe.exc.cls in self.exc_bases(c) and c not in pe.excluded]
            for c in cands:
                if self.run.choose([("is", None), ("isnot", None)], f"raised {pe.exc.cls}* is {c}") == 0:
                    pe.exc = VExc(c, pe.exc.msg, arbitrary=True)
                    return True
                pe.excluded.add(c)
        return False

    def s_Try(self, node, frame):
        try:
            try:
                self.exec_block(node.body, frame)
            except E.PyExc as pe:
                handled = False
                for h in node.handlers:
                    if self.matches(pe, self.handler_classes(h, frame)):
                        handled = True
                        if h.name:
                            frame.locals[h.name] = pe.exc
                        self.cur_exc.append(pe)
                        try:
                            self.exec_block(h.body, frame)
                        finally:
                            self.cur_exc.pop()
                        break
                if not handled:
                    raise
            else:
                self.exec_block(node.orelse, frame)
        finally:
            if node.finalbody:
                # `finally` runs on every outcome; a PathEnd / Unsupported must not run it
                import sys
                et = sys.exc_info()[0]
                if et is None or issubclass(et, (E.PyExc, E._Return, E._Break, E._Continue)):
                    self.exec_block(node.finalbody, frame)

    def s_With(self, node, frame):
        if len(node.items) != 1:
            raise E.Unsupported("multi-item with")
        item = node.items[0]
        cm = self.eval(item.context_expr, frame)
        if isinstance(cm, VRef) and cm.kind == "lock":
            self.lock_acquire(cm, ast.unparse(item.context_expr))
            try:
                self.exec_block(node.body, frame)
            finally:
                import sys
                et = sys.exc_info()[0]
                if et is None or issubclass(et, (E.PyExc, E._Return, E._Break, E._Continue)):
                    self.lock_release(cm)
            return
        raise E.Unsupported(f"context manager {cm!r}")

    def lock_acquire(self, cm, text=""):
        rec = self.run.rec(cm.oid)
        if rec.kind == "Lock":
            self.oblige("lock-reentry", text, rec.held == 0, f"non-reentrant lock {text} acquired while held")
        rec.held = rec.held + 1
        self.run.held_locks.append(cm.oid)
        self.fire("lock_acquire", cm, text)

    def lock_release(self, cm):
        rec = self.run.rec(cm.oid)
        rec.held = rec.held - 1
        if cm.oid in self.run.held_locks:
            self.run.held_locks.remove(cm.oid)
        self.fire("lock_release", cm)

    # ------------------------------------------------------------ loops
    def s_While(self, node, frame):
        spec = self.loop_spec(node)
        if spec is not None:
            return self.cut_loop(node, frame, spec)
        # no invariant: bounded unrolling is unsound -> require concrete termination
        for _ in range(64):
            c = E.simp(self.truthy(self.eval(node.test, frame)))
            if E.is_false(c):
                self.exec_block(node.orelse, frame)
                return
            if not E.is_true(c):
                raise E.Unsupported(f"while loop without invariant: {ast.unparse(node.test)}")
            try:
                self.exec_block(node.body, frame)
            except E._Break:
                return
            except E._Continue:
                continue
        raise E.Unsupported("while loop: unrolling limit")

    def s_For(self, node, frame):
        spec = self.loop_spec(node)
        it = self.eval(node.iter, frame)
        items = None
        try:
            items = self.iter_items(it)
        except E.Unsupported:
            if spec is None:
                raise
        if items is not None and (spec is None or spec.get("unroll")):
            for x in items:
                self.assign_target(node.target, x, frame)
                try:
                    self.exec_block(node.body, frame)
                except E._Break:
                    return
                except E._Continue:
                    continue
            self.exec_block(node.orelse, frame)
            return
        return self.cut_for(node, frame, spec, it)

    def iter_items(self, it):
        if isinstance(it, VRef) and it.kind == "iter":
            raise E.Unsupported("iterator object")
        return self.iterate_concrete(it)

    def loop_header(self, node):
        if isinstance(node, ast.For):
            return f"for {ast.unparse(node.target)} in {ast.unparse(node.iter)}"
        return f"while {ast.unparse(node.test)}"

    def loop_spec(self, node):
        if self.contract is None:
            return None
        h = self.loop_header(node)
        for src in (self.contract.loops, getattr(self, "extra_loops", {})):
            if h in src:
                return src[h]
        return None

    def cut_loop(self, node, frame, spec):
        raise E.Unsupported("while-loop cut not available")

    def cut_for(self, node, frame, spec, it):
        raise E.Unsupported("for-loop cut not available")
