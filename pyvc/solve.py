"""Second back end: /usr/bin/cvc5 on the SMT-LIB dump of a query z3 left unknown."""
from __future__ import annotations
import os, subprocess, tempfile
import z3

CVC5 = "/usr/bin/cvc5"
STATS = {"cvc5_calls": 0, "cvc5_unsat": 0, "cvc5_sat": 0, "cvc5_unknown": 0}


def cvc5_check(assertions, timeout_s=20):
    """returns 'unsat' | 'sat' | 'unknown'"""
    if not os.path.exists(CVC5):
        return "unknown"
    s = z3.Solver()
    for a in assertions:
        s.add(a)
    smt = s.to_smt2()
    if "(declare-datatypes" in smt and "lambda" in smt:
        pass
    STATS["cvc5_calls"] += 1
    fd, path = tempfile.mkstemp(suffix=".smt2")
    try:
        with os.fdopen(fd, "w") as f:
            f.write("(set-logic ALL)\n" + smt)
        try:
            p = subprocess.run([CVC5, "--strings-exp", f"--tlimit={int(timeout_s * 1000)}", path],
                               capture_output=True, text=True, timeout=timeout_s + 5)
        except subprocess.TimeoutExpired:
            STATS["cvc5_unknown"] += 1
            return "unknown"
        out = p.stdout.strip().splitlines()
        r = out[0].strip() if out else "unknown"
        if r not in ("sat", "unsat"):
            r = "unknown"
        STATS["cvc5_" + r] += 1
        return r
    finally:
        try:
            os.unlink(path)
        except OSError:
            pass
