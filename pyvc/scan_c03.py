"""C03/scan[tool-call-sites]: every call `X.execute(...)` in operon_ai/** whose receiver flows from a tool registry
(`.tools[...]`, `.tools.get(...)`, iteration over `.tools`) lies in a function that is under a C03 contract with the
`authorised` call-site precondition — so an entry point added later is flagged until it is put under contract."""
import ast, json, os, sys
ROOT = os.path.dirname(os.path.dirname(os.path.abspath(__file__)))
sys.path.insert(0, ROOT)
REPO = os.environ.get("OPERON_REPO", "/repo")


def tool_receivers(fn):
    """names bound (syntactically) from a `.tools` registry inside fn"""
    names = set()
    for n in ast.walk(fn):
        if isinstance(n, ast.Assign) and ".tools" in ast.unparse(n.value):
            for t in n.targets:
                for x in ast.walk(t):
                    if isinstance(x, ast.Name):
                        names.add(x.id)
        if isinstance(n, (ast.For, ast.comprehension)) and ".tools" in ast.unparse(n.iter):
            for x in ast.walk(n.target):
                if isinstance(x, ast.Name):
                    names.add(x.id)
    return names


def main():
    from pyvc import spec as S
    from pyvc.verify import load_contract_module
    S.REG.clear()
    load_contract_module(os.path.join(ROOT, "contracts/C03_tools.py"))
    covered = {c.target for c in S.REG.contracts.values() if c.prop == "C03" and any(".execute" in k for k in c.callsite_pre)}
    sites, bad = [], []
    for dp, _dn, fns in os.walk(os.path.join(REPO, "operon_ai")):
        for f in sorted(fns):
            if not f.endswith(".py"):
                continue
            rel = os.path.relpath(os.path.join(dp, f), REPO)
            try:
                tree = ast.parse(open(os.path.join(dp, f), encoding="utf-8").read())
            except SyntaxError:
                continue
            for cls in [n for n in tree.body if isinstance(n, ast.ClassDef)] + [None]:
                body = cls.body if cls else tree.body
                for fn in [n for n in body if isinstance(n, (ast.FunctionDef, ast.AsyncFunctionDef))]:
                    recv = tool_receivers(fn)
                    for n in ast.walk(fn):
                        if isinstance(n, ast.Call) and isinstance(n.func, ast.Attribute) and n.func.attr in ("execute", "func"):
                            r = ast.unparse(n.func.value)
                            if ".tools" in r or r in recv:
                                qual = f"{rel}::{cls.name + '.' if cls else ''}{fn.name}"
                                sites.append(qual)
                                if qual not in covered:
                                    bad.append(f"{qual}:{n.lineno}: {ast.unparse(n)[:80]}")
    # a registered tool body is reachable ONLY through Tool.execute: the evaluator's allow-list tables cannot gain entries, and the callable
    # given to register_function flows nowhere but into the SimpleTool it builds
    from pyvc.scan_c01 import table_frame_violations
    bad2 = list(table_frame_violations())
    mt = ast.parse(open(os.path.join(REPO, "operon_ai/organelles/mitochondria.py"), encoding="utf-8").read())
    for cls in [n for n in mt.body if isinstance(n, ast.ClassDef) and n.name == "Mitochondria"]:
        for fn in [n for n in cls.body if isinstance(n, ast.FunctionDef) and n.name == "register_function"]:
            inside = set()
            for c in ast.walk(fn):
                if isinstance(c, ast.Call) and ast.unparse(c.func).split(".")[-1] == "SimpleTool":
                    for x in ast.walk(c):
                        inside.add(id(x))
            for x in ast.walk(fn):
                if isinstance(x, ast.Name) and x.id == "func" and isinstance(x.ctx, ast.Load) and id(x) not in inside:
                    bad2.append(f"operon_ai/organelles/mitochondria.py:{x.lineno}: register_function uses the tool body `func` outside the SimpleTool it builds")
    n_sites = max(1, len(sites)) + 1
    out = {"status": "ok" if not (bad or bad2) else "violation", "obligations": n_sites, "discharged": n_sites - len(bad) - (1 if bad2 else 0),
           "sites": sites}
    if bad2 and not bad:
        out["detail"] = "a tool body becomes reachable without the capability gate: " + "; ".join(bad2[:3])
        os.makedirs(os.path.join(ROOT, "replays"), exist_ok=True)
        json.dump({"property": "C03", "obligation": "C03/scan[tool-bodies-only-through-execute]", "sites": bad2,
                   "note": "structural obligation; see the bounded stand-in for a failing input"}, open(os.path.join(ROOT, "replays/C03-scan.json"), "w"), indent=1)
        out["replay"] = "replays/C03-scan.json"
    if bad:
        out["detail"] = "tool execution site outside every C03 contract: " + "; ".join(bad)
        os.makedirs(os.path.join(ROOT, "replays"), exist_ok=True)
        json.dump({"property": "C03", "obligation": "C03/scan[tool-call-sites]", "unchecked_sites": bad,
                   "note": "no-failing-input-found: structural obligation"}, open(os.path.join(ROOT, "replays/C03-scan.json"), "w"), indent=1)
        out["replay"] = "replays/C03-scan.json"
    print(json.dumps(out))


if __name__ == "__main__":
    main()
