"""Extraction of the verified text from /repo's working tree (re-read on every run).

Nothing is cached between runs: every call to `Repo.module()` parses the file as it is on disk now.
"""
from __future__ import annotations
import ast, hashlib, os

REPO = os.environ.get("OPERON_REPO", "/repo")


class ClassInfo:
    def __init__(self, mod: "ModuleInfo", node: ast.ClassDef):
        self.mod = mod
        self.node = node
        self.name = node.name
        self.bases = [ast.unparse(b) for b in node.bases]
        self.methods: dict[str, ast.FunctionDef] = {}
        self.properties: dict[str, ast.FunctionDef] = {}
        self.consts: dict[str, ast.expr] = {}
        self.ann_fields: list[tuple[str, ast.expr | None, ast.expr | None]] = []   # (name, annotation, default)
        self.is_dataclass = False
        self.frozen = False
        for d in node.decorator_list:
            s = ast.unparse(d)
            if s.startswith("dataclass"):
                self.is_dataclass = True
                if "frozen=True" in s:
                    self.frozen = True
        for st in node.body:
            if isinstance(st, (ast.FunctionDef, ast.AsyncFunctionDef)):
                decos = [ast.unparse(d) for d in st.decorator_list]
                if "property" in decos:
                    self.properties[st.name] = st
                else:
                    self.methods[st.name] = st
            elif isinstance(st, ast.Assign) and len(st.targets) == 1 and isinstance(st.targets[0], ast.Name):
                self.consts[st.targets[0].id] = st.value
            elif isinstance(st, ast.AnnAssign) and isinstance(st.target, ast.Name):
                self.ann_fields.append((st.target.id, st.annotation, st.value))
                if st.value is not None:
                    self.consts[st.target.id] = st.value
        self.is_enum = any(b.split(".")[-1] in ("Enum", "IntEnum", "StrEnum") for b in self.bases)
        self.is_exception = False   # resolved lazily by Repo.is_exception_class

    @property
    def enum_members(self) -> list[tuple[str, object]]:
        out = []
        for st in self.node.body:
            if isinstance(st, ast.Assign) and len(st.targets) == 1 and isinstance(st.targets[0], ast.Name):
                try:
                    v = ast.literal_eval(st.value)
                except Exception:
                    v = ast.unparse(st.value)
                out.append((st.targets[0].id, v))
        return out


class ModuleInfo:
    def __init__(self, relpath: str, src: str):
        self.relpath = relpath
        self.src = src
        self.tree = ast.parse(src)
        self.classes: dict[str, ClassInfo] = {}
        self.functions: dict[str, ast.FunctionDef] = {}
        self.consts: dict[str, ast.expr] = {}
        self.imports: dict[str, str] = {}     # local name -> dotted origin
        for st in self.tree.body:
            if isinstance(st, ast.ClassDef):
                self.classes[st.name] = ClassInfo(self, st)
            elif isinstance(st, (ast.FunctionDef, ast.AsyncFunctionDef)):
                self.functions[st.name] = st
            elif isinstance(st, ast.Assign) and len(st.targets) == 1 and isinstance(st.targets[0], ast.Name):
                self.consts[st.targets[0].id] = st.value
            elif isinstance(st, ast.AnnAssign) and isinstance(st.target, ast.Name) and st.value is not None:
                self.consts[st.target.id] = st.value
            elif isinstance(st, ast.Import):
                for a in st.names:
                    self.imports[a.asname or a.name.split(".")[0]] = a.name if a.asname else a.name.split(".")[0]
            elif isinstance(st, ast.ImportFrom):
                base = ("." * st.level) + (st.module or "")
                for a in st.names:
                    self.imports[a.asname or a.name] = base + "." + a.name


class Repo:
    """Fresh view of the working tree."""

    def __init__(self, root: str | None = None):
        self.root = root or REPO
        self._mods: dict[str, ModuleInfo] = {}
        self.extracted: dict[str, str] = {}    # qualname -> sha1 of source segment
        self.class_hint: dict[str, ClassInfo] = {}   # first module-relative resolution of a bare class name wins
        self.default_hint: str | None = None   # module of the function under verification

    def module(self, relpath: str) -> ModuleInfo:
        if relpath not in self._mods:
            with open(os.path.join(self.root, relpath), encoding="utf-8") as f:
                src = f.read()
            self._mods[relpath] = ModuleInfo(relpath, src)
        return self._mods[relpath]

    def find_class(self, name: str, hint: str | None = None) -> ClassInfo | None:
        """Resolve a class by bare name: hint module first, then its imports, then every loaded module,
        then a scan of operon_ai/."""
        if hint and not hint.startswith("<"):
            m = self.module(hint)
            if name in m.classes:
                self.class_hint.setdefault(name, m.classes[name])
                return m.classes[name]
            org = m.imports.get(name)
            if org:
                rp = self._resolve_import(hint, org)
                if rp:
                    c = self.find_class(name, None) if rp is True else self._class_in(rp, name)
                    if c is not None:
                        self.class_hint.setdefault(name, c)
                    return c
        if name in self.class_hint:
            return self.class_hint[name]
        if self.default_hint and self.default_hint != hint:
            c = self.find_class(name, self.default_hint)
            if c is not None:
                return c
        for m in list(self._mods.values()):
            if name in m.classes:
                return m.classes[name]
        for dp, _dn, fns in os.walk(os.path.join(self.root, "operon_ai")):
            for fn in sorted(fns):
                if fn.endswith(".py"):
                    rel = os.path.relpath(os.path.join(dp, fn), self.root)
                    try:
                        m = self.module(rel)
                    except SyntaxError:
                        continue
                    if name in m.classes:
                        return m.classes[name]
        return None

    def _class_in(self, relpath: str, name: str, depth: int = 0) -> ClassInfo | None:
        try:
            m = self.module(relpath)
        except (OSError, SyntaxError):
            return None
        if name in m.classes:
            return m.classes[name]
        org = m.imports.get(name)
        if org and depth < 4:
            rp = self._resolve_import(relpath, org)
            if rp and rp is not True:
                return self._class_in(rp, name, depth + 1)
        return None

    def _resolve_import(self, from_rel: str, origin: str):
        """origin like '..core.types.Signal' or 'operon_ai.core.types.Signal' -> module relpath"""
        parts = origin.split(".")
        if origin.startswith("."):
            level = len(origin) - len(origin.lstrip("."))
            base = os.path.dirname(from_rel)
            for _ in range(level - 1):
                base = os.path.dirname(base)
            modparts = [p for p in origin.lstrip(".").split(".")[:-1] if p]
            cand = os.path.join(base, *modparts)
        else:
            cand = os.path.join(*parts[:-1]) if len(parts) > 1 else parts[0]
        for c in (cand + ".py", os.path.join(cand, "__init__.py")):
            if os.path.exists(os.path.join(self.root, c)):
                return c
        return None

    def function_source(self, relpath: str, qual: str) -> tuple[ast.FunctionDef, ClassInfo | None]:
        m = self.module(relpath)
        if "." in qual:
            cn, fn = qual.split(".", 1)
            ci = m.classes.get(cn)
            if ci is None:
                raise KeyError(f"{relpath}::{qual}: class {cn} not found")
            if "." in fn:
                # a function nested in a method (a closure): Class.method.inner -- verified with its free variables as declared inputs
                outer, inner = fn.split(".", 1)
                on = self.lookup_method(ci, outer)
                if on is None:
                    raise KeyError(f"{relpath}::{qual}: method not found")
                found = [n for n in ast.walk(on[0]) if isinstance(n, ast.FunctionDef) and n.name == inner and n is not on[0]]
                if len(found) != 1:
                    raise KeyError(f"{relpath}::{qual}: nested function not found (or ambiguous)")
                self._record(relpath, qual, found[0], m if on[1] is ci else on[1].mod)
                return found[0], ci
            node = self.lookup_method(ci, fn)
            if node is None:
                raise KeyError(f"{relpath}::{qual}: method not found")
            self._record(relpath, qual, node[0], m if node[1] is ci else node[1].mod)
            return node[0], ci
        node = m.functions.get(qual)
        if node is None:
            raise KeyError(f"{relpath}::{qual}: function not found")
        self._record(relpath, qual, node, m)
        return node, None

    def _record(self, relpath, qual, node, m):
        seg = ast.get_source_segment(m.src, node) or ast.unparse(node)
        self.extracted[f"{relpath}::{qual}"] = hashlib.sha1(seg.encode()).hexdigest()[:12]

    def lookup_method(self, ci: ClassInfo, name: str):
        """MRO-ish lookup through repo-defined bases. Returns (node, defining ClassInfo) or None."""
        seen = set()
        stack = [ci]
        while stack:
            c = stack.pop(0)
            if c.name in seen:
                continue
            seen.add(c.name)
            if name in c.methods:
                return c.methods[name], c
            for b in c.bases:
                bn = b.split(".")[-1].split("[")[0]
                bc = self.find_class(bn, c.mod.relpath)
                if bc is not None:
                    stack.append(bc)
        return None

    def lookup_property(self, ci: ClassInfo, name: str):
        seen = set()
        stack = [ci]
        while stack:
            c = stack.pop(0)
            if c.name in seen:
                continue
            seen.add(c.name)
            if name in c.properties:
                return c.properties[name], c
            for b in c.bases:
                bc = self.find_class(b.split(".")[-1].split("[")[0], c.mod.relpath)
                if bc is not None:
                    stack.append(bc)
        return None

    def lookup_const(self, ci: ClassInfo, name: str):
        seen = set()
        stack = [ci]
        while stack:
            c = stack.pop(0)
            if c.name in seen:
                continue
            seen.add(c.name)
            if name in c.consts:
                return c.consts[name], c
            for b in c.bases:
                bc = self.find_class(b.split(".")[-1].split("[")[0], c.mod.relpath)
                if bc is not None:
                    stack.append(bc)
        return None

    def all_fields(self, ci: ClassInfo):
        """dataclass fields incl. inherited, in definition order"""
        out = []
        for b in ci.bases:
            bc = self.find_class(b.split(".")[-1].split("[")[0], ci.mod.relpath)
            if bc is not None and bc.is_dataclass:
                out.extend(self.all_fields(bc))
        names = [f[0] for f in out]
        for f in ci.ann_fields:
            if ast.unparse(f[1]).startswith("ClassVar"):
                continue
            if f[0] in names:
                out[names.index(f[0])] = f
            else:
                out.append(f)
        return out

    def is_exception_class(self, ci: ClassInfo) -> bool:
        import builtins
        for b in ci.bases:
            bn = b.split(".")[-1]
            o = getattr(builtins, bn, None)
            if isinstance(o, type) and issubclass(o, BaseException):
                return True
            bc = self.find_class(bn, ci.mod.relpath)
            if bc is not None and bc is not ci and self.is_exception_class(bc):
                return True
        return False

    def exception_bases(self, ci: ClassInfo) -> list[str]:
        """names of all (transitive) base classes"""
        import builtins
        out = []
        for b in ci.bases:
            bn = b.split(".")[-1]
            out.append(bn)
            o = getattr(builtins, bn, None)
            if isinstance(o, type):
                out.extend(c.__name__ for c in o.__mro__[1:])
            else:
                bc = self.find_class(bn, ci.mod.relpath)
                if bc is not None and bc is not ci:
                    out.extend(self.exception_bases(bc))
        return out
