"""Expression evaluation: operators, comparisons, truthiness, literals, comprehensions, f-strings."""
from __future__ import annotations
import ast
import z3
from .values import *
from . import engine as E


def _fn(name, *sorts):
    return z3.Function(name, *sorts)


class OpsMixin:
    # ------------------------------------------------------------ numeric helpers
    def num(self, v):
        """z3 Real term"""
        v = self.force(v)
        if isinstance(v, VReal):
            return v.t
        if isinstance(v, VInt):
            return z3.ToReal(v.t)
        if isinstance(v, VBool):
            return z3.If(v.t, z3.RealVal(1), z3.RealVal(0))
        raise E.Unsupported(f"not numeric: {v!r}")

    def intt(self, v):
        if isinstance(v, VInt):
            return v.t
        if isinstance(v, VBool):
            return z3.If(v.t, z3.IntVal(1), z3.IntVal(0))
        raise E.Unsupported(f"not int: {v!r}")

    def truthy(self, v):
        """z3 Bool"""
        if isinstance(v, VOpt):
            if v.forced is not None:
                return self.truthy(v.forced)
            if v.ty[0] in ("obj", "callback", "lock", "datetime", "enum"):
                return z3.Not(v.isnone)          # these are always truthy when present: no need to materialise
            return z3.And(z3.Not(v.isnone), self.truthy(v.get()))
        if isinstance(v, VBool):
            return v.t
        if isinstance(v, VInt):
            return v.t != 0
        if isinstance(v, VReal):
            return v.t != 0 if v.unit != "datetime" else z3.BoolVal(True)
        if isinstance(v, VStr):
            return z3.Length(v.t) > 0
        if isinstance(v, VNone):
            return z3.BoolVal(False)
        if isinstance(v, VTuple):
            return z3.BoolVal(len(v.items) > 0)
        if isinstance(v, VRef):
            if v.kind == "list":
                return self.list_len(v) > 0
            if v.kind == "dict":
                return self.dict_len(v) > 0
            if v.kind == "set":
                r = self.run.rec(v.oid)
                return z3.BoolVal(len(r.items) > 0) if r.concrete else r.size > 0
            if v.kind == "obj":
                rec = self.run.rec(v.oid)
                ci = self.repo.find_class(rec.cls)
                if ci is not None:
                    for dn in ("__bool__", "__len__"):
                        m = self.repo.lookup_method(ci, dn)
                        if m is not None:
                            r = self.call_function(VFunc(m[0], None, m[1], m[1].mod.relpath, dn), [v], {})
                            return self.truthy(r)
                return z3.BoolVal(True)
            return z3.BoolVal(True)
        if isinstance(v, VAny):
            return _fn("truthy", AnySort, z3.BoolSort())(v.t)
        if isinstance(v, (VCallback, VFunc, VBound, VBuiltin, VClass, VModule, VEnum, VExc, VExcClass)):
            return z3.BoolVal(True)
        raise E.Unsupported(f"truthiness of {v!r}")

    def test(self, v, label=""):
        return self.run.decide(self.truthy(v), label)

    # ------------------------------------------------------------ eval dispatch
    def eval(self, node, frame):
        m = getattr(self, "e_" + type(node).__name__, None)
        if m is None:
            raise E.Unsupported(f"expression {type(node).__name__}: {ast.unparse(node)[:60]}")
        return m(node, frame)

    def e_Constant(self, node, frame):
        v = node.value
        if isinstance(v, bool):
            return VBool(v)
        if isinstance(v, int):
            return VInt(v)
        if isinstance(v, float):
            if v in (float("inf"), float("-inf")) or v != v:
                raise E.Unsupported("non-finite float literal")
            return VReal(z3.RealVal(repr(v)))
        if isinstance(v, str):
            return VStr(v)
        if v is None:
            return NONE
        if v is Ellipsis:
            return NONE
        raise E.Unsupported(f"constant {v!r}")

    def e_Name(self, node, frame):
        return self.lookup(node.id, frame)

    def e_Attribute(self, node, frame):
        return self.getattr(self.eval(node.value, frame), node.attr, frame)

    def e_Tuple(self, node, frame):
        return VTuple(self.eval_seq(node.elts, frame))

    def e_List(self, node, frame):
        return self.new_list(self.eval_seq(node.elts, frame))

    def e_Set(self, node, frame):
        return self.new_set(self.eval_seq(node.elts, frame))

    def e_Dict(self, node, frame):
        pairs = []
        for k, v in zip(node.keys, node.values):
            if k is None:
                src = self.eval(v, frame)
                r = self.run.rec(src.oid)
                if not r.concrete:
                    raise E.Unsupported("** of symbolic dict")
                pairs.extend(r.items.values())
            else:
                pairs.append((self.eval(k, frame), self.eval(v, frame)))
        return self.new_dict(pairs)

    def eval_seq(self, elts, frame):
        out = []
        for e in elts:
            if isinstance(e, ast.Starred):
                out.extend(self.iterate_concrete(self.eval(e.value, frame)))
            else:
                out.append(self.eval(e, frame))
        return out

    def e_IfExp(self, node, frame):
        c = self.eval(node.test, frame)
        if self.pure:
            t = E.simp(self.truthy(c))
            if not (E.is_true(t) or E.is_false(t)):
                a = self.under(t, lambda: self.eval(node.body, frame))
                b = self.under(z3.Not(t), lambda: self.eval(node.orelse, frame))
                if a is None:
                    return b if b is not None else NONE
                if b is None:
                    return a
                return self.ite(t, a, b)
        if self.test(c, ast.unparse(node.test)):
            return self.eval(node.body, frame)
        return self.eval(node.orelse, frame)

    def ite(self, c, a, b):
        if a is b:
            return a
        a, b = self.force(a), self.force(b)
        if isinstance(a, VInt) and isinstance(b, VInt):
            return VInt(z3.If(c, a.t, b.t))
        if isinstance(a, (VInt, VReal)) and isinstance(b, (VInt, VReal)):
            return VReal(z3.If(c, self.num(a), self.num(b)), getattr(a, "unit", None))
        if isinstance(a, VBool) and isinstance(b, VBool):
            return VBool(z3.If(c, a.t, b.t))
        if isinstance(a, VStr) and isinstance(b, VStr):
            return VStr(z3.If(c, a.t, b.t))
        if isinstance(a, VEnum) and isinstance(b, VEnum) and a.ename == b.ename:
            return VEnum(a.ename, z3.If(c, a.t, b.t))
        if isinstance(a, VAny) and isinstance(b, VAny):
            return VAny(z3.If(c, a.t, b.t))
        if isinstance(a, VNone) and isinstance(b, VNone):
            return NONE
        if isinstance(a, VRef) and isinstance(b, VRef) and a.oid == b.oid:
            return a
        # incompatible kinds: fork
        return a if self.run.decide(c, "ite") else b

    def under(self, cond, thunk, persist=True):
        """evaluate thunk() with `cond` temporarily added to the path condition (guards partial expressions in specs);
        returns None when cond is infeasible"""
        run = self.run
        c = E.simp(cond)
        if E.is_true(c):
            return thunk()
        if E.is_false(c):
            return None
        run.solver.push()
        npc = len(run.pc)
        npers = len(run.persistent)
        saved = dict(run.decided)
        run.guard_depth += 1
        saved_unchecked = run.guard_unchecked
        run.guard_unchecked = 1
        if not persist:
            run.nopersist += 1
        try:
            run.pc.append(c)
            run.solver.add(c)
            # the guard's own satisfiability is only looked at when it matters (the guarded expression raises, or needs a decision): most guarded
            # sub-expressions of specifications are total, and their value is only ever used under the guard
            try:
                return thunk()
            except E.PathEnd:
                return None
            except E.PyExc:
                # a persisted decision may have made the guard itself infeasible: then nothing is claimed under it
                if run.check() == z3.unsat:
                    return None
                raise
        finally:
            run.guard_depth -= 1
            run.guard_unchecked = saved_unchecked if run.guard_unchecked else 0
            if not persist:
                run.nopersist -= 1
            del run.pc[npc:]
            run.solver.pop()
            run.decided = saved
            run.decided.update(run.decided_persist)
            # choices about input symbols made inside the guarded region (lazy materialisation) hold for the whole path
            for t_ in run.persistent[npers:]:
                run.pc.append(t_)
                run.solver.add(t_)

    def e_BoolOp(self, node, frame):
        is_and = isinstance(node.op, ast.And)
        if self.pure:
            # specification semantics: short-circuit by guarding later operands with the earlier ones
            vals = []
            guard = z3.BoolVal(True)
            for vn in node.values:
                v = self.under(guard, lambda vn=vn: self.eval(vn, frame))
                if v is None:
                    break
                vals.append(v)
                t = self.truthy(v)
                guard = E.simp(z3.And(guard, t if is_and else z3.Not(t)))
                if E.is_false(guard):
                    break
            if all(isinstance(v, VBool) for v in vals):
                ts = [v.t for v in vals]
                return VBool(E.simp(z3.And(ts) if is_and else z3.Or(ts)))
            res = vals[-1]
            for v in reversed(vals[:-1]):
                c = self.truthy(v)
                res = self.ite(c, res, v) if is_and else self.ite(c, v, res)
            return res
        if all(self.is_simple(v) for v in node.values):
            vals = [self.eval(vn, frame) for vn in node.values]
            if all(isinstance(v, VBool) for v in vals):
                ts = [v.t for v in vals]
                return VBool(E.simp(z3.And(ts) if is_and else z3.Or(ts)))
        last = None
        for vn in node.values:
            last = self.eval(vn, frame)
            t = self.test(last, ast.unparse(vn))
            if is_and and not t:
                return last
            if not is_and and t:
                return last
        return last

    def is_simple(self, node):
        """pure and total expression made of names, attribute reads of locals, constants, comparisons"""
        for n in ast.walk(node):
            if isinstance(n, (ast.Call, ast.Subscript, ast.Await, ast.Yield, ast.NamedExpr, ast.Lambda, ast.IfExp,
                              ast.ListComp, ast.SetComp, ast.DictComp, ast.GeneratorExp, ast.JoinedStr)):
                return False
            if isinstance(n, ast.BinOp) and isinstance(n.op, (ast.Div, ast.FloorDiv, ast.Mod, ast.Pow)):
                return False
            if isinstance(n, ast.Attribute):
                return False
        return True

    def e_UnaryOp(self, node, frame):
        v = self.eval(node.operand, frame)
        if isinstance(node.op, ast.Not):
            return VBool(E.simp(z3.Not(self.truthy(v))))
        v = self.force(v)
        if isinstance(node.op, ast.USub):
            if isinstance(v, VInt):
                return VInt(-v.t)
            if isinstance(v, VReal):
                return VReal(-v.t, v.unit)
            if isinstance(v, VBool):
                return VInt(-self.intt(v))
        if isinstance(node.op, ast.UAdd) and isinstance(v, (VInt, VReal)):
            return v
        if isinstance(v, VAny) and self.opt("opaque_any_methods") == "deterministic":
            iv = self.inject(v)
            ok = z3.Function(f"any_{type(node.op).__name__}#ok", AnySort, z3.BoolSort())(iv)
            if not self.run.decide(ok, f"{type(node.op).__name__} of an opaque operand succeeds"):
                raise E.PyExc(VExc("Exception", arbitrary=True), "opaque arithmetic")
            return VAny(z3.Function(f"any_{type(node.op).__name__}", AnySort, AnySort)(iv), "pyvalue")
        raise E.Unsupported(f"unary {type(node.op).__name__} on {v!r}")

    def unary(self, op, v):
        node = ast.UnaryOp(op=op, operand=ast.Name(id="__u", ctx=ast.Load()))
        return self.e_UnaryOp(node, E.Frame("<unary>", None, {"__u": v}, None, "unary"))

    def e_BinOp(self, node, frame):
        a = self.eval(node.left, frame)
        b = self.eval(node.right, frame)
        return self.binop(node.op, a, b)

    def binop(self, op, a, b):
        run = self.run
        a, b = self.force(a), self.force(b)
        if isinstance(a, VBool) and isinstance(b, (VInt, VReal, VBool)) or isinstance(b, VBool) and isinstance(a, (VInt, VReal)):
            if isinstance(a, VBool):
                a = VInt(self.intt(a))
            if isinstance(b, VBool):
                b = VInt(self.intt(b))
        if isinstance(a, (VInt, VReal)) and isinstance(b, (VInt, VReal)):
            both_int = isinstance(a, VInt) and isinstance(b, VInt)
            if isinstance(op, (ast.Add, ast.Sub, ast.Mult)):
                f = {ast.Add: lambda x, y: x + y, ast.Sub: lambda x, y: x - y, ast.Mult: lambda x, y: x * y}[type(op)]
                if both_int:
                    return VInt(f(a.t, b.t))
                unit = None
                ua, ub = getattr(a, "unit", None), getattr(b, "unit", None)
                if isinstance(op, ast.Sub) and ua == "datetime" and ub == "datetime":
                    unit = "timedelta"
                elif isinstance(op, (ast.Add, ast.Sub)) and "datetime" in (ua, ub):
                    unit = "datetime"
                elif "timedelta" in (ua, ub):
                    unit = "timedelta"
                return VReal(f(self.num(a), self.num(b)), unit)
            if isinstance(op, ast.Div):
                if run.decide(self.num(b) == 0, "divisor == 0"):
                    raise E.PyExc(VExc("ZeroDivisionError"), "division")
                ua, ub = getattr(a, "unit", None), getattr(b, "unit", None)
                unit = "timedelta" if ua == "timedelta" and ub is None else None
                den = E.simp(self.num(b))
                if self.opt("div") == "uninterpreted" and not z3.is_rational_value(den):
                    # sound over-approximation: quotient by a symbolic divisor is an uninterpreted real
                    # constrained only by sign facts (keeps queries linear; noted as an abstraction)
                    x = self.num(a)
                    q = _fn("rdiv", z3.RealSort(), z3.RealSort(), z3.RealSort())(x, den)
                    run.assume(z3.Implies(x == 0, q == 0))
                    run.assume(z3.Implies(z3.And(x > 0, den > 0), q > 0))
                    run.assume(z3.Implies(z3.And(x < 0, den > 0), q < 0))
                    run.assume(z3.Implies(z3.And(x >= 0, den > 0, x <= den), q <= 1))
                    if "real division abstracted" not in run.abstractions:
                        run.abstractions.append("real division abstracted")
                    return VReal(q, unit)
                return VReal(self.num(a) / self.num(b), unit)
            if isinstance(op, (ast.FloorDiv, ast.Mod)):
                if run.decide(self.num(b) == 0, "divisor == 0"):
                    raise E.PyExc(VExc("ZeroDivisionError"), "integer division or modulo")
                if both_int:
                    q = z3.If(b.t > 0, a.t / b.t, (-a.t) / (-b.t))
                    if isinstance(op, ast.FloorDiv):
                        return VInt(q)
                    return VInt(a.t - b.t * q)
                x, y = self.num(a), self.num(b)
                q = z3.ToReal(z3.ToInt(x / y))
                return VReal(q) if isinstance(op, ast.FloorDiv) else VReal(x - y * q)
            if isinstance(op, ast.Pow):
                eb = E.simp(b.t)
                if both_int and z3.is_int_value(eb) and 0 <= eb.as_long() <= 4:
                    t = z3.IntVal(1)
                    for _ in range(eb.as_long()):
                        t = t * a.t
                    return VInt(t)
                if isinstance(b, VInt) and z3.is_int_value(eb) and 0 <= eb.as_long() <= 4:
                    t = z3.RealVal(1)
                    for _ in range(eb.as_long()):
                        t = t * self.num(a)
                    return VReal(t)
                return VReal(_fn("pow_real", z3.RealSort(), z3.RealSort(), z3.RealSort())(self.num(a), self.num(b)))
        if isinstance(a, VStr) and isinstance(b, VStr) and isinstance(op, ast.Add):
            return VStr(z3.Concat(a.t, b.t), tuple(set(a.tags) | set(b.tags)))
        if isinstance(a, VStr) and isinstance(b, VInt) and isinstance(op, ast.Mult):
            k = self.concrete_int(b)
            if k is not None and k <= 8:
                t = z3.StringVal("")
                for _ in range(max(0, k)):
                    t = z3.Concat(t, a.t)
                return VStr(E.simp(t))
            return VStr(_fn("str_repeat", z3.StringSort(), z3.IntSort(), z3.StringSort())(a.t, b.t))
        if isinstance(a, VStr) and isinstance(op, ast.Mod):
            return VStr(z3.Const(run.fresh_name("fmt%"), z3.StringSort()))
        if isinstance(a, VRef) and isinstance(b, VRef) and a.kind == b.kind == "list" and isinstance(op, ast.Add):
            ra, rb = run.rec(a.oid), run.rec(b.oid)
            if ra.concrete and rb.concrete:
                return self.new_list(ra.items + rb.items)
            if ra.concrete != rb.concrete:
                sy, co = (ra, rb) if not ra.concrete else (rb, ra)
                nm = run.fresh_name("concat")
                nr = ListRec(None, sy.length + len(co.items), ("any",), None, sym=nm)
                return VRef(run.alloc(nr), "list")
            if not ra.concrete and not rb.concrete and ra.elem == rb.elem:
                nm = run.fresh_name("concat")
                nr = ListRec(None, ra.length + rb.length, ra.elem, None, sym=nm)
                nr.parts = (a.oid, b.oid)
                nr.preds = [p_ for p_ in ra.preds if p_ in rb.preds]
                return VRef(run.alloc(nr), "list")
            raise E.Unsupported("concat of symbolic lists")
        if isinstance(a, VTuple) and isinstance(b, VTuple) and isinstance(op, ast.Add):
            return VTuple(a.items + b.items)
        if isinstance(a, VRef) and isinstance(b, VRef) and a.kind == b.kind == "set":
            ra, rb = run.rec(a.oid), run.rec(b.oid)
            if ra.concrete and rb.concrete:
                if isinstance(op, ast.BitOr):
                    return self.new_set(ra.items + rb.items)
                if isinstance(op, ast.Sub):
                    out = []
                    for x in ra.items:
                        if not run.decide(self.set_contains(b, x), "in subtrahend"):
                            out.append(x)
                    return self.new_set(out)
                if isinstance(op, ast.BitAnd):
                    out = []
                    for x in ra.items:
                        if run.decide(self.set_contains(b, x), "in both"):
                            out.append(x)
                    return self.new_set(out)
        if isinstance(a, VRef) and isinstance(b, VRef) and a.kind == b.kind == "set":
            ra, rb = run.rec(a.oid), run.rec(b.oid)
            es = None
            for r_ in (ra, rb):
                if not r_.concrete:
                    es = r_.dom.sort().domain()
            if es is not None:
                x = z3.Const("x!setop", es)
                ma = self.set_contains(a, self.wrap(ra.etype if not ra.concrete else rb.etype, x))
                mb = self.set_contains(b, self.wrap(rb.etype if not rb.concrete else ra.etype, x))
                body = {ast.Sub: z3.And(ma, z3.Not(mb)), ast.BitOr: z3.Or(ma, mb), ast.BitAnd: z3.And(ma, mb)}.get(type(op))
                if body is not None:
                    nm = run.fresh_name("setop")
                    sz = z3.Int(nm + "#size")
                    run.assume(sz >= 0)
                    nr = SetRec(None, ra.etype if not ra.concrete else rb.etype, z3.Lambda([x], body), sym=nm, size=sz)
                    return VRef(run.alloc(nr), "set")
        if isinstance(a, VNone) or isinstance(b, VNone):
            raise E.PyExc(VExc("TypeError"), f"operand None for {type(op).__name__}")
        if isinstance(a, VAny) or isinstance(b, VAny):
            return self.any_binop(op, a, b)
        if type(a) is not type(b) and isinstance(a, (VStr, VInt, VReal)) and isinstance(b, (VStr, VInt, VReal)):
            raise E.PyExc(VExc("TypeError"), "operand types")
        raise E.Unsupported(f"binop {type(op).__name__} on {a!r}, {b!r}")

    def any_binop(self, op, a, b):
        if isinstance(op, (ast.BitOr, ast.BitAnd)) and isinstance(a, VAny) and isinstance(b, VAny):
            return VAny(z3.Function(f"any_{type(op).__name__}", AnySort, AnySort, AnySort)(a.t, b.t), a.tag)     # flag combination
        if self.opt("opaque_any_methods"):
            if self.opt("opaque_any_methods") == "deterministic":
                # Python's operators are (partial) FUNCTIONS of their operands: whether the operation raises is a predicate of the operands too
                ia, ib = self.inject(a), self.inject(b)
                ok = z3.Function(f"any_{type(op).__name__}#ok", AnySort, AnySort, z3.BoolSort())(ia, ib)
                if not self.run.decide(ok, f"{type(op).__name__} of opaque operands succeeds"):
                    raise E.PyExc(VExc("Exception", arbitrary=True), "opaque arithmetic")
                return VAny(z3.Function(f"any_{type(op).__name__}", AnySort, AnySort, AnySort)(ia, ib), "pyvalue")
            if self.run.choose([("ok", None), ("TypeError", None)], "opaque arithmetic"):
                raise E.PyExc(VExc("TypeError"), "opaque arithmetic")
            f = z3.Function(f"any_{type(op).__name__}", AnySort, AnySort, AnySort)
            return VAny(f(self.inject(a), self.inject(b)), "pyvalue")
        raise E.Unsupported("arithmetic on opaque value")

    # ------------------------------------------------------------ comparisons
    def e_Compare(self, node, frame):
        left = self.eval(node.left, frame)
        terms = []
        for op, rn in zip(node.ops, node.comparators):
            right = self.eval(rn, frame)
            t = self.compare(op, left, right)
            if len(node.ops) == 1:
                return VBool(E.simp(t))
            terms.append(t)
            if not self.pure and not self.is_simple(node):
                if not self.run.decide(t, ast.unparse(node)):
                    return VBool(False)
            left = right
        return VBool(E.simp(z3.And(terms)))

    def compare(self, op, a, b):
        if not isinstance(op, (ast.Is, ast.IsNot, ast.Eq, ast.NotEq)):
            a, b = self.force(a), self.force(b)
        elif isinstance(op, (ast.In, ast.NotIn)):
            a, b = self.force(a), self.force(b)
        if isinstance(op, ast.Eq):
            return self.eq(a, b)
        if isinstance(op, ast.NotEq):
            return z3.Not(self.eq(a, b))
        if isinstance(op, (ast.Is, ast.IsNot)):
            t = self.identical(a, b)
            return t if isinstance(op, ast.Is) else z3.Not(t)
        if isinstance(op, (ast.In, ast.NotIn)):
            t = self.contains(b, a)
            return t if isinstance(op, ast.In) else z3.Not(t)
        if isinstance(a, VBool):
            a = VInt(self.intt(a))
        if isinstance(b, VBool):
            b = VInt(self.intt(b))
        if isinstance(a, (VInt, VReal)) and isinstance(b, (VInt, VReal)):
            if isinstance(a, VInt) and isinstance(b, VInt):
                x, y = a.t, b.t
            else:
                x, y = self.num(a), self.num(b)
            return {ast.Lt: x < y, ast.LtE: x <= y, ast.Gt: x > y, ast.GtE: x >= y}[type(op)]
        if isinstance(a, VStr) and isinstance(b, VStr):
            return {ast.Lt: a.t < b.t, ast.LtE: a.t <= b.t, ast.Gt: b.t < a.t, ast.GtE: b.t <= a.t}[type(op)]
        if isinstance(a, VEnum) and isinstance(b, VEnum) and a.ename == b.ename:
            # enums with int values compare by value (IntEnum) — else TypeError
            va, vb = self.enum_value(a), self.enum_value(b)
            if isinstance(va, VInt):
                ci = self.repo.find_class(a.ename)
                if any(x.endswith("IntEnum") for x in ci.bases):
                    return self.compare(op, va, vb)
                # plain Enum with custom __lt__ etc.
                dn = {ast.Lt: "__lt__", ast.LtE: "__le__", ast.Gt: "__gt__", ast.GtE: "__ge__"}[type(op)]
                m = self.repo.lookup_method(ci, dn)
                if m is not None:
                    r = self.call_function(VFunc(m[0], None, m[1], m[1].mod.relpath, dn), [a, b], {})
                    return self.truthy(r)
            raise E.PyExc(VExc("TypeError"), "enum ordering")
        if isinstance(a, VNone) or isinstance(b, VNone):
            raise E.PyExc(VExc("TypeError"), "ordering with None")
        if (isinstance(a, VAny) or isinstance(b, VAny)) and self.opt("opaque_any_methods") == "deterministic":
            ia, ib = self.inject(a), self.inject(b)
            ok = z3.Function(f"any_cmp_{type(op).__name__}#ok", AnySort, AnySort, z3.BoolSort())(ia, ib)
            if not self.run.decide(ok, f"{type(op).__name__} of opaque operands succeeds"):
                raise E.PyExc(VExc("Exception", arbitrary=True), "opaque comparison")
            return z3.Function(f"any_cmp_{type(op).__name__}", AnySort, AnySort, z3.BoolSort())(ia, ib)
        if (isinstance(a, VAny) or isinstance(b, VAny)) and self.opt("opaque_any_methods"):
            if self.run.choose([("ok", None), ("TypeError", None)], "opaque comparison"):
                raise E.PyExc(VExc("TypeError"), "opaque comparison")
            return z3.Function(f"any_cmp_{type(op).__name__}", AnySort, AnySort, z3.BoolSort())(self.inject(a), self.inject(b))
        if isinstance(a, VRef) and isinstance(b, VRef) and a.kind == b.kind == "set" and isinstance(op, ast.LtE):
            return self.subset(a, b)
        if isinstance(a, VTuple) and isinstance(b, VTuple) and len(a.items) == len(b.items) == 2:
            lt = self.compare(ast.Lt(), a.items[0], b.items[0])
            eq0 = self.eq(a.items[0], b.items[0])
            return z3.Or(lt, z3.And(eq0, self.compare(op, a.items[1], b.items[1]))) if isinstance(op, (ast.Lt, ast.LtE)) else \
                z3.Or(self.compare(ast.Gt(), a.items[0], b.items[0]), z3.And(eq0, self.compare(op, a.items[1], b.items[1])))
        raise E.Unsupported(f"compare {type(op).__name__} {a!r} {b!r}")

    def subset(self, a, b):
        ra, rb = self.run.rec(a.oid), self.run.rec(b.oid)
        if ra.concrete:
            return z3.And([self.set_contains(b, x) for x in ra.items] or [z3.BoolVal(True)])
        if not rb.concrete and ra.dom.sort() == rb.dom.sort():
            x = z3.Const("x!sub", ra.dom.sort().domain())
            return z3.ForAll([x], z3.Implies(z3.Select(ra.dom, x), z3.Select(rb.dom, x)))
        if rb.concrete:
            x = z3.Const("x!sub", ra.dom.sort().domain())
            return z3.ForAll([x], z3.Implies(z3.Select(ra.dom, x),
                                              z3.Or([x == self.term_of(y, ra.etype) for y in rb.items] or [z3.BoolVal(False)])))
        raise E.Unsupported("subset")

    def identical(self, a, b):
        for x, y in ((a, b), (b, a)):
            if isinstance(x, VOpt) and x.forced is None and isinstance(y, VNone):
                return x.isnone
        a, b = self.force(a), self.force(b)
        if isinstance(a, VNone) or isinstance(b, VNone):
            return z3.BoolVal(isinstance(a, VNone) and isinstance(b, VNone))
        if isinstance(a, VRef) and isinstance(b, VRef):
            return z3.BoolVal(self.run.base_oid(a.oid) == self.run.base_oid(b.oid))
        if isinstance(a, VEnum) and isinstance(b, VEnum):
            return self.eq(a, b)
        if isinstance(a, VBool) and isinstance(b, VBool):
            return a.t == b.t
        if isinstance(a, VClass) and isinstance(b, VClass):
            return z3.BoolVal(a.name == b.name)
        if isinstance(a, VAny) and isinstance(b, VAny):
            return a.t == b.t
        if type(a) is not type(b):
            if isinstance(a, VAny) or isinstance(b, VAny):
                return self.eq(a, b)
            return z3.BoolVal(False)
        return self.eq(a, b)

    def contains(self, cont, x):
        cont = self.force(cont)
        if isinstance(cont, VTuple):
            return z3.Or([self.eq(x, y) for y in cont.items] or [z3.BoolVal(False)])
        if isinstance(cont, VStr):
            if isinstance(x, VStr):
                return z3.Contains(cont.t, x.t)
            raise E.PyExc(VExc("TypeError"), "in <str> requires str")
        if isinstance(cont, VRef):
            if cont.kind == "dict":
                return self.dict_contains(cont, x)
            if cont.kind == "set":
                return self.set_contains(cont, x)
            if cont.kind == "list":
                r = self.run.rec(cont.oid)
                if r.concrete:
                    return z3.Or([self.eq(x, y) for y in r.items] or [z3.BoolVal(False)])
                if r.memfn is not None or (r.mem is not None and r.elem[0] == "tuple"):
                    return self.list_member_term(r, x)
                if r.mem is not None:
                    return z3.Select(r.mem, self.term_of(x, r.elem))       # ghost membership set (exact under append)
                if r.arr is not None:
                    i = z3.Int("i!in")
                    return z3.Exists([i], z3.And(i >= 0, i < r.length, z3.Select(r.arr, i) == self.term_of(x, r.elem)))
        if isinstance(cont, VNone):
            raise E.PyExc(VExc("TypeError"), "in None")
        if isinstance(cont, VAny) and self.opt("opaque_any_methods"):
            isd = z3.Function("isinstance_dict", AnySort, z3.BoolSort())(cont.t)
            if not self.run.decide(z3.Or(isd, z3.Function("is_container", AnySort, z3.BoolSort())(cont.t)), "opaque is a container"):
                raise E.PyExc(VExc("TypeError"), "argument of opaque type is not iterable")
            return z3.Function("any_contains", AnySort, AnySort, z3.BoolSort())(cont.t, self.inject(x))
        raise E.Unsupported(f"contains {cont!r}")

    # ------------------------------------------------------------ subscripts / slices
    def e_Subscript(self, node, frame):
        v = self.force(self.eval(node.value, frame))
        if isinstance(node.slice, ast.Slice):
            if node.slice.step is not None:
                raise E.Unsupported("slice step")
            lo = self.eval(node.slice.lower, frame) if node.slice.lower is not None else None
            hi = self.eval(node.slice.upper, frame) if node.slice.upper is not None else None
            return self.slice_of(v, lo, hi)
        return self.subscript(v, self.eval(node.slice, frame))

    # ------------------------------------------------------------ strings
    def to_str(self, v):
        v = self.force(v)
        if isinstance(v, VStr):
            return v
        if isinstance(v, VInt):
            t = E.simp(v.t)
            if z3.is_int_value(t):
                return VStr(str(t.as_long()))
            self.run.opaque_strings = True      # the text of a symbolic number is an uninterpreted function of it (never compared with CPython's)
            return VStr(_fn("str_of_int", z3.IntSort(), z3.StringSort())(v.t))
        if isinstance(v, VReal):
            self.run.opaque_strings = True
            return VStr(_fn("str_of_real", z3.RealSort(), z3.StringSort())(v.t))
        if isinstance(v, VBool):
            return VStr(z3.If(v.t, z3.StringVal("True"), z3.StringVal("False")))
        if isinstance(v, VNone):
            return VStr("None")
        if isinstance(v, VEnum):
            return VStr(z3.Concat(z3.StringVal(v.ename + "."), self.enum_name(v).t))
        if isinstance(v, VAny):
            self.run.opaque_strings = True
            return VStr(_fn("str_of_any", AnySort, z3.StringSort())(v.t))
        if isinstance(v, VExc):
            self.run.opaque_strings = True
            if v.msg is not None and isinstance(v.msg, VStr):
                return v.msg
            return VStr(z3.Const(self.run.fresh_name("str(exc)"), z3.StringSort()))
        self.run.opaque_strings = True
        return VStr(z3.Const(self.run.fresh_name("str"), z3.StringSort()))

    def e_JoinedStr(self, node, frame):
        parts = []
        for p in node.values:
            if isinstance(p, ast.Constant):
                parts.append(z3.StringVal(p.value))
            else:
                v = self.eval(p.value, frame)
                if p.format_spec is not None or p.conversion != -1:
                    if p.format_spec is not None:
                        self.eval(p.format_spec, frame)
                    if isinstance(v, VStr) and p.conversion == -1:
                        pass
                    self.run.opaque_strings = True
                    parts.append(z3.Const(self.run.fresh_name("fmt"), z3.StringSort()))
                else:
                    parts.append(self.to_str(v).t)
        if not parts:
            return VStr("")
        t = parts[0] if len(parts) == 1 else z3.Concat(*parts)
        return VStr(E.simp(t))

    def e_FormattedValue(self, node, frame):
        return self.to_str(self.eval(node.value, frame))

    # ------------------------------------------------------------ lambdas / comprehensions
    def e_Lambda(self, node, frame):
        return VFunc(node, frame, frame.ci if frame else None, frame.relpath if frame else None, "<lambda>")

    def iterate_concrete(self, v):
        """python list of SVs for a concretely-shaped iterable, else Unsupported"""
        v = self.force(v)
        if isinstance(v, VTuple):
            if v.items and isinstance(v.items[0], VStr) and z3.is_string_value(E.simp(v.items[0].t)) and E.simp(v.items[0].t).as_string().startswith("#"):
                # an iteration VIEW (range / reversed / enumerate / dict items ...) is not a tuple of its parts
                tag = E.simp(v.items[0].t).as_string()
                if tag == "#range" and all(isinstance(a, VInt) and z3.is_int_value(E.simp(a.t)) for a in v.items[1:]):
                    return [VInt(i) for i in range(*[E.simp(a.t).as_long() for a in v.items[1:]])]
                if tag in ("#reversed",):
                    return list(reversed(self.iterate_concrete(v.items[1])))
                if tag == "#enumerate":
                    st = E.simp(v.items[2].t).as_long() if z3.is_int_value(E.simp(v.items[2].t)) else None
                    if st is not None:
                        return [VTuple([VInt(i + st), x]) for i, x in enumerate(self.iterate_concrete(v.items[1]))]
                if tag in ("#dictitems", "#dictkeys", "#dictvalues"):
                    r = self.run.rec(v.items[1].oid)
                    if r.concrete:
                        return [k if tag == "#dictkeys" else (val if tag == "#dictvalues" else VTuple([k, val])) for k, val in r.items.values()]
                raise E.Unsupported(f"iteration over symbolic view {tag}")
            return list(v.items)
        if isinstance(v, VRef):
            r = self.run.rec(v.oid)
            if v.kind == "list" and r.concrete:
                return list(r.items)
            if v.kind == "set" and r.concrete:
                return list(r.items)
            if v.kind == "dict" and r.concrete:
                return [k for k, _v in r.items.values()]
        if isinstance(v, VStr):
            t = E.simp(v.t)
            if z3.is_string_value(t):
                return [VStr(c) for c in t.as_string()]
        if isinstance(v, VClass) and v.info is not None and v.info.is_enum:
            return [self.enum_member(v.name, m) for m, _ in v.info.enum_members]
        raise E.Unsupported(f"iteration over symbolic {v!r}")

    def comp_iter(self, gens, frame, body):
        """run `body(frame)` for every binding of the (concrete) comprehension generators"""
        if not gens:
            body(frame)
            return
        g = gens[0]
        it = self.force(self.eval(g.iter, frame))
        for x in self.iterate_concrete(it):
            f2 = E.Frame(frame.relpath, frame.ci, {}, frame, frame.fname)
            self.assign_target(g.target, x, f2)
            if all(self.test(self.eval(c, f2), ast.unparse(c)) for c in g.ifs):
                self.comp_iter(gens[1:], f2, body)

    def e_ListComp(self, node, frame):
        sym = self.try_symbolic_comp(node, frame)
        if sym is not None and isinstance(node, ast.ListComp) and isinstance(sym.src, VRef) and sym.src.kind == "list":
            # materialised comprehension over a symbolic list: a filter keeps a sub-sequence (length <= source),
            # a map keeps the length; the elements themselves are abstracted (fresh)
            run = self.run
            r = run.rec(sym.src.oid)
            g = node.generators[0]
            is_filter = isinstance(node.elt, ast.Name) and isinstance(g.target, ast.Name) and node.elt.id == g.target.id
            # [(a, b) for a, b in L if f(a, b)]: the same filter written with an unpacked target
            unpacked_filter = (isinstance(node.elt, ast.Tuple) and isinstance(g.target, ast.Tuple) and r.elem[0] == "tuple" and len(g.ifs) >= 1
                               and all(isinstance(e_, ast.Name) for e_ in node.elt.elts + g.target.elts)
                               and [e_.id for e_ in node.elt.elts] == [e_.id for e_ in g.target.elts] and len(g.target.elts) == len(r.elem) - 1
                               and (r.mem is not None or r.memfn is not None))
            if unpacked_filter:
                return self.filtered_tuple_list(node, g, frame, r)
            nm = run.fresh_name(f"{r.sym}#comp")
            n = z3.Int(nm + "#len")
            run.inputs[nm + "#len"] = n
            if g.ifs:
                run.assume(z3.And(n >= 0, n <= r.length))
            else:
                run.assume(n == r.length)
            if "comprehension over a symbolic list abstracted (length relation only)" not in run.abstractions:
                run.abstractions.append("comprehension over a symbolic list abstracted (length relation only)")
            nr = ListRec(None, n, r.elem if is_filter else ("any",), None, sym=nm)
            if nr.elem[0] in ("int", "real", "bool", "str", "enum", "any", "datetime", "timedelta"):
                nr.arr = z3.Array(nm + "#arr", z3.IntSort(), self.sort_of(nr.elem))
            if is_filter and r.elem[0] == "obj" and g.ifs:
                # the filtered list: its length is the registered counter for that predicate (if any), every element
                # satisfies the filter and whatever held for all source elements
                var = g.target.id

                class Ren(ast.NodeTransformer):
                    def visit_Name(self, n_):
                        return ast.copy_location(ast.Name(id="x", ctx=n_.ctx), n_) if n_.id == var else n_
                import copy as _copy
                ftexts = [ast.unparse(Ren().visit(_copy.deepcopy(c))) for c in g.ifs]
                env = {k_: v_ for k_, v_ in self.visible_locals(frame).items() if k_ != var}
                nr.preds = list(r.preds) + [(t_, env) for t_ in ftexts]
                base = r.origin or (r.sym, [])
                nr.origin = (base[0], list(base[1]) + ftexts)
                if len(ftexts) == 1 and self.contract is not None:
                    for cn, ptext in self.contract.counters.get(r.elem[1], {}).items():
                        if ast.unparse(ast.parse(ptext, mode="eval").body) == ftexts[0] and cn in r.cnt:
                            run.assume(n == r.cnt[cn])
            return VRef(run.alloc(nr), "list")
        if sym is not None:
            return sym
        out = []
        self.comp_iter(node.generators, frame, lambda f: out.append(self.eval(node.elt, f)))
        return self.new_list(out)

    e_GeneratorExp = e_ListComp

    def filtered_tuple_list(self, node, g, frame, r):
        """[(a, b) for a, b in L if f(a, b)] over a symbolic list of scalar tuples: a sub-sequence of L whose membership is exact --
        x in result <=> x in L and f(x) -- provided f is a pure comparison of the components (checked: no calls in the filter)"""
        run = self.run
        for c in g.ifs:
            if any(isinstance(x_, (ast.Call, ast.Await, ast.NamedExpr)) for x_ in ast.walk(c)):
                raise E.Unsupported("filter comprehension with calls over a symbolic tuple list")
        nm = run.fresh_name(f"{r.sym}#filtered")
        n = z3.Int(nm + "#len")
        run.inputs[nm + "#len"] = n
        run.assume(z3.And(n >= 0, n <= r.length))
        # the filter is evaluated once on an arbitrary element so that a raising filter is seen
        probe = self.fresh(r.elem, run.fresh_name(nm + "#probe"))
        f0 = E.Frame(frame.relpath, frame.ci, {}, frame, frame.fname)
        self.assign_target(g.target, probe, f0)
        for c in g.ifs:
            self.truthy(self.eval(c, f0))
        src_mem, src_memfn, src_elem = r.mem, r.memfn, r.elem
        src_len = r.length
        interp = self

        def memfn(x):
            x = interp.force(x)
            if not (isinstance(x, VTuple) and len(x.items) == len(src_elem) - 1):
                return z3.BoolVal(False) if not isinstance(x, VAny) else z3.Bool(run.fresh_name("mem?"))
            base = src_memfn(x) if src_memfn is not None else z3.Select(src_mem, interp.inject(x))
            f2 = E.Frame(frame.relpath, frame.ci, {}, frame, frame.fname)
            interp.pure += 1
            try:
                interp.assign_target(g.target, x, f2)
                conds = [interp.truthy(interp.eval(c, f2)) for c in g.ifs]
            finally:
                interp.pure -= 1
            return z3.And(base, *conds)
        nr = ListRec(None, n, r.elem, None, sym=nm)
        nr.memfn = memfn
        if src_mem is not None and src_memfn is None:
            if not hasattr(run, "mem_queried"):
                run.mem_queried, run.mem_derived = {}, {}
            run.mem_derived.setdefault(src_mem.get_id(), []).append((memfn, n))
            for x_ in run.mem_queried.get(src_mem.get_id(), []):
                run.assume(z3.Implies(memfn(x_), n > 0), persist=True)
        # an empty source or an all-rejecting filter gives an empty result; nothing else is said about the length
        return VRef(run.alloc(nr), "list")

    def try_symbolic_comp(self, node, frame):
        if len(node.generators) != 1:
            return None
        g = node.generators[0]
        try:
            it = self.force(self.eval(g.iter, frame))
        except E.Unsupported:
            return None
        if isinstance(it, VRef) and it.kind in ("list", "set", "dict") and not self.run.rec(it.oid).concrete:
            return VGen(node, frame, it)
        return None

    def e_SetComp(self, node, frame):
        sym = self.try_symbolic_comp(node, frame)
        if sym is not None:
            return sym
        out = []
        self.comp_iter(node.generators, frame, lambda f: out.append(self.eval(node.elt, f)))
        return self.new_set(out)

    def abstract_comp(self, node, frame, kind):
        """a dict/set comprehension over a symbolic iterable: key / value expressions are evaluated for ONE arbitrary element (so that their
        reads, ownership and call-site obligations are generated), the result is an unconstrained container of the right type"""
        if len(node.generators) != 1:
            return None
        g = node.generators[0]
        it = self.force(self.eval(g.iter, frame))
        try:
            self.iterate_concrete(it)
            return None
        except E.Unsupported:
            pass
        run = self.run
        n, elem = self.iter_view(it, node, frame)
        k = z3.Int(run.fresh_name("k!comp"))
        tys = []

        def one():
            f2 = E.Frame(frame.relpath, frame.ci, {}, frame, frame.fname)
            self.assign_target(g.target, elem(k), f2)
            for c in g.ifs:
                self.truthy(self.eval(c, f2))
            if kind == "dict":
                tys.append((self.type_of_value(self.eval(node.key, f2)), self.type_of_value(self.eval(node.value, f2))))
            else:
                tys.append((self.type_of_value(self.eval(node.elt, f2)),))
            return True
        self.under(z3.And(k >= 0, k < n), one, persist=False)
        if "comprehension over a symbolic container abstracted (unconstrained result)" not in run.abstractions:
            run.abstractions.append("comprehension over a symbolic container abstracted (unconstrained result)")
        nm = run.fresh_name("comp")
        if kind == "dict":
            kt, vt = tys[0] if tys and all(tys[0]) else (("any",), ("any",))
            if kt[0] not in ("str", "int", "enum"):
                kt = ("str",)
            if vt is None or vt[0] in ("obj", "list", "dict", "set", "tuple", "callback"):
                vt = ("any",)
            return self.fresh(("dict", kt, vt), nm)
        et = tys[0][0] if tys and tys[0][0] else ("any",)
        return self.fresh(("set", et if et[0] in ("str", "int", "enum") else ("any",)), nm)

    def e_DictComp(self, node, frame):
        ab = self.abstract_comp(node, frame, "dict")
        if ab is not None:
            return ab
        sym = self.try_symbolic_comp(node, frame)
        if sym is not None:
            return sym
        out = []
        self.comp_iter(node.generators, frame, lambda f: out.append((self.eval(node.key, f), self.eval(node.value, f))))
        return self.new_dict(out)

    def e_Call(self, node, frame):
        return self.eval_call(node, frame)

    def e_Starred(self, node, frame):
        raise E.Unsupported("starred expression")

    def e_NamedExpr(self, node, frame):
        v = self.eval(node.value, frame)
        frame.locals[node.target.id] = v
        return v
