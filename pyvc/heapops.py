"""Attribute / subscript access and container operations on the symbolic heap."""
from __future__ import annotations
import ast
import z3
from .values import *
from . import engine as E

PRIM = ("int", "real", "bool", "str", "enum", "any", "datetime", "timedelta")


class HeapMixin:
    # ------------------------------------------------------------ shapes
    def field_type(self, cls, field):
        sh = self.reg.shapes.get(cls, {})
        if field in sh:
            ty = parse_type(sh[field])
            if ty[0] == "lock":
                ty = ("lock", self.lock_kind(cls, field) or ty[1])
            return ty
        ci = self.repo.find_class(cls)
        if ci is not None:
            for (n, ann, _d) in self.repo.all_fields(ci):
                if n == field:
                    return self.ann_type(ann, ci.mod.relpath)
            # annotated assignment in __init__:  self.x: T = ...
            init = self.repo.lookup_method(ci, "__init__")
            if init is not None:
                for st in ast.walk(init[0]):
                    if isinstance(st, ast.AnnAssign) and isinstance(st.target, ast.Attribute) and st.target.attr == field:
                        return self.ann_type(st.annotation, init[1].mod.relpath)
        return None

    def lock_kind(self, cls, field):
        """Lock or RLock, read from the class's __init__ (the contract does not get to choose)"""
        ci = self.repo.find_class(cls)
        if ci is None:
            return None
        init = self.repo.lookup_method(ci, "__init__")
        if init is None:
            return None
        for st in ast.walk(init[0]):
            if isinstance(st, (ast.Assign, ast.AnnAssign)):
                tg = st.targets if isinstance(st, ast.Assign) else [st.target]
                for t in tg:
                    if isinstance(t, ast.Attribute) and t.attr == field and st.value is not None:
                        src = ast.unparse(st.value)
                        if "RLock" in src:
                            return "RLock"
                        if "Lock" in src:
                            return "Lock"
        return None

    # ------------------------------------------------------------ attributes
    def getattr(self, v, attr, frame=None):
        v = self.force(v)
        if isinstance(v, VRef) and v.oid in self.run.old_alias:
            return self.oldify(self.getattr_(v, attr, frame), v.oid)
        return self.getattr_(v, attr, frame)

    def getattr_(self, v, attr, frame=None):
        run = self.run
        if isinstance(v, VSuper):
            return self.super_getattr(v, attr)
        if isinstance(v, VRef):
            if v.kind == "obj":
                rec = run.rec(v.oid)
                if attr in rec.fields:
                    self.fire("field_read", v, attr)
                    return rec.fields[attr]
                ci = self.repo.find_class(rec.cls) or self.repo.find_class(getattr(self, "class_alias", {}).get(rec.cls, ""))
                if ci is not None:
                    p = self.repo.lookup_property(ci, attr)
                    if p is not None:
                        return self.call_function(VFunc(p[0], None, p[1], p[1].mod.relpath, attr), [v], {})
                    m = self.repo.lookup_method(ci, attr)
                    if m is not None:
                        return VBound(v, attr)
                if rec.sym is not None:
                    ty = self.field_type(rec.cls, attr)
                    ov = (self.contract.options.get("field_types") or {}).get(f"{rec.sym}.{attr}") if self.contract is not None else None
                    if ov is not None:
                        ty = parse_type(ov)          # the contract types this access path more precisely than the class shape does
                    if ty is not None:
                        val = self.fresh(ty, f"{rec.sym}.{attr}")
                        rec = run.rec(v.oid)
                        rec.fields[attr] = val
                        self.fire("field_read", v, attr)
                        return val
                if ci is not None:
                    c = self.repo.lookup_const(ci, attr)
                    if c is not None:
                        return self.class_const(c, attr)
                if rec.sym is not None and (ci is None or not ci.is_dataclass):
                    raise E.Unsupported(f"no shape for field {rec.cls}.{attr}")
                raise E.PyExc(VExc("AttributeError"), f"{rec.cls}.{attr}")
            return VBound(v, attr)
        if isinstance(v, VEnum):
            if attr == "value":
                return self.enum_value(v)
            if attr == "name":
                return self.enum_name(v)
            ci = self.repo.find_class(v.ename)
            if ci is not None:
                p = self.repo.lookup_property(ci, attr)
                if p is not None:
                    return self.call_function(VFunc(p[0], None, p[1], p[1].mod.relpath, attr), [v], {})
                if attr in ci.methods:
                    return VBound(v, attr)
            raise E.Unsupported(f"enum attr {attr}")
        if isinstance(v, VNone):
            raise E.PyExc(VExc("AttributeError"), f"None.{attr}")
        if isinstance(v, VClass):
            ci = v.info
            if ci.is_enum:
                if attr in dict(ci.enum_members):
                    return self.enum_member(ci.name, attr)
            c = self.repo.lookup_const(ci, attr)
            if c is not None:
                return self.class_const(c, attr)
            m = self.repo.lookup_method(ci, attr)
            if m is not None:
                # a collaborator the contract declares havocked, addressed through its class (`Cls.from_dict(x)`)
                spec = self.contract.callbacks.get(f"{ci.name}.{attr}") if getattr(self, "contract", None) is not None else None
                if spec is not None:
                    return VCallback(f"{ci.name}.{attr}", spec)
                fn_ = VFunc(m[0], None, m[1], m[1].mod.relpath, attr)
                if any(isinstance(d_, ast.Name) and d_.id == "classmethod" for d_ in m[0].decorator_list):
                    return VPartial(fn_, v)             # Cls.method(...) on a classmethod: cls is bound, as in CPython
                return fn_
            if attr == "__name__":
                return VStr(ci.name)
            raise E.Unsupported(f"class attr {ci.name}.{attr}")
        if isinstance(v, VExcClass):
            if attr in ("__name__", "__qualname__"):
                return VStr(v.name)
            raise E.Unsupported(f"exception class attribute {attr}")
        if isinstance(v, VModule):
            return self.module_attr(v, attr)
        if isinstance(v, VExc):
            if attr in v.fields:
                return v.fields[attr]
            if attr == "args":
                if v.arbitrary:
                    # an exception raised by a collaborator may carry any number of arguments -- including none (`raise TimeoutError()`,
                    # MemoryError from an allocation): e.args[0] can raise IndexError
                    key = "exc.args#" + str(id(v))
                    if key not in self.run.ghost:
                        self.run.ghost[key] = self.fresh(("list", ("any",)), self.run.fresh_name("exc.args"))
                    return self.run.ghost[key]
                return VTuple([v.msg] if v.msg is not None else [])
            raise E.Unsupported(f"exception attr {attr}")
        if isinstance(v, VReal) and getattr(v, "unit", None) == "timedelta" and attr in ("days", "seconds", "microseconds"):
            # the normalised fields of a timedelta: total = days*86400 + seconds + microseconds/1e6 with 0 <= seconds < 86400
            days = z3.ToInt(v.t / 86400)
            rest = v.t - z3.ToReal(days) * 86400
            secs = z3.ToInt(rest)
            if attr == "days":
                return VInt(days)
            if attr == "seconds":
                return VInt(secs)
            return VInt(z3.ToInt((rest - z3.ToReal(secs)) * 1000000))
        if isinstance(v, (VStr, VTuple, VInt, VReal)):
            return VBound(v, attr)
        if isinstance(v, VAny):
            if v.tag == "type" and attr == "__name__":
                return VStr(z3.Const(self.run.fresh_name("typename"), z3.StringSort()))
            if v.tag in ("hashobj", "json", "bytes", "match", "pattern", "uuid"):
                return VBound(v, attr)
            return self.any_getattr(v, attr)
        if isinstance(v, VCallback):
            dflt = (v.spec.get(attr) or (v.spec if v.spec.get("inherit") else {})) if isinstance(v.spec, dict) else {}
            sp_ = self.cb_spec(f"{v.name}.{attr}", dflt)
            if isinstance(sp_, dict) and sp_.get("function"):
                from .calls import VCallbackFn
                return VCallbackFn(f"{v.name}.{attr}", sp_, v)
            return VCallback(f"{v.name}.{attr}", sp_)
        raise E.Unsupported(f"getattr {v!r}.{attr}")

    AST_LISTS = ("args", "keywords", "elts", "values", "ops", "comparators", "generators", "ifs", "keys")
    AST_STRS = ("id", "arg", "attr")

    def any_getattr(self, v, attr):
        if v.tag == "astnode":
            # abstract syntax tree of unknown shape: attributes are uninterpreted functions of the node
            if attr in self.AST_STRS:
                return VStr(z3.Function(f"ast_{attr}", AnySort, z3.StringSort())(v.t))
            if attr in self.AST_LISTS:
                return self.fresh(("list", ("astnode",)), f"ast_{attr}({v.t})")
            return VAny(z3.Function(f"ast_{attr}", AnySort, AnySort)(v.t), "astnode")
        if self.opt("opaque_any_methods"):
            # arbitrary user data: an attribute read yields another opaque value or AttributeError
            has = z3.Function(f"hasattr_{attr}", AnySort, z3.BoolSort())(v.t)
            if not self.run.decide(has, f"hasattr({attr})"):
                raise E.PyExc(VExc("AttributeError"), f"opaque.{attr}")
            return VAny(z3.Function(f"getattr_{attr}", AnySort, AnySort)(v.t), "pyattr")
        raise E.Unsupported(f"attribute {attr} of opaque value")

    def setattr(self, v, attr, val):
        v = self.force(v)
        if isinstance(v, VRef) and v.kind == "obj":
            rec = self.run.rec(v.oid)
            if rec.frozen:
                raise E.PyExc(VExc("FrozenInstanceError"), f"{rec.cls}.{attr}")
            self.fire("field_write", v, attr)
            lists = self.run.members.get(v.oid)
            if lists and self.contract is not None and rec.cls in self.contract.counters:
                before = {cn: self.counter_pred(rec.cls, cn, v) for cn in self.contract.counters[rec.cls]}
                rec.fields[attr] = val
                for loid in lists:
                    lr = self.run.rec(loid)
                    for cn, b in before.items():
                        if cn in lr.cnt:
                            lr.cnt[cn] = lr.cnt[cn] - z3.If(b, 1, 0) + z3.If(self.counter_pred(rec.cls, cn, v), 1, 0)
                return
            rec.fields[attr] = val
            return
        if isinstance(v, VNone):
            raise E.PyExc(VExc("AttributeError"), f"None.{attr} =")
        raise E.Unsupported(f"setattr on {v!r}")

    def class_const(self, c, attr):
        """value of a class-level constant; a container obtained this way is SHARED by every instance of the class: writing into it through
        one instance changes the behaviour of all others (reported as an obligation of the function under verification)"""
        v = self.eval(c[0], E.Frame(c[1].mod.relpath, c[1]))
        if isinstance(v, VRef) and v.kind in ("dict", "list", "set"):
            if not hasattr(self.run, "class_consts"):
                self.run.class_consts = {}
            self.run.class_consts[v.oid] = f"{c[1].name}.{attr}"
        return v

    def cb_spec(self, name, default=None):
        """callback spec by (suffix of) its qualified name from the contract"""
        if self.contract is not None:
            cbs = self.contract.callbacks
            if name in cbs:
                return cbs[name]
            for k, v in cbs.items():
                if k.startswith("*.") and name.endswith(k[1:]):
                    return v
            best = None
            for k, v in cbs.items():
                if name.endswith("." + k) or name.endswith("#ret." + k.split(".")[-1]) and k.count(".") == 1 and name.split(".")[-1] == k.split(".")[-1] and False:
                    best = v
            if best is not None:
                return best
            # "worker.step" style keys match any callback value bound to a variable of that name
            tail = name.split("#ret.")[-1] if "#ret." in name else None
            if tail:
                for k, v in cbs.items():
                    if k.split(".")[-1] == tail and "." in k:
                        return v
        return default or {}

    def fire(self, event, *a):
        h = self.hooks.get(event)
        if h:
            h(*a)

    # ------------------------------------------------------------ containers: construction
    def new_list(self, items):
        return VRef(self.run.alloc(ListRec(list(items))), "list")

    def new_dict(self, pairs=()):
        d = {}
        for k, v in pairs:
            d[self.key_of(k)] = (k, v)
        return VRef(self.run.alloc(DictRec(d)), "dict")

    def new_set(self, items=()):
        r = SetRec([])
        ref = VRef(self.run.alloc(r), "set")
        for it in items:
            self.set_add(ref, it)
        return ref

    def key_of(self, k):
        """hashable python key for a concrete symbolic value, else None"""
        k = self.force(k)
        if isinstance(k, VStr):
            t = E.simp(k.t)
            if z3.is_string_value(t):
                return ("s", t.as_string())
        if isinstance(k, VInt):
            t = E.simp(k.t)
            if z3.is_int_value(t):
                return ("i", t.as_long())
        if isinstance(k, VEnum):
            t = E.simp(k.t)
            if z3.is_const(t) and t.decl().kind() == z3.Z3_OP_DT_CONSTRUCTOR:
                return ("e", k.ename, str(t))
        if isinstance(k, VBool):
            t = E.simp(k.t)
            if E.is_true(t) or E.is_false(t):
                return ("b", E.is_true(t))
        if isinstance(k, VNone):
            return ("n",)
        if isinstance(k, VModule):
            return ("m", k.name)          # classes / functions of library modules used as table keys (ast.Add -> operator.add)
        if isinstance(k, VTuple):
            ks = [self.key_of(x) for x in k.items]
            if all(x is not None for x in ks):
                return ("t",) + tuple(ks)
        if isinstance(k, VRef):
            return ("r", k.oid)
        if isinstance(k, VClass):
            return ("c", k.name)
        return None

    # ------------------------------------------------------------ equality of values
    def eq(self, a, b):
        """z3 Bool: a == b under Python semantics for the supported kinds"""
        for x, y in ((a, b), (b, a)):
            if isinstance(x, VOpt) and x.forced is None and isinstance(y, VNone):
                return x.isnone
        if isinstance(a, VOpt) and isinstance(b, VOpt) and a is b:
            return z3.BoolVal(True)
        a, b = self.force(a), self.force(b)
        if isinstance(a, VNone) or isinstance(b, VNone):
            return z3.BoolVal(isinstance(a, VNone) and isinstance(b, VNone))
        num = (VInt, VReal, VBool)
        if isinstance(a, num) and isinstance(b, num):
            if isinstance(a, VBool) and isinstance(b, VBool):
                return a.t == b.t
            return self.num(a) == self.num(b) if isinstance(a, VReal) or isinstance(b, VReal) else self.intt(a) == self.intt(b)
        if isinstance(a, VStr) and isinstance(b, VStr):
            return a.t == b.t
        if isinstance(a, VEnum) and isinstance(b, VEnum):
            return a.t == b.t if a.ename == b.ename else z3.BoolVal(False)
        if isinstance(a, VAny) and isinstance(b, VAny):
            return a.t == b.t
        if isinstance(a, VRef) and isinstance(b, VRef):
            if a.oid == b.oid:
                return z3.BoolVal(True)
            if a.kind == "obj" and self.run.base_oid(a.oid) == self.run.base_oid(b.oid):
                ci0 = self.repo.find_class(self.run.rec(a.oid).cls)
                if ci0 is None or not ci0.is_dataclass:
                    return z3.BoolVal(True)      # identity semantics: same object, old or new view
            if a.kind != b.kind:
                return z3.BoolVal(False)
            if a.kind == "list":
                ra, rb = self.run.rec(a.oid), self.run.rec(b.oid)
                if ra.concrete and rb.concrete:
                    if len(ra.items) != len(rb.items):
                        return z3.BoolVal(False)
                    return z3.And([self.eq(x, y) for x, y in zip(ra.items, rb.items)]) if ra.items else z3.BoolVal(True)
                if ra.concrete != rb.concrete:
                    c, s = (ra, rb) if ra.concrete else (rb, ra)
                    if s.arr is not None:
                        return z3.And([s.length == len(c.items)] +
                                      [self.eq(self.wrap(s.elem, z3.Select(s.arr, i)), x) for i, x in enumerate(c.items)])
                raise E.Unsupported("list equality on symbolic lists")
            if a.kind == "obj":
                ra, rb = self.run.rec(a.oid), self.run.rec(b.oid)
                ci = self.repo.find_class(ra.cls)
                if ra.cls == rb.cls and ci is not None and ci.is_dataclass:
                    fs = [f[0] for f in self.repo.all_fields(ci)]
                    return z3.And([self.eq(self.getattr(a, f), self.getattr(b, f)) for f in fs])
                return z3.BoolVal(False)    # identity semantics, distinct oids
            if a.kind in ("dict", "set"):
                ra, rb = self.run.rec(a.oid), self.run.rec(b.oid)
                if ra.concrete and rb.concrete and a.kind == "dict":
                    if set(ra.items) != set(rb.items):
                        return z3.BoolVal(False)
                    return z3.And([self.eq(ra.items[k][1], rb.items[k][1]) for k in ra.items] or [z3.BoolVal(True)])
                if ra.concrete and rb.concrete and a.kind == "set":
                    return z3.And([self.set_contains(a, x) for x in rb.items] + [self.set_contains(b, x) for x in ra.items]
                                  or [z3.BoolVal(True)])
                if not ra.concrete and not rb.concrete and a.kind == "dict" and ra.val is not None and rb.val is not None \
                        and not ra.over and not rb.over:
                    k = z3.Const("k!deq", ra.dom.sort().domain())
                    return z3.And(ra.size == rb.size, z3.ForAll([k], z3.And(z3.Select(ra.dom, k) == z3.Select(rb.dom, k),
                                  z3.Implies(z3.Select(ra.dom, k), z3.Select(ra.val, k) == z3.Select(rb.val, k)))))
                raise E.Unsupported("equality on symbolic dict/set")
            return z3.BoolVal(False)
        if isinstance(a, VTuple) and isinstance(b, VTuple):
            if len(a.items) != len(b.items):
                return z3.BoolVal(False)
            return z3.And([self.eq(x, y) for x, y in zip(a.items, b.items)] or [z3.BoolVal(True)])
        if isinstance(a, VClass) and isinstance(b, VClass):
            return z3.BoolVal(a.name == b.name)
        if isinstance(a, VCallback) and isinstance(b, VCallback):
            return z3.BoolVal(a.name == b.name)
        if isinstance(a, VAny) or isinstance(b, VAny):
            o, other = (a, b) if isinstance(a, VAny) else (b, a)
            return self.any_eq(o, other)
        if type(a) is not type(b):
            return z3.BoolVal(False)
        raise E.Unsupported(f"eq {a!r} {b!r}")

    def any_eq(self, a, other):
        # equality between an opaque value and a typed one: uninterpreted, but functional
        inj = self.inject(other)
        return a.t == inj

    def inject(self, v):
        """typed value -> Any. The injections are made injective (and kind-disjoint) by instance axioms with inverse functions."""
        run = self.run
        v = self.force(v)

        def inj(fname, sort, term, kind):
            t = z3.Function(fname, sort, AnySort)(term)
            key = t.get_id()
            if key not in run.inj_seen:
                run.inj_seen.add(key)
                run._keep.append(t)
                run.assume(z3.Function(fname + "^-1", AnySort, sort)(t) == term, persist=True)
                run.assume(z3.Function("any_kind", AnySort, z3.IntSort())(t) == kind, persist=True)
            return t
        if isinstance(v, VAny):
            return v.t
        if isinstance(v, VInt):
            return inj("any_of_int", z3.IntSort(), v.t, 1)
        if isinstance(v, VReal):
            return inj("any_of_real", z3.RealSort(), v.t, 2)
        if isinstance(v, VBool):
            return inj("any_of_bool", z3.BoolSort(), v.t, 3)
        if isinstance(v, VStr):
            return inj("any_of_str", z3.StringSort(), v.t, 4)
        if isinstance(v, VNone):
            t = z3.Const("any_none", AnySort)
            if "none" not in run.inj_seen:
                run.inj_seen.add("none")
                run.assume(z3.Function("any_kind", AnySort, z3.IntSort())(t) == 0, persist=True)
            return t
        if isinstance(v, VEnum):
            return inj("any_of_" + v.ename, v.t.sort(), v.t, 5)
        if isinstance(v, VRef):
            return inj("any_of_ref", z3.IntSort(), z3.IntVal(self.run.base_oid(v.oid)), 6)
        if isinstance(v, VCallback):
            return z3.Const(f"any_cb:{v.name}", AnySort)
        if isinstance(v, VClass):
            return z3.Const(f"any_class:{v.name}", AnySort)
        if isinstance(v, VTuple):
            t = z3.Const("any_unit", AnySort)
            f = z3.Function("any_pair", AnySort, AnySort, AnySort)
            fst = z3.Function("any_fst", AnySort, AnySort)
            snd = z3.Function("any_snd", AnySort, AnySort)
            for x in v.items:
                xi = self.inject_deep(x) if hasattr(self, "inject_deep") else self.inject(x)
                nt = f(t, xi)
                key = nt.get_id()
                if key not in run.inj_seen:
                    run.inj_seen.add(key)
                    run._keep.append(nt)
                    run.assume(z3.And(fst(nt) == t, snd(nt) == xi, z3.Function("any_kind", AnySort, z3.IntSort())(nt) == 7), persist=True)
                t = nt
            return t
        raise E.Unsupported(f"inject {v!r}")

    # ------------------------------------------------------------ list ops
    def list_len(self, ref):
        r = self.run.rec(ref.oid)
        return z3.IntVal(len(r.items)) if r.concrete else r.length

    def list_get(self, ref, idx: VInt):
        run = self.run
        r = run.rec(ref.oid)
        n = self.list_len(ref)
        i = E.simp(idx.t)
        if r.concrete and z3.is_int_value(i):
            k = i.as_long()
            if -len(r.items) <= k < len(r.items):
                return r.items[k]
            raise E.PyExc(VExc("IndexError"), "list index")
        if not run.decide(z3.And(i >= -n, i < n), "index in range"):
            raise E.PyExc(VExc("IndexError"), "list index")
        pos = E.simp(z3.If(i < 0, i + n, i))
        if r.concrete:
            # symbolic index into a concrete list: fork per position
            k = run.choose([(str(j), pos == j) for j in range(len(r.items))], "index")
            return r.items[k]
        return self.symlist_elem(ref, r, pos)

    def symlist_elem(self, ref, r, pos):
        if r.arr is not None:
            if r.mem is not None and r.memfn is None:
                # an element of the list is a member of the list (instantiated for this position)
                self.run.assume(z3.Implies(z3.And(pos >= 0, pos < r.length), z3.Select(r.mem, z3.Select(r.arr, pos))), persist=True)
            return self.wrap(r.elem, z3.Select(r.arr, pos))
        for (ap, av) in reversed(r.appended):
            if self.run.decide(E.simp(pos == ap), "index of an appended element"):
                return av
        if r.elem[0] == "obj":
            epos = E.simp(pos + r.shift) if not isinstance(r.shift, int) or r.shift else E.simp(pos) if not isinstance(pos, int) else pos
            nm = f"{r.sym}[{epos}]"
            # aliasing: a symbolic index may denote an element that is already materialised under another index term
            if nm not in self.run.sym_oids and not isinstance(epos, int) and not z3.is_int_value(epos):
                seen = self.run.elem_index.setdefault(r.sym, [])
                for (qterm, qname) in seen:
                    if self.run.decide(epos == qterm, f"{nm} is {qname}"):
                        nm = qname
                        break
                else:
                    seen.append((epos, nm))
            elif nm not in self.run.sym_oids:
                self.run.elem_index.setdefault(r.sym, []).append((epos if not isinstance(epos, int) else z3.IntVal(epos), nm))
            cls = r.elem[1]

            def mk():
                rec = ObjRec(cls, {}, sym=nm)
                return rec
            known = nm in self.run.sym_oids
            ref_ = self.sym_ref(nm, "obj", cls, mk)
            if not known and r.preds:
                for pent in r.preds:
                    ptxt, penv = pent if isinstance(pent, tuple) else (pent, {})
                    node = self.verifier.parse_clause(ptxt)
                    self.pure += 1
                    try:
                        env = dict(penv)
                        env["x"] = ref_
                        self.run.assume(self.truthy(self.eval(node, E.Frame("<spec>", None, env, None, "elemfact"))), persist=True)
                    finally:
                        self.pure -= 1
            for ent in getattr(self.run, "index_facts", {}).get(r.sym, []):
                if nm not in ent[1]:
                    ent[1].add(nm)
                    ent[0](ref_, epos if not isinstance(epos, int) else z3.IntVal(epos))
            return ref_
        if r.elem[0] == "callback":
            return VCallback(f"{r.sym}[{pos}]")
        v = self.fresh(r.elem, self.run.fresh_name(f"{r.sym}[{pos}]"))
        if r.elem[0] == "tuple" and (r.mem is not None or r.memfn is not None):
            self.run.assume(self.list_member_term(r, v))         # an element of the list is a member of the list
        return v

    def list_member_term(self, r, x):
        """`x in <symbolic list>` through the ghost membership set / membership function; a member implies a non-empty list"""
        run = self.run
        if r.memfn is not None:
            m = r.memfn(x)
        else:
            m = z3.Select(r.mem, self.term_of(x, r.elem) if r.elem[0] != "tuple" else self.inject(x))
            # trigger: a membership query on a source list instantiates "a member implies non-empty" for every filtered list derived from it
            # (x in filtered <=> x in source and f(x); an empty filtered list therefore has no such x)
            if not hasattr(run, "mem_queried"):
                run.mem_queried, run.mem_derived = {}, {}
            key = r.mem.get_id()
            seen = run.mem_queried.setdefault(key, [])
            if not any(y is x for y in seen):
                seen.append(x)
                for (fn, ln) in run.mem_derived.get(key, []):
                    run.assume(z3.Implies(fn(x), ln > 0), persist=True)
        run.assume(z3.Implies(m, r.length > 0), persist=True)
        return m

    def list_append(self, ref, v):
        r = self.run.rec(ref.oid)
        if r.concrete:
            r.items.append(v)
            return
        if r.arr is not None:
            try:
                tv = self.term_of(v, r.elem)
                r.arr = z3.Store(r.arr, r.length, tv)
                if r.mem is not None:
                    r.mem = z3.Store(r.mem, tv, z3.BoolVal(True))
            except (E.Unsupported, z3.Z3Exception):
                r.arr = None
                r.mem = None
                r.elem = ("any",)
        if r.arr is None and r.memfn is not None:
            r.memfn = None
        if r.arr is None and r.mem is not None and r.elem[0] == "tuple":
            try:
                r.mem = z3.Store(r.mem, self.inject(v), z3.BoolVal(True))
            except (E.Unsupported, z3.Z3Exception):
                r.mem = None
        if r.arr is None:
            r.appended.append((E.simp(r.length + (r.shift if not isinstance(r.shift, int) or r.shift else 0)) if False else E.simp(r.length), v))
        if r.cnt and isinstance(v, VRef):
            for cn in list(r.cnt):
                r.cnt[cn] = r.cnt[cn] + z3.If(self.counter_pred(r.elem[1], cn, v), 1, 0)
            self.run.members.setdefault(v.oid, []).append(ref.oid)
        r.length = r.length + 1

    def counter_pred(self, cls, cn, v):
        text = self.contract.counters[cls][cn]
        node = self.verifier.parse_clause(text)
        self.pure += 1
        try:
            return self.truthy(self.eval(node, E.Frame("<spec>", None, {"x": v}, None, "counter")))
        finally:
            self.pure -= 1

    def list_items(self, ref):
        """python list of SVs if the list is concrete, else None"""
        r = self.run.rec(ref.oid)
        return r.items if r.concrete else None

    # ------------------------------------------------------------ dict ops
    def dict_contains(self, ref, k):
        r = self.run.rec(ref.oid)
        if r.concrete:
            kk = self.key_of(k)
            if kk is not None:
                if kk in r.items:
                    return z3.BoolVal(True)
                # concrete key absent; symbolic keys present?
                others = [kv for key, kv in r.items.items() if key[0] == "sym"]
                if not others:
                    return z3.BoolVal(False)
                return z3.Or([self.eq(k, ok) for ok, _ in others])
            return z3.Or([self.eq(k, ok) for ok, _ in r.items.values()] or [z3.BoolVal(False)])
        kt_ = self.term_of(k, r.ktype)
        if r.sym is not None and not self.run.old_alias.get(ref.oid):
            # emptiness agrees with membership (instance of: forall x. x in d => len(d) > 0), on the entry-state map
            self.run.assume(z3.Implies(z3.Select(z3.Array(f"{r.sym}#dom", r.dom.sort().domain(), z3.BoolSort()), kt_), z3.Int(f"{r.sym}#size") > 0), persist=True)
        return z3.Select(r.dom, kt_)

    def dict_get(self, ref, k, default=None, raise_missing=True):
        run = self.run
        r = run.rec(ref.oid)
        if r.concrete:
            kk = self.key_of(k)
            if kk is not None and kk in r.items:
                return r.items[kk][1]
            cands = list(r.items.items()) if kk is None else [(key, kv) for key, kv in r.items.items() if key[0] == "sym"]
            if cands:
                opts = [(str(key), self.eq(k, kv[0])) for key, kv in cands] + [("absent", z3.Not(z3.Or([self.eq(k, kv[0]) for _, kv in cands])))]
                i = run.choose(opts, "dict key")
                if i < len(cands):
                    return cands[i][1][1]
            if raise_missing:
                raise E.PyExc(VExc("KeyError"), "dict key")
            return default
        kt = self.term_of(k, r.ktype)
        if not run.decide(z3.Select(r.dom, kt), f"key in {r.sym}"):
            if raise_missing:
                raise E.PyExc(VExc("KeyError"), "dict key")
            return default
        return self.symdict_val(ref, r, kt)

    def symdict_val(self, ref, r, kt):
        if r.val is not None:
            return self.wrap(r.vtype, z3.Select(r.val, kt))
        for ok, ov in reversed(r.over):
            if self.run.decide(kt == ok, "key equals stored key"):
                return ov
        base = r.valsym or r.sym
        kt = E.simp(kt)
        nm = f"{base}[{kt}]"
        if nm not in self.run.sym_oids and (nm + "#len") not in self.run.inputs:
            # aliasing: a symbolic key may equal a key under which the value is already materialised
            seen = self.run.elem_index.setdefault(base, [])
            for (qterm, qname) in seen:
                if qterm.sort() == kt.sort() and self.run.decide(kt == qterm, f"{nm} is {qname}"):
                    nm = qname
                    break
            else:
                seen.append((kt, nm))
        if r.vtype[0] == "obj":
            cls = r.vtype[1]
            return self.sym_ref(nm, "obj", cls, lambda: ObjRec(cls, {}, sym=nm))
        return self.fresh(r.vtype, nm)

    def order_array(self, r):
        """ghost iteration order of a symbolic dict: one array per key set (version), a bijection [0, size) -> keys"""
        return z3.Array(f"{r.sym}#order" + (f"@{r.ordver}" if r.ordver else ""), z3.IntSort(), self.sort_of(r.ktype))

    def dict_set(self, ref, k, v):
        r = self.run.rec(ref.oid)
        if r.concrete:
            kk = self.key_of(k)
            if kk is None:
                # symbolic key into a concrete dict: precise only when it cannot equal an existing key
                for key, (ok, _ov) in list(r.items.items()):
                    c = self.eq(k, ok)
                    if self.run.decide(c, "key equals existing"):
                        r.items[key] = (ok, v)
                        return
                kk = ("sym", self.run.fresh_name("k"))
            r.items[kk] = (k, v)
            return
        kt = self.term_of(k, r.ktype)
        was = z3.Select(r.dom, kt)
        r.size = z3.If(was, r.size, r.size + 1)
        r.dom = z3.Store(r.dom, kt, z3.BoolVal(True))
        r.ordver += 1
        if r.val is not None:
            r.val = z3.Store(r.val, kt, self.term_of(v, r.vtype))
        else:
            r.over.append((kt, v))

    def dict_del(self, ref, k, raise_missing=True):
        run = self.run
        r = run.rec(ref.oid)
        if r.concrete:
            kk = self.key_of(k)
            if kk is not None and kk in r.items:
                return r.items.pop(kk)[1]
            for key, (ok, ov) in list(r.items.items()):
                if kk is not None and key[0] != "sym":
                    continue
                if run.decide(self.eq(k, ok), "del key equals"):
                    return r.items.pop(key)[1]
            if raise_missing:
                raise E.PyExc(VExc("KeyError"), "del dict key")
            return None
        kt = self.term_of(k, r.ktype)
        if not run.decide(z3.Select(r.dom, kt), f"key in {r.sym}"):
            if raise_missing:
                raise E.PyExc(VExc("KeyError"), "del dict key")
            return None
        old = self.symdict_val(ref, r, kt) if (r.val is not None or r.vtype[0] == "obj") else None
        r.dom = z3.Store(r.dom, kt, z3.BoolVal(False))
        r.size = r.size - 1
        r.ordver += 1
        return old

    def dict_len(self, ref):
        r = self.run.rec(ref.oid)
        if r.concrete:
            return z3.IntVal(len(r.items))
        return r.size

    # ------------------------------------------------------------ set ops
    def set_contains(self, ref, v):
        r = self.run.rec(ref.oid)
        if r.concrete:
            return z3.Or([self.eq(v, x) for x in r.items] or [z3.BoolVal(False)])
        vt_ = self.term_of(v, r.etype)
        if r.sym is not None and "#" not in r.sym and "setop" not in r.sym:
            self.run.assume(z3.Implies(z3.Select(z3.Array(f"{r.sym}#dom", r.dom.sort().domain(), z3.BoolSort()), vt_), z3.Int(f"{r.sym}#size") > 0), persist=True)
        return z3.Select(r.dom, vt_)

    def set_add(self, ref, v):
        r = self.run.rec(ref.oid)
        if r.concrete:
            c = E.simp(self.set_contains(ref, v))
            if E.is_true(c):
                return
            if not E.is_false(c):
                if self.run.decide(c, "already in set"):
                    return
            r.items.append(v)
            return
        t = self.term_of(v, r.etype)
        r.size = z3.If(z3.Select(r.dom, t), r.size, r.size + 1)
        r.dom = z3.Store(r.dom, t, z3.BoolVal(True))

    def set_discard(self, ref, v):
        r = self.run.rec(ref.oid)
        if r.concrete:
            for i, x in enumerate(list(r.items)):
                if self.run.decide(self.eq(v, x), "discard equals"):
                    r.items.pop(i)
                    return True
            return False
        t = self.term_of(v, r.etype)
        was = z3.Select(r.dom, t)
        r.size = z3.If(was, r.size - 1, r.size)
        r.dom = z3.Store(r.dom, t, z3.BoolVal(False))
        return was

    # ------------------------------------------------------------ subscripts
    def subscript(self, v, idx):
        v, idx = self.force(v), self.force(idx)
        if isinstance(v, VRef) and v.oid in self.run.old_alias:
            return self.oldify(self.subscript_(v, idx), v.oid)
        return self.subscript_(v, idx)

    def subscript_(self, v, idx):
        if isinstance(v, VRef):
            if v.kind == "list":
                if isinstance(idx, VInt):
                    return self.list_get(v, idx)
                raise E.Unsupported("list subscript kind")
            if v.kind == "dict":
                return self.dict_get(v, idx)
        if isinstance(v, VTuple):
            if isinstance(idx, VInt):
                i = E.simp(idx.t)
                if z3.is_int_value(i):
                    k = i.as_long()
                    if -len(v.items) <= k < len(v.items):
                        return v.items[k]
                    raise E.PyExc(VExc("IndexError"), "tuple index")
                k = self.run.choose([(str(j), i == j) for j in range(len(v.items))] + [("oob", z3.Or(i < 0, i >= len(v.items)))], "tuple index")
                if k == len(v.items):
                    raise E.PyExc(VExc("IndexError"), "tuple index")
                return v.items[k]
        if isinstance(v, VStr) and isinstance(idx, VInt):
            n = z3.Length(v.t)
            if not self.run.decide(z3.And(idx.t >= -n, idx.t < n), "str index in range"):
                raise E.PyExc(VExc("IndexError"), "string index")
            pos = z3.If(idx.t < 0, idx.t + n, idx.t)
            return VStr(z3.SubString(v.t, pos, 1))
        if isinstance(v, VNone):
            raise E.PyExc(VExc("TypeError"), "None[...]")
        if isinstance(v, VAny) and self.opt("opaque_any_methods"):
            k = self.run.choose([("ok", None), ("KeyError", None), ("TypeError", None), ("IndexError", None)], "opaque[...]")
            if k:
                raise E.PyExc(VExc(["KeyError", "TypeError", "IndexError"][k - 1]), "opaque subscript")
            return VAny(z3.Function("any_getitem", AnySort, AnySort, AnySort)(v.t, self.inject(idx)), "pyvalue")
        raise E.Unsupported(f"subscript {v!r}[{idx!r}]")

    def slice_of(self, v, lo, hi):
        """v[lo:hi] with lo/hi VInt or None"""
        v = self.force(v)
        lo = self.force(lo) if lo is not None else None
        hi = self.force(hi) if hi is not None else None
        lo = None if isinstance(lo, VNone) else lo
        hi = None if isinstance(hi, VNone) else hi
        if isinstance(v, VStr):
            n = z3.Length(v.t)
            l = self.norm_index(lo, n, 0)
            h = self.norm_index(hi, n, n)
            return VStr(E.simp(z3.SubString(v.t, l, z3.If(h > l, h - l, 0))))
        if isinstance(v, VRef) and v.kind == "list":
            r = self.run.rec(v.oid)
            if r.concrete:
                lo_c = None if lo is None else self.concrete_int(lo)
                hi_c = None if hi is None else self.concrete_int(hi)
                if (lo is None or lo_c is not None) and (hi is None or hi_c is not None):
                    return self.new_list(r.items[lo_c:hi_c])
                raise E.Unsupported("symbolic slice of concrete list")
            n = r.length
            l = self.norm_index(lo, n, 0)
            h = self.norm_index(hi, n, n)
            newlen = E.simp(z3.If(h > l, h - l, 0))
            nr = ListRec(None, newlen, r.elem, None, sym=self.run.fresh_name(f"{r.sym}[{l}:{h}]"))
            if r.arr is not None:
                j = z3.Int("j!")
                nr.arr = z3.Lambda([j], z3.Select(r.arr, j + l))
            nr.farr = dict(r.farr)
            if r.elem[0] == "obj":
                nr.sym = r.sym
                nr.shift = E.simp(r.shift + l)
                if r.cnt:
                    for cn in r.cnt:
                        c = z3.Int(self.run.fresh_name(f"{r.sym}#count:{cn}:slice"))
                        self.run.assume(z3.And(c >= 0, c <= newlen, c <= r.cnt[cn]))
                        nr.cnt[cn] = c
            return VRef(self.run.alloc(nr), "list")
        if isinstance(v, VTuple):
            lo_c = None if lo is None else self.concrete_int(lo)
            hi_c = None if hi is None else self.concrete_int(hi)
            return VTuple(v.items[lo_c:hi_c])
        if isinstance(v, VAny) and self.opt("opaque_any_methods"):
            if self.run.choose([("ok", None), ("TypeError", None)], "opaque[:]"):
                raise E.PyExc(VExc("TypeError"), "opaque slice")
            return VAny(z3.Function("any_slice", AnySort, AnySort)(v.t), "pyvalue")
        raise E.Unsupported(f"slice of {v!r}")

    def norm_index(self, i, n, default):
        if i is None:
            return default if not isinstance(default, int) else z3.IntVal(default)
        t = i.t
        t = z3.If(t < 0, z3.If(t + n < 0, 0, t + n), z3.If(t > n, n, t))
        return E.simp(t)

    def concrete_int(self, v):
        if isinstance(v, VInt):
            t = E.simp(v.t)
            if z3.is_int_value(t):
                return t.as_long()
        return None
