"""Builtin functions, methods of builtin types, and the trusted-externals table.

EXTERNALS documents every dependency treated by an assumed contract; it is copied into evidence.
"""
from __future__ import annotations
import ast
import z3
from .values import *
from . import engine as E
from .ops import _fn

EXTERNALS = {
    "print": "no effect on program state; total when every formatted piece is encodable (A-print)",
    "time.time / datetime.now / datetime.utcnow": "fresh real from a monotone ghost clock (A-clock)",
    "timedelta(...)": "the duration in seconds as a real; total_seconds() is the identity",
    "hashlib.<alg>(b).hexdigest()": "total deterministic uninterpreted function of the bytes; [:n] is a deterministic function of it; collision-freeness NOT assumed",
    "str.encode()": "total iff the string has no lone surrogate (uninterpreted predicate encodable(s)); else UnicodeEncodeError",
    "threading.Lock/RLock": "mutual exclusion; `with` releases on every exit; Lock is non-reentrant (re-acquisition never returns)",
    "threading.Event/Thread": "opaque objects, no effect on verified state",
    "len/min/max/abs/int/float/bool/str/round/sum/any/all/sorted/isinstance": "Python semantics on the supported value kinds; ints are mathematical, floats are reals (A-real)",
    "json.loads": "returns an opaque JSON value or raises JSONDecodeError | RecursionError | ValueError",
    "json.dumps": "total deterministic function on JSON-able data (raises TypeError otherwise: not modelled, imprecise)",
    "re.*": "total deterministic uninterpreted functions of (pattern, flags, subject)",
    "statistics.mean/stdev": "uninterpreted with the replicate axioms used by C17",
    "dict": "insertion ordered",
}


def _real(v):
    return v.t if isinstance(v, VReal) else z3.ToReal(v.t)


def module_attr(I, v: VModule, attr):
    full = f"{v.name}.{attr}"
    if full in ("datetime.datetime", "datetime.timedelta"):
        return VModule(full) if attr == "datetime" else VBuiltin("timedelta")
    if v.name == "math" and attr in ("pi", "e", "tau"):
        import math
        return VReal(z3.RealVal(repr(getattr(math, attr))))
    if v.name == "math" and attr == "inf":
        raise E.Unsupported("math.inf")
    if attr in E.EXTRA_EXC_BASES or full in E.EXTRA_EXC_BASES:
        return VExcClass(attr)
    if attr in E.BUILTIN_EXC:
        return VExcClass(attr)
    if v.name == "re" and attr.isupper():
        return VAny(z3.Const(f"re.{attr}", AnySort))
    return VModule(full)


def enc_pred(run, t):
    """`the string t has no lone surrogate` as ONE Boolean constant per string term (not an uninterpreted predicate over strings: z3's sequence solver
    is unstable when UFs take string arguments); congruence is only needed, and provided, for syntactically identical terms"""
    t = E.simp(t)
    if z3.is_string_value(t):
        return z3.BoolVal(True)
    if not hasattr(run, "enc_cache"):
        run.enc_cache = {}
    key = t.get_id()
    if key not in run.enc_cache:
        b = z3.Bool(run.fresh_name("encodable!of"))
        run.enc_cache[key] = (b, t)
        run.inputs.setdefault(str(b), b)
    return run.enc_cache[key][0]


def encodable_closure(run, t, depth=0):
    """instances of: a string built from encodable strings by case mapping, stripping, joining, slicing, concatenation or replacement is
    encodable (these operations never create a lone surrogate that was not in an argument -- slicing works on code points)"""
    S_ = z3.StringSort()
    enc = lambda x: enc_pred(run, x)
    if depth > 6 or not z3.is_app(t) or t.sort() != S_:
        return
    if z3.is_string_value(t):
        run.assume(enc(t))
        return
    kids = [c for c in t.children() if c.sort() == S_]
    if not kids:
        return
    name = t.decl().name()
    if name in ("str.++", "str.substr", "str.at", "str.replace", "str.replace_all", "if") or name.startswith("str_") or name in ("join", "re_sub", "json_dumps"):
        if name == "if":
            kids = [c for c in t.children()[1:] if c.sort() == S_]
        run.assume(z3.Implies(z3.And([enc(k) for k in kids]), enc(t)))
        for k in kids:
            encodable_closure(run, k, depth + 1)


def call_external(I, name, args, kwargs, node, frame):
    run = I.run
    if name.split(".")[0] in ("hashlib", "uuid", "json", "re", "ast", "random", "statistics") or name in ("math.exp", "math.log", "math.log2", "math.log10", "math.tanh", "math.sin", "math.cos"):
        run.externals = getattr(run, "externals", 0) + 1      # modelled by an assumed contract, not by its value: such a path is not cross-checked against CPython
    if name.startswith("operator."):
        import ast as _ast
        op = name.split(".", 1)[1]
        bin_ = {"add": _ast.Add, "sub": _ast.Sub, "mul": _ast.Mult, "truediv": _ast.Div, "floordiv": _ast.FloorDiv, "mod": _ast.Mod, "pow": _ast.Pow}
        cmp_ = {"eq": _ast.Eq, "ne": _ast.NotEq, "lt": _ast.Lt, "le": _ast.LtE, "gt": _ast.Gt, "ge": _ast.GtE}
        if op in bin_ and len(args) == 2:
            return I.binop(bin_[op](), args[0], args[1])
        if op in cmp_ and len(args) == 2:
            return VBool(I.compare(cmp_[op](), args[0], args[1]))
        if op in ("neg", "pos") and len(args) == 1:
            return I.unary(_ast.USub() if op == "neg" else _ast.UAdd(), args[0])
        if op == "not_" and len(args) == 1:
            return VBool(z3.Not(I.truthy(args[0])))
        raise E.Unsupported(f"operator.{op}")
    if name in ("time.time", "time.monotonic", "time.perf_counter"):
        v = run.now(None)
        return VReal(v.t)
    if name in ("datetime.datetime.now", "datetime.datetime.utcnow", "datetime.now", "datetime.utcnow"):
        return run.now("datetime")
    if name in ("threading.Lock", "threading.RLock"):
        return VRef(run.alloc(LockRec(name.split(".")[-1], z3.IntVal(0))), "lock", name.split(".")[-1])
    if name in ("threading.Event", "threading.Thread", "threading.Condition"):
        return VCallback(name, {"raises": (), "inherit": True})
    if name == "time.sleep":
        return NONE
    if name in ("logging.getLogger",):
        return VCallback("logger", {"raises": (), "returns": "none", "inherit": True})
    if name.startswith("warnings."):
        return NONE
    if name.startswith("hashlib."):
        alg = name.split(".")[1]
        b = args[0] if args else VAny(z3.Const("b''", AnySort))
        return VAny(_fn(f"hash_{alg}", AnySort, AnySort)(I.inject(b)), "hashobj")
    if name in ("uuid.uuid4",):
        return VAny(z3.Const(run.fresh_name("uuid"), AnySort), "uuid")
    if name == "copy.deepcopy" or name == "copy.copy":
        return I.deepcopy(args[0]) if name.endswith("deepcopy") else I.shallowcopy(args[0])
    if name == "json.dumps":
        return VStr(_fn("json_dumps", AnySort, z3.StringSort())(I.inject_deep(args[0])))
    if name == "json.loads":
        # deterministic partial function: parses iff json_ok(s); otherwise one of the three documented exception classes
        a0 = args[0]
        st = a0.t if isinstance(a0, VStr) else None
        if st is None:
            raise E.PyExc(VExc("TypeError"), "json.loads of non-str") if isinstance(a0, VNone) else E.Unsupported("json.loads of non-str")
        if run.decide(_fn("json_ok", z3.StringSort(), z3.BoolSort())(st), "json.loads parses"):
            return VAny(_fn("json_loads", z3.StringSort(), AnySort)(st), "json")
        k = run.choose([("JSONDecodeError", None), ("RecursionError", None), ("ValueError", None)], "json.loads raises")
        raise E.PyExc(VExc(["JSONDecodeError", "RecursionError", "ValueError"][k]), "json.loads")
    if name == "re.compile":
        pt = E.simp(args[0].t) if args and isinstance(args[0], VStr) else None
        if pt is not None and z3.is_string_value(pt):
            # a literal pattern of the verified source: whether it compiles is decided by compiling it
            import re as _re
            try:
                _re.compile(pt.as_string())
            except _re.error:
                raise E.PyExc(VExc("error"), "re.compile")
            return VAny(_fn("re_compile", z3.StringSort(), AnySort)(args[0].t), "pattern")
        if isinstance(args[0], VStr):
            # whether a pattern compiles is a (deterministic) predicate of the pattern text
            if not run.decide(_fn("re_ok", z3.StringSort(), z3.BoolSort())(args[0].t), "pattern compiles"):
                raise E.PyExc(VExc("error"), "re.compile")
            return VAny(_fn("re_compile", z3.StringSort(), AnySort)(args[0].t), "pattern")
        if run.choose([("ok", None), ("re.error", None)], "re.compile"):
            run.abstractions.append("an external call failed by nondeterministic choice (its failure condition is not modelled): needs a replayed witness")
            raise E.PyExc(VExc("error"), "re.compile")
        return VAny(_fn("re_compile", z3.StringSort(), AnySort)(args[0].t), "pattern")
    if name == "re.findall":
        # deterministic total function of (pattern, subject): a list of substrings of the subject
        nm = run.fresh_name("re.findall")
        key = f"findall({args[0].t},{args[1].t})"[:200]
        return I.fresh(("list", ("str",)), key)
    if name == "re.finditer":
        # deterministic total function of (pattern, subject): a finite sequence of match objects (havocked collaborators: `.group(i)` etc. by the contract's
        # callback table), visited in order
        key = f"finditer({args[0].t},{args[1].t})"[:200]
        return I.fresh(("list", ("callback", "")), key)
    if name == "re.sub":
        repl = args[1]
        if not isinstance(repl, VStr):
            return VStr(z3.Const(run.fresh_name("re.sub"), z3.StringSort()))
        return VStr(_fn("re_sub", z3.StringSort(), z3.StringSort(), z3.StringSort(), z3.StringSort())(args[0].t, repl.t, args[2].t))
    if name == "ast.parse":
        k = run.choose([("ok", None), ("SyntaxError", None), ("ValueError", None), ("RecursionError", None), ("MemoryError", None)],
                       "ast.parse")
        if k:
            run.abstractions.append("an external call failed by nondeterministic choice (its failure condition is not modelled): needs a replayed witness")
            raise E.PyExc(VExc(["SyntaxError", "ValueError", "RecursionError", "MemoryError"][k - 1]), "ast.parse")
        return VAny(_fn("ast_parse", z3.StringSort(), AnySort)(args[0].t), "astnode")
    if name == "ast.literal_eval":
        k = run.choose([("ok", None), ("ValueError", None), ("SyntaxError", None), ("RecursionError", None), ("MemoryError", None),
                        ("TypeError", None)], "ast.literal_eval")
        if k:
            run.abstractions.append("an external call failed by nondeterministic choice (its failure condition is not modelled): needs a replayed witness")
            raise E.PyExc(VExc(["ValueError", "SyntaxError", "RecursionError", "MemoryError", "TypeError"][k - 1]), "ast.literal_eval")
        return VAny(_fn("ast_literal_eval", z3.StringSort(), AnySort)(args[0].t), "pyvalue")
    if name.startswith("math."):
        f = name.split(".")[1]
        if f in ("floor", "ceil") and args and isinstance(args[0], (VInt, VReal)):
            x = _real(args[0])
            fl = z3.ToInt(x)
            return VInt(fl) if f == "floor" else VInt(z3.If(z3.ToReal(fl) == x, fl, fl + 1))
        if f == "sqrt":
            x = _real(args[0])
            if run.decide(x < 0, "sqrt of negative"):
                raise E.PyExc(VExc("ValueError"), "math domain error")
            r = z3.Real(run.fresh_name("sqrt"))
            run.assume(z3.And(r >= 0, r * r == x))
            return VReal(r)
        if f in ("exp", "log", "log2", "log10", "tanh", "sin", "cos"):
            x = _real(args[0])
            if f.startswith("log") and run.decide(x <= 0, "log of non-positive"):
                raise E.PyExc(VExc("ValueError"), "math domain error")
            return VReal(_fn("math_" + f, z3.RealSort(), z3.RealSort())(x))
        if f == "isnan" or f == "isinf":
            return VBool(False)
    if name.startswith("random."):
        f = name.split(".")[1]
        if f == "random":
            r = z3.Real(run.fresh_name("random"))
            run.inputs[str(r)] = r
            run.assume(z3.And(r >= 0, r < 1))
            return VReal(r)
        if f == "choice":
            items = I.iterate_concrete(args[0])
            if not items:
                raise E.PyExc(VExc("IndexError"), "choice from empty")
            return items[run.choose([(str(i), None) for i in range(len(items))], "random.choice")]
        if f in ("uniform",):
            r = z3.Real(run.fresh_name("uniform"))
            run.assume(z3.And(r >= _real(args[0]), r <= _real(args[1])))
            return VReal(r)
    h = I.hooks.get("external")
    if h:
        r = h(name, args, kwargs, node, frame)
        if r is not None:
            return r
    raise E.Unsupported(f"external {name}")


def call_builtin(I, name, args, kwargs, node, frame):
    run = I.run
    if name not in ("print", "bool", "list", "tuple", "dict", "callable", "id"):
        args = [I.force(a) for a in args]
        kwargs = {k: I.force(v) for k, v in kwargs.items()}
    if name == "print":
        return NONE
    if name == "len":
        v = args[0]
        if isinstance(v, VStr):
            t_ = E.simp(v.t)
            if I.opt("strlen") == "uninterpreted" and not z3.is_string_value(t_):
                # length of a symbolic string as an uninterpreted non-negative integer (z3's sequence solver cannot build 10^4-character witnesses)
                n_ = _fn("slen", z3.StringSort(), z3.IntSort())(v.t)
                run.assume(n_ >= 0)
                run.externals = getattr(run, "externals", 0) + 1     # not cross-checked against CPython (the model string need not have that length)
                return VInt(n_)
            return VInt(z3.Length(v.t))
        if isinstance(v, VTuple):
            return VInt(len(v.items))
        if isinstance(v, VRef):
            if v.kind == "list":
                return VInt(I.list_len(v))
            if v.kind == "dict":
                return VInt(I.dict_len(v))
            if v.kind == "set":
                r = run.rec(v.oid)
                return VInt(len(r.items)) if r.concrete else VInt(r.size)
            if v.kind == "obj":
                return I.call_method(v, "__len__", [], {})
        if isinstance(v, (VNone, VInt, VReal, VBool)):
            raise E.PyExc(VExc("TypeError"), "len()")
        raise E.Unsupported(f"len of {v!r}")
    if name in ("min", "max"):
        if "key" in kwargs or "default" in kwargs:
            return I.minmax_key(name, args, kwargs)
        items = list(args) if len(args) > 1 else I.iterate_concrete(args[0])
        if not items:
            raise E.PyExc(VExc("ValueError"), f"{name}() of empty")
        cur = items[0]
        for x in items[1:]:
            op = ast.Lt() if name == "min" else ast.Gt()
            c = E.simp(I.compare(op, x, cur))
            cur = I.ite(c, x, cur)
        return cur
    if name == "abs":
        v = args[0]
        if isinstance(v, VInt):
            return VInt(z3.If(v.t >= 0, v.t, -v.t))
        if isinstance(v, VReal):
            return VReal(z3.If(v.t >= 0, v.t, -v.t), v.unit)
    if name == "int":
        if not args:
            return VInt(0)
        v = args[0]
        if isinstance(v, VInt):
            return v
        if isinstance(v, VBool):
            return VInt(I.intt(v))
        if isinstance(v, VReal):
            return VInt(z3.If(v.t >= 0, z3.ToInt(v.t), -z3.ToInt(-v.t)))
        if isinstance(v, VStr):
            ok = _fn("is_int_literal", z3.StringSort(), z3.BoolSort())(v.t)
            if not run.decide(ok, "int(str) parses"):
                raise E.PyExc(VExc("ValueError"), "int()")
            return VInt(_fn("int_of_str", z3.StringSort(), z3.IntSort())(v.t))
        if isinstance(v, VNone):
            raise E.PyExc(VExc("TypeError"), "int(None)")
        if isinstance(v, VAny):
            k = run.choose([("ok", None), ("ValueError", None), ("TypeError", None)], "int(opaque)")
            if k:
                raise E.PyExc(VExc(["ValueError", "TypeError"][k - 1]), "int()")
            return VInt(_fn("int_of_any", AnySort, z3.IntSort())(v.t))
    if name == "float":
        v = args[0] if args else VReal(0)
        if isinstance(v, VReal):
            return VReal(v.t)
        if isinstance(v, (VInt, VBool)):
            return VReal(I.num(v))
        if isinstance(v, VStr):
            t = E.simp(v.t)
            if z3.is_string_value(t) and t.as_string() in ("inf", "-inf", "nan"):
                raise E.Unsupported("non-finite float")
            ok = _fn("is_float_literal", z3.StringSort(), z3.BoolSort())(v.t)
            if not run.decide(ok, "float(str) parses"):
                raise E.PyExc(VExc("ValueError"), "float()")
            return VReal(_fn("float_of_str", z3.StringSort(), z3.RealSort())(v.t))
        if isinstance(v, VNone):
            raise E.PyExc(VExc("TypeError"), "float(None)")
        if isinstance(v, VAny):
            k = run.choose([("ok", None), ("ValueError", None), ("TypeError", None)], "float(opaque)")
            if k:
                raise E.PyExc(VExc(["ValueError", "TypeError"][k - 1]), "float()")
            return VReal(_fn("float_of_any", AnySort, z3.RealSort())(v.t))
    if name == "bool":
        return VBool(E.simp(I.truthy(args[0]))) if args else VBool(False)
    if name == "str":
        return I.to_str(args[0]) if args else VStr("")
    if name == "repr":
        return VStr(z3.Const(run.fresh_name("repr"), z3.StringSort()))
    if name == "round":
        v = args[0]
        if len(args) == 1 and isinstance(v, VReal):
            fl = z3.ToInt(v.t)
            fr = v.t - z3.ToReal(fl)
            # banker's rounding
            return VInt(z3.If(fr < 0.5, fl, z3.If(fr > 0.5, fl + 1, z3.If(fl % 2 == 0, fl, fl + 1))))
        if isinstance(v, VInt):
            return v
        if isinstance(v, VReal):
            r = z3.Real(run.fresh_name("round"))
            d = I.concrete_int(args[1]) if isinstance(args[1], VInt) else None
            if d is not None and 0 <= d <= 6:
                eps = z3.RealVal(1) / (2 * 10 ** d)
                run.assume(z3.And(r >= v.t - eps, r <= v.t + eps))
            return VReal(r)
    if name == "isinstance":
        return VBool(I.isinstance_(args[0], args[1]))
    if name == "callable":
        v = args[0]
        return VBool(isinstance(v, (VCallback, VFunc, VBound, VBuiltin, VClass)))
    if name == "hasattr":
        return VBool(I.hasattr_(args[0], args[1]))
    if name == "getattr":
        key = I.key_of(args[1])
        if key is None:
            raise E.Unsupported("getattr with symbolic name")
        try:
            return I.getattr(args[0], key[1], frame)
        except E.PyExc as pe:
            if pe.exc.cls == "AttributeError" and len(args) > 2:
                return args[2]
            raise
    if name in ("list", "tuple", "set", "frozenset"):
        if not args:
            return {"list": I.new_list([]), "tuple": VTuple([]), "set": I.new_set([]), "frozenset": I.new_set([])}[name]
        v = args[0]
        if isinstance(v, VGen):
            if name == "list":
                return I.fresh(("list", ("any",)), run.fresh_name("list(gen)"))
            return VAny(z3.Const(run.fresh_name(f"{name}(gen)"), AnySort), "pyvalue")
        if name in ("list", "tuple") and isinstance(v, VTuple) and v.items and isinstance(v.items[0], VStr) and \
                str(E.simp(v.items[0].t)).startswith('"#dict'):
            return v        # snapshot of a symbolic dict view: iteration order/keys are fixed when the loop is cut
        if name in ("list", "tuple") and isinstance(v, VRef) and v.kind == "dict" and not run.rec(v.oid).concrete:
            return VTuple([VStr("#dictkeys"), v])       # list(d) / tuple(d): a snapshot of the keys, like list(d.keys())
        if name == "list" and isinstance(v, VRef) and v.kind == "list" and not run.rec(v.oid).concrete:
            r = run.rec(v.oid).copy()
            return VRef(run.alloc(r), "list")
        if name in ("set", "frozenset") and isinstance(v, VRef) and v.kind == "set" and not run.rec(v.oid).concrete:
            return VRef(run.alloc(run.rec(v.oid).copy()), "set")
        if name in ("set", "frozenset") and isinstance(v, VRef) and v.kind == "list" and not run.rec(v.oid).concrete \
                and run.rec(v.oid).elem[0] in ("int", "real", "bool", "str", "enum", "any"):
            # the set of the elements of a symbolic list of scalars: membership is the list's, 1 <= size <= length (0 for an empty list)
            lr = run.rec(v.oid)
            st = I.fresh(("set", lr.elem), run.fresh_name(f"{lr.sym}#asset"))
            sr = run.rec(st.oid)
            if lr.mem is not None and sr.dom is not None and sr.dom.sort() == lr.mem.sort():
                sr.dom = lr.mem
            run.assume(z3.And(sr.size >= 0, sr.size <= lr.length, z3.Implies(lr.length > 0, sr.size >= 1)))
            return st
        items = I.iterate_concrete(v)
        return {"list": I.new_list, "tuple": VTuple, "set": I.new_set, "frozenset": I.new_set}[name](items)
    if name == "dict":
        if not args:
            return I.new_dict([(VStr(k), v) for k, v in kwargs.items()])
        v = args[0]
        if isinstance(v, VRef) and v.kind == "dict":
            r = run.rec(v.oid).copy()
            ref = VRef(run.alloc(r), "dict")
            for k, x in kwargs.items():
                I.dict_set(ref, VStr(k), x)
            return ref
        return I.new_dict([tuple(I.unpack(p, 2)) for p in I.iterate_concrete(v)])
    if name == "range":
        ints = [I.concrete_int(a) for a in args]
        if all(i is not None for i in ints):
            return I.new_list([VInt(i) for i in range(*ints)])
        return VTuple([VStr("#range")] + list(args))     # symbolic range marker, consumed by cut_for
    if name == "enumerate":
        start = I.concrete_int(args[1]) if len(args) > 1 else (I.concrete_int(kwargs["start"]) if "start" in kwargs else 0)
        try:
            items = I.iterate_concrete(args[0])
        except E.Unsupported:
            return VTuple([VStr("#enumerate"), args[0], VInt(start)])
        return I.new_list([VTuple([VInt(i + start), x]) for i, x in enumerate(items)])
    if name == "zip":
        ls = [I.iterate_concrete(a) for a in args]
        return I.new_list([VTuple(t) for t in zip(*ls)])
    if name == "next" and args and isinstance(args[0], VRef) and args[0].kind == "list" and run.rec(args[0].oid).concrete:
        # next() on a generator expression the engine has already materialised (its element expressions have no effects): the first element
        items = run.rec(args[0].oid).items
        if items:
            return items[0]
        if len(args) > 1:
            return args[1]
        raise E.PyExc(VExc("StopIteration"), "next() on an exhausted generator")
    if name == "reversed":
        try:
            return I.new_list(list(reversed(I.iterate_concrete(args[0]))))
        except E.Unsupported:
            return VTuple([VStr("#reversed"), args[0]])
    if name == "sorted":
        if isinstance(args[0], VTuple) and args[0].items and isinstance(args[0].items[0], VStr) and \
                E.simp(args[0].items[0].t).as_string() in ("#dictitems", "#dictkeys", "#dictvalues") and not kwargs:
            # a permutation of a view whose iteration order is unspecified in this model anyway: the same view (the ordering fact is dropped: weaker, sound)
            return args[0]
        if isinstance(args[0], VRef) and args[0].kind == "dict" and not run.rec(args[0].oid).concrete and not kwargs:
            return VTuple([VStr("#dictkeys"), args[0]])       # the keys in some order (the ordering fact is dropped: weaker, sound)
        if isinstance(args[0], VGen) or (isinstance(args[0], VRef) and not run.rec(args[0].oid).concrete):
            return I.fresh(("list", ("any",)), run.fresh_name("sorted"))
        return I.sorted_(args[0], kwargs)
    if name in ("sum", "any", "all"):
        return I.fold_builtin(name, args, kwargs)
    if name == "timedelta":
        tot = z3.RealVal(0)
        mult = {"seconds": 1, "minutes": 60, "hours": 3600, "days": 86400, "milliseconds": "0.001", "weeks": 604800}
        order = ["days", "seconds", "microseconds", "milliseconds", "minutes", "hours", "weeks"]
        for i, a in enumerate(args):
            kwargs = dict(kwargs)
            kwargs[order[i]] = a
        for k, v in kwargs.items():
            if k == "microseconds":
                tot = tot + I.num(v) / 1000000
            else:
                tot = tot + I.num(v) * z3.RealVal(mult[k])
        return VReal(E.simp(tot), "timedelta")
    if name == "dc_field":
        raise E.Unsupported("dataclasses.field outside class body")
    if name == "id":
        v = args[0]
        if isinstance(v, VRef):
            return VInt(1000 + v.oid)
        return VInt(z3.Int(run.fresh_name("id")))
    if name == "type":
        v = args[0]
        if isinstance(v, VRef) and v.kind == "obj":
            ci = I.repo.find_class(run.rec(v.oid).cls)
            if ci is None:
                import ast as _ast
                if isinstance(getattr(_ast, run.rec(v.oid).cls, None), type):
                    return VModule("ast." + run.rec(v.oid).cls)
                raise E.Unsupported(f"type() of an object of unknown class {run.rec(v.oid).cls}")
            return VClass(ci.name, ci)
        if isinstance(v, VExc):
            return VExcClass(v.cls)
        return VAny(_fn("type_of", AnySort, AnySort)(I.inject(v)), "type")
    if name == "hash":
        return VInt(_fn("py_hash", AnySort, z3.IntSort())(I.inject(args[0])))
    if name == "iter":
        return args[0]
    if name == "super":
        return I.super_(frame)
    if name == "divmod":
        q = I.binop(ast.FloorDiv(), args[0], args[1])
        r = I.binop(ast.Mod(), args[0], args[1])
        return VTuple([q, r])
    if name == "pow":
        return I.binop(ast.Pow(), args[0], args[1])
    if name == "ord":
        return VInt(_fn("ord", z3.StringSort(), z3.IntSort())(args[0].t))
    if name == "chr":
        return VStr(_fn("chr", z3.IntSort(), z3.StringSort())(args[0].t))
    if name == "object":
        return VAny(z3.Const(run.fresh_name("object"), AnySort))
    if name == "vars":
        raise E.Unsupported("vars()")
    h = I.hooks.get("builtin")
    if h:
        r = h(name, args, kwargs, node, frame)
        if r is not None:
            return r
    raise E.Unsupported(f"builtin {name}({', '.join(type(a).__name__ for a in args)})")


def call_builtin_method(I, recv, name, args, kwargs, node, frame):
    run = I.run
    recv = I.force(recv)
    if not (isinstance(recv, VRef) and recv.kind in ("list", "dict", "set") and name in ("append", "add", "setdefault", "insert", "get", "pop")):
        args = [I.force(a) for a in args]
    if isinstance(recv, VStr):
        return str_method(I, recv, name, args, kwargs)
    if isinstance(recv, VRef):
        r = run.rec(recv.oid)
        if recv.kind == "list":
            return list_method(I, recv, r, name, args, kwargs)
        if recv.kind == "dict":
            return dict_method(I, recv, r, name, args, kwargs)
        if recv.kind == "set":
            return set_method(I, recv, r, name, args, kwargs)
        if recv.kind == "lock":
            if name == "acquire":
                I.lock_acquire(recv, "acquire")
                return VBool(True)
            if name == "release":
                I.lock_release(recv)
                return NONE
            if name == "locked":
                return VBool(r.held > 0)
    if isinstance(recv, VReal):
        if name == "total_seconds":
            return VReal(recv.t)
        if name == "isoformat" or name == "strftime":
            return VStr(_fn("isoformat", z3.RealSort(), z3.StringSort())(recv.t))
        if name == "timestamp":
            return VReal(recv.t)
        if name == "is_integer":
            return VBool(z3.IsInt(recv.t))
    if isinstance(recv, VInt):
        if name == "bit_length":
            return VInt(_fn("bit_length", z3.IntSort(), z3.IntSort())(recv.t))
    if isinstance(recv, VTuple):
        if name == "index":
            for i, x in enumerate(recv.items):
                if run.decide(I.eq(x, args[0]), "tuple.index eq"):
                    return VInt(i)
            raise E.PyExc(VExc("ValueError"), "tuple.index")
        if name == "count":
            return VInt(z3.Sum([z3.If(I.eq(x, args[0]), 1, 0) for x in recv.items] or [z3.IntVal(0)]))
    if isinstance(recv, VAny):
        if recv.tag == "hashobj" and name == "hexdigest":
            return VStr(_fn("hexdigest", AnySort, z3.StringSort())(recv.t))
        if recv.tag == "hashobj" and name == "digest":
            return VAny(_fn("digest", AnySort, AnySort)(recv.t))
        if I.opt("opaque_any_methods"):
            return I.call_callback(VCallback(f"opaque.{name}", {"raises": ("Exception",), "returns": "any"}), args, kwargs, node, frame)
        h = I.hooks.get("any_method")
        if h:
            r = h(recv, name, args, kwargs, node, frame)
            if r is not None:
                return r
    if isinstance(recv, VNone):
        raise E.PyExc(VExc("AttributeError"), f"None.{name}")
    if isinstance(recv, VModule):
        return call_external(I, f"{recv.name}.{name}", args, kwargs, node, frame)
    if isinstance(recv, VExc) and name == "with_traceback":
        return recv
    raise E.Unsupported(f"method {name} on {recv!r}")


def str_method(I, s, name, args, kwargs):
    run = I.run
    S = z3.StringSort()
    if name in ("lower", "upper", "strip", "lstrip", "rstrip", "title", "capitalize", "swapcase", "casefold"):
        if args:
            run.externals = getattr(run, "externals", 0) + 1
            return VStr(_fn(f"str_{name}2", S, S, S)(s.t, args[0].t))
        t = E.simp(s.t)
        if z3.is_string_value(t):
            try:
                return VStr(getattr(t.as_string(), name)())
            except Exception:
                pass
        run.externals = getattr(run, "externals", 0) + 1      # uninterpreted in the proof: such a path is not cross-checked against CPython
        # one string constant per (method, argument term) instead of an uninterpreted function application: z3's sequence solver is unstable on
        # formulas that mix string predicates with UFs (20 s `unknown` on a five-way Contains); identical arguments still give identical results
        if not hasattr(run, "strfn_cache"):
            run.strfn_cache = {}
        key = (name, s.t.get_id())
        if key not in run.strfn_cache:
            c = z3.String(run.fresh_name(f"{name}!of"))
            run.strfn_cache[key] = (c, s.t)
            run.assume(z3.Implies(enc_pred(run, s.t), enc_pred(run, c)), persist=True)
        return VStr(run.strfn_cache[key][0], s.tags)
    if name == "startswith":
        a = args[0]
        if isinstance(a, VTuple):
            return VBool(z3.Or([z3.PrefixOf(x.t, s.t) for x in a.items]))
        return VBool(z3.PrefixOf(a.t, s.t))
    if name == "endswith":
        a = args[0]
        if isinstance(a, VTuple):
            return VBool(z3.Or([z3.SuffixOf(x.t, s.t) for x in a.items]))
        return VBool(z3.SuffixOf(a.t, s.t))
    if name == "encode":
        errs = kwargs.get("errors") or (args[1] if len(args) > 1 else None)
        if errs is not None:
            e_ = E.simp(errs.t) if isinstance(errs, VStr) else None
            if e_ is not None and z3.is_string_value(e_) and e_.as_string() in ("surrogatepass", "replace", "ignore", "backslashreplace",
                                                                                  "xmlcharrefreplace", "surrogateescape", "namereplace"):
                # with an error handler the utf-8 encoder is total on str
                return VAny(_fn("encode_" + e_.as_string(), S, AnySort)(s.t), "bytes")
        ok = enc_pred(run, s.t)
        encodable_closure(run, s.t)
        if not run.decide(ok, f"encodable({s.t})"[:60]):
            raise E.PyExc(VExc("UnicodeEncodeError"), "str.encode")
        return VAny(_fn("encode", S, AnySort)(s.t), "bytes")
    if name == "replace":
        if len(args) == 2:
            run.externals = getattr(run, "externals", 0) + 1
            return VStr(_fn("str_replace_all", S, S, S, S)(s.t, args[0].t, args[1].t), s.tags)
    if name == "find":
        return VInt(z3.IndexOf(s.t, args[0].t, 0))
    if name == "count":
        n = z3.Int(run.fresh_name("count"))
        run.assume(n >= 0)
        run.assume((n > 0) == z3.Contains(s.t, args[0].t))
        return VInt(n)
    if name == "join":
        try:
            items = I.iterate_concrete(args[0])
        except E.Unsupported:
            if "str.join/split result unconstrained" not in run.abstractions:
                run.abstractions.append("str.join/split result unconstrained")      # an over-approximation: failures on this path need a replayed witness
            return VStr(z3.Const(run.fresh_name("join"), S))
        if not items:
            return VStr("")
        parts = []
        for i, x in enumerate(items):
            if not isinstance(x, VStr):
                raise E.PyExc(VExc("TypeError"), "join of non-str")
            if i:
                parts.append(s.t)
            parts.append(x.t)
        return VStr(E.simp(z3.Concat(*parts)) if len(parts) > 1 else parts[0])
    if name == "split" or name == "splitlines" or name == "rsplit":
        n = z3.Int(run.fresh_name("split#len"))
        run.assume(n >= (1 if name != "splitlines" else 0))
        if "str.join/split result unconstrained" not in run.abstractions:
            run.abstractions.append("str.join/split result unconstrained")
        nm = run.fresh_name("split")
        rec = ListRec(None, n, ("str",), z3.Array(nm + "#arr", z3.IntSort(), S), sym=nm)
        return VRef(run.alloc(rec), "list")
    if name == "format":
        return VStr(z3.Const(run.fresh_name("format"), S))
    if name in ("isdigit", "isalpha", "isalnum", "isspace", "isupper", "islower", "isidentifier", "isnumeric"):
        return VBool(_fn(f"str_{name}", S, z3.BoolSort())(s.t))
    if name in ("ljust", "rjust", "center", "zfill"):
        return VStr(z3.Const(run.fresh_name(name), S))
    if name in ("removeprefix", "removesuffix"):
        return VStr(_fn(f"str_{name}", S, S, S)(s.t, args[0].t))
    raise E.Unsupported(f"str.{name}")


def _forget_order(I, run, r, new_len, note, ret):
    """the symbolic list keeps a length only (element positions, counters, sums and membership are dropped): used by pop(i) / insert"""
    r.length = new_len
    if r.arr is not None:
        r.arr = z3.Array(run.fresh_name(f"{r.sym}#reordered"), z3.IntSort(), r.arr.sort().range())
    r.appended = []
    if r.elem[0] == "obj":
        r.sym = run.fresh_name(f"{r.sym}#reordered")
        r.farr = {}
        r.shift = 0
    r.mem = None
    r.memfn = None
    r.sums = {}
    for cn in list(r.cnt):
        c2 = z3.Int(run.fresh_name(f"{r.sym}#count:{cn}"))
        run.assume(z3.And(c2 >= 0, c2 <= r.length, c2 <= r.cnt[cn] + 1, c2 >= r.cnt[cn] - 1))
        r.cnt[cn] = c2
    if note not in run.abstractions:
        run.abstractions.append(note)
    return ret


def list_method(I, ref, r, name, args, kwargs):
    run = I.run
    if name == "append":
        I.fire("container_write", ref)
        I.list_append(ref, args[0])
        return NONE
    if name == "extend":
        I.fire("container_write", ref)
        src = I.force(args[0])
        if isinstance(src, VRef) and src.kind == "list" and not run.rec(src.oid).concrete:
            # extending by a symbolic list: the receiver becomes the concatenation -- the length adds up; positions, membership and counters of the
            # result are forgotten (abstraction), element-wise facts common to both stay
            sr = run.rec(src.oid)
            nlen = (z3.IntVal(len(r.items)) if r.concrete else r.length) + sr.length
            nr = ListRec(None, nlen, sr.elem if (r.concrete and not r.items) or (not r.concrete and r.elem == sr.elem) else ("any",), None,
                         sym=run.fresh_name(f"{sr.sym}#extended"))
            nr.preds = list(sr.preds) if (r.concrete and not r.items) else [p_ for p_ in getattr(r, "preds", []) if p_ in sr.preds]
            run.heap[ref.oid] = nr
            if "list.extend by a symbolic list: only the length is kept" not in run.abstractions:
                run.abstractions.append("list.extend by a symbolic list: only the length is kept")
            return NONE
        for x in I.iterate_concrete(src):
            I.list_append(ref, x)
        return NONE
    if name == "clear":
        I.fire("container_write", ref)
        r.items = []
        r.length = None
        r.arr = None
        return NONE
    if name == "copy":
        return VRef(run.alloc(r.copy()), "list")
    if name == "pop":
        I.fire("container_write", ref)
        r.mem = None
        if r.concrete:
            if not r.items:
                raise E.PyExc(VExc("IndexError"), "pop from empty list")
            k = I.concrete_int(args[0]) if args else -1
            if k is None:
                raise E.Unsupported("pop symbolic index")
            return r.items.pop(k)
        if run.decide(r.length == 0, "pop from empty"):
            raise E.PyExc(VExc("IndexError"), "pop from empty list")
        k = I.concrete_int(args[0]) if args else -1
        if k == -1:
            v = I.symlist_elem(ref, r, r.length - 1)
            r.length = r.length - 1
            return v
        if k == 0:
            v = I.symlist_elem(ref, r, z3.IntVal(0))
            r.length = r.length - 1
            if r.arr is not None:
                j = z3.Int("j!")
                r.arr = z3.Lambda([j], z3.Select(r.arr, j + 1))
            elif r.elem[0] == "obj":
                raise E.Unsupported("pop(0) on symbolic object list")
            return v
        # pop at an arbitrary position of a symbolic list: IndexError when out of range, otherwise that element; one element fewer, and the order of
        # what remains is forgotten (abstraction)
        if isinstance(args[0], VInt):
            n_ = r.length
            if not run.decide(z3.And(args[0].t >= -n_, args[0].t < n_), "pop index in range"):
                raise E.PyExc(VExc("IndexError"), "pop index out of range")
            pos_ = E.simp(z3.If(args[0].t < 0, args[0].t + n_, args[0].t))
            v = I.symlist_elem(ref, r, pos_)
            return _forget_order(I, run, r, r.length - 1, "list.pop(i) on a symbolic list: order of the rest forgotten", v)
        raise E.Unsupported("pop index")
    if name == "insert":
        I.fire("container_write", ref)
        k = I.concrete_int(args[0])
        if r.concrete and k is not None:
            r.items.insert(k, args[1])
            return NONE
        if not r.concrete:
            # insert into a symbolic list (any index: Python clamps it): one element more, order forgotten (abstraction)
            if r.mem is not None:
                try:
                    r.mem = z3.Store(r.mem, I.term_of(args[1], r.elem) if r.elem[0] != "tuple" else I.inject(args[1]), z3.BoolVal(True))
                except (E.Unsupported, z3.Z3Exception):
                    r.mem = None
            keep_mem = r.mem
            _forget_order(I, run, r, r.length + 1, "list.insert on a symbolic list: order forgotten", NONE)
            r.mem = keep_mem
            return NONE
    if name == "remove":
        I.fire("container_write", ref)
        if r.concrete:
            for i, x in enumerate(r.items):
                if run.decide(I.eq(x, args[0]), "remove eq"):
                    r.items.pop(i)
                    return NONE
            raise E.PyExc(VExc("ValueError"), "list.remove")
    if name == "index":
        if r.concrete:
            for i, x in enumerate(r.items):
                if run.decide(I.eq(x, args[0]), "index eq"):
                    return VInt(i)
            raise E.PyExc(VExc("ValueError"), "list.index")
        if r.arr is not None and len(args) == 1:
            # symbolic list of primitives: some position holding the value (the first one), or ValueError when it does not occur
            xt = I.term_of(args[0], r.elem)
            i_ = z3.Int(run.fresh_name("index"))
            j_ = z3.Int(run.fresh_name("j!idx"))
            found = z3.And(i_ >= 0, i_ < r.length, z3.Select(r.arr, i_) == xt)
            if run.choose([("found", found), ("ValueError", None)], "list.index") == 0:
                run.inputs[str(i_)] = i_
                run.assume(z3.ForAll([j_], z3.Implies(z3.And(j_ >= 0, j_ < i_), z3.Select(r.arr, j_) != xt)))
                return VInt(i_)
            run.assume(z3.ForAll([j_], z3.Implies(z3.And(j_ >= 0, j_ < r.length), z3.Select(r.arr, j_) != xt)))
            raise E.PyExc(VExc("ValueError"), "list.index")
    if name == "count" and r.concrete:
        return VInt(z3.Sum([z3.If(I.eq(x, args[0]), 1, 0) for x in r.items] or [z3.IntVal(0)]))
    if name == "sort" and not r.concrete:
        # sorting a symbolic list: a permutation -- length, membership, counters and element facts stay, the order is forgotten.
        # The key function is applied to one arbitrary element so that a raising key is seen.
        I.fire("container_write", ref)
        if kwargs.get("key") is not None:
            probe = I.symlist_elem(ref, r, z3.Int(run.fresh_name("k!sort")))
            I.call_value(kwargs["key"], [probe], {})
        if r.arr is not None:
            r.arr = z3.Array(run.fresh_name(f"{r.sym}#sorted"), z3.IntSort(), r.arr.sort().range())
        r.appended = []
        if r.elem[0] == "obj":
            r.sym = run.fresh_name(f"{r.sym}#sorted")       # element objects by position are new names; list-wide ghosts (cnt, preds, sums) are kept
            r.farr = {}
            r.shift = 0
        if "list.sort on a symbolic list: order forgotten" not in run.abstractions:
            run.abstractions.append("list.sort on a symbolic list: order forgotten")
        return NONE
    if name == "remove" and not r.concrete and isinstance(args[0], VRef) and getattr(args[0], "from_list", None) == r.sym:
        # removing an element that was obtained FROM this list (min/max with key): present by construction, so no ValueError; one element fewer
        I.fire("container_write", ref)
        r.length = r.length - 1
        r.appended = []
        r.sym = run.fresh_name(f"{r.sym}#removed")
        r.farr = {}
        r.mem = None
        r.memfn = None
        for cn in list(r.cnt):
            c2 = z3.Int(run.fresh_name(f"{r.sym}#count:{cn}"))
            run.assume(z3.And(c2 >= 0, c2 <= r.length, c2 <= r.cnt[cn], c2 >= r.cnt[cn] - 1))
            r.cnt[cn] = c2
        r.sums = {}
        if "list.remove of an element taken from the same symbolic list" not in run.abstractions:
            run.abstractions.append("list.remove of an element taken from the same symbolic list")
        return NONE
    if name == "sort":
        I.fire("container_write", ref)
        s = I.sorted_(ref, kwargs)
        r.items = run.rec(s.oid).items
        return NONE
    if name == "reverse" and r.concrete:
        r.items.reverse()
        return NONE
    raise E.Unsupported(f"list.{name} (concrete={r.concrete})")


def dict_method(I, ref, r, name, args, kwargs):
    run = I.run
    if name == "get":
        return I.dict_get(ref, args[0], args[1] if len(args) > 1 else NONE, raise_missing=False)
    if name in ("items", "keys", "values"):
        if r.concrete:
            if name == "items":
                return I.new_list([VTuple([k, v]) for k, v in r.items.values()])
            if name == "keys":
                return I.new_list([k for k, _v in r.items.values()])
            return I.new_list([v for _k, v in r.items.values()])
        return VTuple([VStr("#dict" + name), ref])
    if name == "pop":
        I.fire("container_write", ref)
        if len(args) > 1:
            v = I.dict_del(ref, args[0], raise_missing=False)
            return v if v is not None else args[1]
        return I.dict_del(ref, args[0])
    if name == "setdefault":
        c = I.dict_contains(ref, args[0])
        if run.decide(c, "setdefault present"):
            return I.dict_get(ref, args[0])
        I.fire("container_write", ref)
        I.dict_set(ref, args[0], args[1] if len(args) > 1 else NONE)
        return args[1] if len(args) > 1 else NONE
    if name == "update":
        I.fire("container_write", ref)
        if args:
            src = args[0]
            sr = run.rec(src.oid)
            if not sr.concrete:
                if not r.concrete and r.val is not None and sr.val is not None and r.dom.sort() == sr.dom.sort() \
                        and r.val.sort() == sr.val.sort() and not sr.over:
                    k = z3.Const("k!upd", r.dom.sort().domain())
                    r.val = z3.Lambda([k], z3.If(z3.Select(sr.dom, k), z3.Select(sr.val, k), z3.Select(r.val, k)))
                    r.dom = z3.Lambda([k], z3.Or(z3.Select(r.dom, k), z3.Select(sr.dom, k)))
                    r.ordver += 1
                    nsz = z3.Int(run.fresh_name("size!upd"))
                    run.assume(z3.And(nsz >= r.size, nsz >= sr.size, nsz <= r.size + sr.size))
                    r.size = nsz
                    return NONE
                if r.concrete and sr.dom is not None and all(isinstance(k_, VStr) for k_, _v in r.items.values()) and sr.ktype == ("str",):
                    # concrete table updated from a symbolic one: the result is a symbolic dict whose key set is exactly the union
                    # (values of the merged entries are left unconstrained: weaker, sound)
                    nd = I.fresh(("dict", sr.ktype, sr.vtype), run.fresh_name("updated"))
                    nrec = run.rec(nd.oid)
                    k = z3.Const("k!upd", sr.dom.sort().domain())
                    keys = [k_.t for k_, _v in r.items.values()]
                    nrec.dom = z3.Lambda([k], z3.Or(z3.Select(sr.dom, k), *[k == kt for kt in keys]))
                    run.heap[ref.oid] = nrec
                    run.abstractions.append("values of a concrete dict updated from a symbolic dict are unconstrained")
                    return NONE
                raise E.Unsupported("update from symbolic dict")
            for k, v in sr.items.values():
                I.dict_set(ref, k, v)
        for k, v in kwargs.items():
            I.dict_set(ref, VStr(k), v)
        return NONE
    if name == "clear":
        I.fire("container_write", ref)
        r.items = {}
        r.dom = None
        return NONE
    if name == "copy":
        return VRef(run.alloc(r.copy()), "dict")
    raise E.Unsupported(f"dict.{name}")


def set_method(I, ref, r, name, args, kwargs):
    run = I.run
    if name == "add":
        I.fire("container_write", ref)
        I.set_add(ref, args[0])
        return NONE
    if name in ("discard", "remove"):
        I.fire("container_write", ref)
        was = I.set_discard(ref, args[0])
        if name == "remove":
            c = was if not isinstance(was, bool) else z3.BoolVal(was)
            if not run.decide(c, "remove present"):
                raise E.PyExc(VExc("KeyError"), "set.remove")
        return NONE
    if name == "issubset":
        return VBool(E.simp(I.subset(ref, I.as_set(args[0]))))
    if name == "issuperset":
        return VBool(E.simp(I.subset(I.as_set(args[0]), ref)))
    if name == "copy":
        return VRef(run.alloc(r.copy()), "set")
    if name == "clear":
        I.fire("container_write", ref)
        r.items = []
        r.dom = None
        return NONE
    if name == "update":
        I.fire("container_write", ref)
        for a in args:
            for x in I.iterate_concrete(a):
                I.set_add(ref, x)
        return NONE
    if name in ("union", "intersection", "difference"):
        op = {"union": ast.BitOr(), "intersection": ast.BitAnd(), "difference": ast.Sub()}[name]
        return I.binop(op, ref, I.as_set(args[0]))
    raise E.Unsupported(f"set.{name}")
