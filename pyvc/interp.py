"""The evaluator: expressions, statements, calls. Split into mixins to keep files small."""
from __future__ import annotations
import ast
import z3
import ast
from .values import *
from .source import Repo
from . import engine as E
from .ops import OpsMixin
from .stmts import StmtMixin
from .calls import CallMixin
from .heapops import HeapMixin


class Interp(HeapMixin, OpsMixin, StmtMixin, CallMixin):
    def __init__(self, repo: Repo, reg, run, contract=None, ctx=None):
        self.repo = repo
        self.reg = reg
        self.run = run
        self.contract = contract
        self.ctx = ctx                  # verification context (spec functions, hooks)
        self.depth = 0
        self.pure = 0                   # >0 while evaluating specification expressions
        self.spec_funcs = {}            # name -> (ast.FunctionDef) from the contract module
        self.hooks = {}                 # event hooks: 'field_read', 'field_write', 'callback', 'call'
        self.cur_exc = []

    def opt(self, key, default=None):
        return getattr(self.contract, "options", {}).get(key, default) if self.contract is not None else default

    # ------------------------------------------------------------ class/type helpers
    def class_kind(self, name, hint=None):
        ci = self.repo.find_class(name, hint)
        if ci is None:
            return None
        return "enum" if ci.is_enum else "obj"

    def ann_type(self, node, relpath):
        return type_from_annotation(node, lambda n: self.class_kind(n, relpath))

    def enum_info(self, name, hint=None):
        ci = self.repo.find_class(name, hint)
        if ci is None or not ci.is_enum:
            raise E.Unsupported(f"enum {name} not found")
        members = ci.enum_members
        sort, consts = enum_sort(name, [m for m, _ in members])
        return ci, members, sort, consts

    def enum_member(self, ename, member, hint=None):
        _ci, members, _sort, consts = self.enum_info(ename, hint)
        if member not in consts:
            raise E.PyExc(VExc("AttributeError"), f"{ename}.{member}")
        return VEnum(ename, consts[member])

    def enum_value(self, v: VEnum):
        _ci, members, _sort, consts = self.enum_info(v.ename)
        vals = [val for _m, val in members]
        if all(isinstance(x, str) for x in vals):
            t = z3.StringVal(vals[-1])
            for (m, val) in reversed(members[:-1]):
                t = z3.If(v.t == consts[m], z3.StringVal(val), t)
            return VStr(z3.simplify(t))
        if all(isinstance(x, int) and not isinstance(x, bool) for x in vals):
            t = z3.IntVal(vals[-1])
            for (m, val) in reversed(members[:-1]):
                t = z3.If(v.t == consts[m], z3.IntVal(val), t)
            return VInt(z3.simplify(t))
        raise E.Unsupported(f"enum {v.ename} has non str/int values")

    def enum_name(self, v: VEnum):
        _ci, members, _sort, consts = self.enum_info(v.ename)
        t = z3.StringVal(members[-1][0])
        for (m, _val) in reversed(members[:-1]):
            t = z3.If(v.t == consts[m], z3.StringVal(m), t)
        return VStr(z3.simplify(t))

    def sort_of(self, ty):
        k = ty[0]
        if k == "int":
            return z3.IntSort()
        if k in ("real", "datetime", "timedelta"):
            return z3.RealSort()
        if k == "bool":
            return z3.BoolSort()
        if k == "str":
            return z3.StringSort()
        if k == "enum":
            return self.enum_info(ty[1])[2]
        if k in ("any", "pyvalue", "astnode"):
            return AnySort
        raise E.Unsupported(f"no sort for type {ty}")

    def wrap(self, ty, t):
        k = ty[0]
        if k == "int":
            return VInt(t)
        if k == "real":
            return VReal(t)
        if k in ("datetime", "timedelta"):
            return VReal(t, k)
        if k == "bool":
            return VBool(t)
        if k == "str":
            return VStr(t)
        if k == "enum":
            return VEnum(ty[1], t)
        if k in ("any", "pyvalue", "astnode"):
            return VAny(t, k if k != "any" else None)
        raise E.Unsupported(f"cannot wrap {ty}")

    def force(self, v):
        """resolve a lazy Optional: forks the path (persistently) on None / not None the first time the value is used"""
        if isinstance(v, VOpt):
            if v.forced is not None:
                return v.forced
            run = self.run
            if run.guard_depth > 0:
                # inside a guarded region the guard usually settles the question: no fork, and nothing is cached beyond the region
                if not run.feasible(v.isnone):
                    return v.get()
                if not run.feasible(z3.Not(v.isnone)):
                    return NONE
                if run.nopersist:
                    return NONE if run.decide(v.isnone, f"{v.name} is None") else v.get()
            if run.decide(v.isnone, f"{v.name} is None", persist=True):
                v.forced = NONE
            else:
                v.forced = v.get()
            return v.forced
        return v

    def term_of(self, v, ty=None):
        v = self.force(v)
        if ty is not None and ty[0] in ("any", "pyvalue", "astnode") and not isinstance(v, VAny):
            return self.inject_deep(v) if isinstance(v, (VRef, VTuple)) and not (isinstance(v, VRef) and v.kind == "obj") else self.inject(v)
        if isinstance(v, (VInt, VReal, VBool, VStr, VEnum, VAny)):
            if ty is not None and ty[0] in ("real", "datetime", "timedelta") and isinstance(v, VInt):
                return z3.ToReal(v.t)
            return v.t
        raise E.Unsupported(f"no term for {v!r}")

    # ------------------------------------------------------------ fresh symbolic values
    def fresh(self, ty, name):
        run = self.run
        k = ty[0]
        run.input_types.setdefault(name, ty)
        if k in ("int", "real", "bool", "str", "enum", "any", "datetime", "timedelta", "pyvalue", "astnode"):
            c = z3.Const(name, self.sort_of(ty))
            run.inputs[name] = c
            return self.wrap(ty, c)
        if k == "none":
            return NONE
        if k == "opt":
            b = z3.Bool(name + "#none")
            run.inputs[name + "#none"] = b
            if ty[1][0] in ("union", "opt") or self.opt("eager_optionals"):
                if run.decide(b, f"{name} is None", persist=True):
                    return NONE
                return self.fresh(ty[1], name)
            return VOpt(b, (lambda: self.fresh(ty[1], name)), name, ty[1])
        if k == "union":
            i = run.choose([(str(t), None) for t in ty[1:]], f"type({name})", persist=True)
            v = self.fresh(ty[1 + i], name)
            if isinstance(v, VAny):
                # the opaque alternative of a union is not an instance of the other alternatives' classes
                for t in ty[1:]:
                    if t[0] == "obj":
                        run.assume(z3.Not(z3.Function(f"isinstance_{t[1]}", AnySort, z3.BoolSort())(v.t)), persist=True)
            return v
        if k == "obj":
            return self.sym_ref(name, "obj", ty[1], lambda: ObjRec(ty[1], {}, sym=name))
        if k == "list":
            n = z3.Int(name + "#len")
            run.inputs[name + "#len"] = n
            run.assume(n >= 0)

            def mk():
                r = ListRec(None, n, ty[1], None, sym=name)
                if ty[1][0] in ("int", "real", "bool", "str", "enum", "any", "datetime", "timedelta"):
                    r.arr = z3.Array(name + "#arr", z3.IntSort(), self.sort_of(ty[1]))
                    r.mem = z3.Array(name + "#mem", self.sort_of(ty[1]), z3.BoolSort())
                elif ty[1][0] == "tuple" and all(t_[0] in ("int", "real", "bool", "str", "enum") for t_ in ty[1][1:]):
                    r.mem = z3.Array(name + "#mem", AnySort, z3.BoolSort())      # tuples of scalars: membership over the injected tuple
                if ty[1][0] == "obj" and self.contract is not None:
                    for cn in self.contract.counters.get(ty[1][1], {}):
                        c = z3.Int(f"{name}#count:{cn}")
                        run.inputs[str(c)] = c
                        run.assume(z3.And(c >= 0, c <= n))
                        r.cnt[cn] = c
                    self.counter_axioms(r, n)
                    r.preds = [ast.unparse(ast.parse(t, mode="eval").body) for t in self.contract.elem_facts.get(ty[1][1], [])]
                return r
            return self.sym_ref(name, "list", None, mk)
        if k == "dict":
            def mk():
                kt = ty[1]
                ks = self.sort_of(kt)
                r = DictRec(None, kt, ty[2], z3.Array(name + "#dom", ks, z3.BoolSort()), None, sym=name,
                            size=z3.Int(name + "#size"))
                if self.contract is not None:
                    r.valsym = self.contract.pre_state.get("alias_values", {}).get(name)
                if ty[2][0] in ("int", "real", "bool", "str", "enum", "any", "datetime", "timedelta"):
                    r.val = z3.Array(name + "#val", ks, self.sort_of(ty[2]))
                return r
            ref = self.sym_ref(name, "dict", None, mk)
            sz = z3.Int(name + "#size")
            run.assume(sz >= 0)
            return ref
        if k == "set":
            def mk():
                return SetRec(None, ty[1], z3.Array(name + "#dom", self.sort_of(ty[1]), z3.BoolSort()), sym=name,
                              size=z3.Int(name + "#size"))
            ref = self.sym_ref(name, "set", None, mk)
            sz = z3.Int(name + "#size")
            run.assume(sz >= 0)
            es = self.sort_of(ty[1])
            dom = z3.Array(name + "#dom", es, z3.BoolSort())
            w = z3.Const(name + "#witness", es)
            x = z3.Const("x!mem", es)
            run.assume(z3.ForAll([x], z3.Implies(z3.Select(dom, x), sz > 0)))      # emptiness agrees with membership
            run.assume(z3.Implies(sz > 0, z3.Select(dom, w)))
            return ref
        if k == "callback":
            return VCallback(name, self.cb_spec(name))
        if k == "lock":
            h = z3.Int(name + "#held")
            run.inputs[name + "#held"] = h
            held = self.contract.locks.get("held_on_entry", []) if self.contract is not None else []
            run.assume(h >= 0 if name in held else h == 0)
            return self.sym_ref(name, "lock", ty[1], lambda: LockRec(ty[1], h, sym=name))
        if k == "tuple":
            return VTuple([self.fresh(t, f"{name}[{i}]") for i, t in enumerate(ty[1:])])
        if k == "type":
            return VAny(z3.Const(name, AnySort), "type")
        raise E.Unsupported(f"fresh: type {ty}")

    def counter_axioms(self, r, n):
        """declared relations between the ghost counters of one list (e.g. the 4-way partition identity of an enum tag)"""
        if self.contract is None:
            return
        for cls, ex in self.contract.counter_axioms:
            if r.elem[0] == "obj" and r.elem[1] == cls and all(k in ex for k in []):
                env = {k: VInt(v) for k, v in r.cnt.items()}
                env["n"] = VInt(n)
                node = ast.parse(ex, mode="eval").body
                self.pure += 1
                try:
                    self.run.assume(self.truthy(self.eval(node, E.Frame("<spec>", None, env, None, "axiom"))))
                finally:
                    self.pure -= 1

    def sym_ref(self, name, kind, cls, factory):
        run = self.run
        oid = run.sym_oids.get(name)
        if oid is None:
            oid = run.next_oid
            run.next_oid += 1
            run.sym_oids[name] = oid
            run.templates[oid] = factory
            ref = VRef(oid, kind, cls)
            if kind == "obj" and ("[" in name or "." in name) and getattr(self, "verifier", None) is not None \
                    and (self.contract is None or self.contract.use_invariants):
                # a pre-state object reached through a field or container: it satisfies its class invariants too
                for _lbl, ex in self.verifier.class_clauses(self.reg.invariants, cls) + self.verifier.class_clauses(self.reg.config, cls):
                    try:
                        run.assume(self.verifier.eval_bool(self, ex, E.Frame("<spec>", None, {}, None, "inv"), {"self": ref}), persist=True)
                    except (E.Unsupported, E.PyExc):
                        pass
            return ref
        return VRef(oid, kind, cls)

    # ------------------------------------------------------------ names
    def lookup(self, name, frame):
        f = frame
        while f is not None:
            if name in f.locals:
                return f.locals[name]
            f = f.parent
        if self.pure and name in self.spec_env:
            return self.spec_env[name]
        if name in self.spec_funcs:
            fn, rel = self.spec_funcs[name]
            return VFunc(fn, None, None, rel, name)
        try:
            return self.lookup_global(name, frame.relpath if frame else None)
        except E.Unsupported as ex:
            if self.contract is not None and self.contract.options.get("closure") is not None:
                raise      # a nested function under contract: an undeclared name is a free variable of the enclosing scope the contract does not know (undecided)
            if "not resolvable" in str(ex) and frame is not None and frame.relpath and not frame.relpath.startswith("<") and not self.pure:
                # Python semantics: a local that is not (yet) bound on this path, or an unknown global -> UnboundLocalError / NameError
                raise E.PyExc(VExc("UnboundLocalError" if self.is_local_name(name, frame) else "NameError"), f"name {name!r} is not defined")
            raise

    _local_names_cache: dict = {}

    def is_local_name(self, name, frame):
        import ast as _ast
        key = (frame.relpath, frame.fname)
        if key not in self._local_names_cache:
            names = set()
            m = self.repo.module(frame.relpath)
            fn = None
            qual = frame.fname.split(".")[-1] if frame.fname else ""
            for n in _ast.walk(m.tree) if hasattr(m, "tree") else []:
                if isinstance(n, (_ast.FunctionDef, _ast.AsyncFunctionDef)) and n.name == qual:
                    fn = n
                    for x in _ast.walk(fn):
                        if isinstance(x, _ast.Name) and isinstance(x.ctx, _ast.Store):
                            names.add(x.id)
            self._local_names_cache[key] = names
        return name in self._local_names_cache[key]

    spec_env: dict = {}

    def lookup_global(self, name, relpath):
        if relpath and not relpath.startswith("<"):
            m = self.repo.module(relpath)
            if name in m.classes:
                return self.class_value(m.classes[name])
            if name in m.functions:
                return VFunc(m.functions[name], None, None, relpath, name)
            if name in m.consts:
                return self.eval(m.consts[name], E.Frame(relpath, None))
            if name in m.imports:
                org = m.imports[name]
                base = org.split(".")[-1]
                if org.lstrip(".").split(".")[0] in ("operon_ai",) or org.startswith("."):
                    ci = self.repo.find_class(base, relpath)
                    if ci is not None:
                        return self.class_value(ci)
                    rp = self.repo._resolve_import(relpath, org)
                    if rp:
                        m2 = self.repo.module(rp)
                        if base in m2.functions:
                            return VFunc(m2.functions[base], None, None, rp, base)
                        if base in m2.consts:
                            return self.eval(m2.consts[base], E.Frame(rp, None))
                    raise E.Unsupported(f"import {org}")
                return self.stdlib_name(org)
        if relpath and relpath.startswith("<") and self.repo.default_hint:
            # specification frames see the module-level names of the module under verification
            m0 = self.repo.module(self.repo.default_hint)
            if name in m0.consts or name in m0.classes or name in m0.functions:
                return self.lookup_global(name, self.repo.default_hint)
        if name in E.BUILTIN_EXC:
            return VExcClass(name)
        if relpath and relpath.startswith("<") and name in ("hashlib", "json", "re", "math", "time", "datetime"):
            return VModule(name if name != "datetime" else "datetime.datetime")
        if hasattr(__import__("builtins"), name):
            return VBuiltin(name)
        ci = self.repo.find_class(name, None) if name[:1].isupper() else None
        if ci is not None:
            return self.class_value(ci)
        raise E.Unsupported(f"name {name!r} not resolvable in {relpath}")

    def class_value(self, ci):
        if self.repo.is_exception_class(ci):
            return VExcClass(ci.name)
        return VClass(ci.name, ci)

    def stdlib_name(self, org):
        org = org.lstrip(".")
        if org in ("datetime.datetime",):
            return VModule("datetime.datetime")
        if org in ("datetime.timedelta",):
            return VBuiltin("timedelta")
        if org in ("dataclasses.field",):
            return VBuiltin("dc_field")
        if org.split(".")[-1] in E.EXTRA_EXC_BASES and org.split(".")[-1][0].isupper():
            return VExcClass(org.split(".")[-1])
        return VModule(org)
