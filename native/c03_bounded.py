"""Witness finder / bounded stand-in for C03 on the real code: all allowed-capability sets over 3 capabilities (incl. None and empty),
all required sets, three entry points (expression pathway auto+forced, execute_tool_call, LLM tool loop with an adversarial provider)."""
import io, itertools, json, os, sys, contextlib
sys.path.insert(0, os.environ.get("OPERON_REPO", "/repo"))


def search():
    from operon_ai.organelles.mitochondria import Mitochondria, MetabolicPathway, SimpleTool
    from operon_ai.core.types import Capability
    from operon_ai.providers import ToolCall, LLMResponse
    caps = list(Capability)[:3]
    subsets = [set(c) for r in range(len(caps) + 1) for c in itertools.combinations(caps, r)]
    n = 0
    for allowed in [None] + subsets:
        for req in subsets:
            ok = allowed is None or req <= allowed
            for entry, prior in itertools.product(("metabolize-auto", "metabolize-forced", "execute_tool_call", "tool-loop", "registered-function",
                                                   "registered-function-inside-expression", "registered-function-forced-math"),
                                                  ("none", "same-name-cleared-first", "capabilities-raised-in-place")):
                n += 1
                ran = []
                m = Mitochondria(allowed_capabilities=allowed, silent=True)
                if prior != "none":
                    # history: a harmless tool of the same name was registered and called successfully before (a cached clearance must not carry over)
                    t0 = SimpleTool(name="t", description="d", func=lambda *a, **k: 0, required_capabilities=set())
                    with contextlib.redirect_stdout(io.StringIO()):
                        m.engulf_tool(t0)
                        m.metabolize("t(1)")
                        m.execute_tool_call(ToolCall(id="0", name="t", arguments={}))
                if prior == "capabilities-raised-in-place" and entry != "registered-function":
                    t0.func = lambda *a, **k: ran.append(1) or 1
                    t0.required_capabilities = set(req)
                elif entry.startswith("registered-function"):
                    m.register_function("t", lambda *a, **k: ran.append(1) or 1, required_capabilities=set(req))
                else:
                    m.engulf_tool(SimpleTool(name="t", description="d", func=lambda *a, **k: ran.append(1) or 1,
                                             required_capabilities=set(req)))
                with contextlib.redirect_stdout(io.StringIO()):
                    if entry in ("metabolize-auto", "registered-function"):
                        r = m.metabolize("t(1)")
                        success = r.success
                    elif entry == "registered-function-inside-expression":
                        r = m.metabolize("0 + t(1)")           # the evaluator must not know tool names: fails for allowed and disallowed tools alike
                        success = r.success
                    elif entry == "registered-function-forced-math":
                        r = m.metabolize("t(1)", pathway=MetabolicPathway.GLYCOLYSIS)
                        success = r.success
                    elif entry == "metabolize-forced":
                        r = m.metabolize("t(1)", pathway=MetabolicPathway.OXIDATIVE)
                        success = r.success
                    elif entry == "execute_tool_call":
                        r = m.execute_tool_call(ToolCall(id="1", name="t", arguments={}))
                        success = r.success
                    else:
                        from operon_ai.organelles.nucleus import Nucleus

                        class P:
                            name = "adv"
                            k = 0

                            def is_available(self):
                                return True

                            def complete(self, prompt, config=None):
                                return LLMResponse(content="f", model="m", tokens_used=1, latency_ms=0.0)

                            def complete_with_tools(self, prompt, tools=None, config=None):
                                P.k += 1
                                return LLMResponse(content="c", model="m", tokens_used=1, latency_ms=0.0), [ToolCall(id="1", name="t", arguments={})]
                        Nucleus(provider=P()).transcribe_with_tools("p", m, max_iterations=2)
                        success = None
                if not ok and ran:
                    return n, (f"{entry} (history: {prior}): tool requiring {sorted(c.name for c in req)} ran with "
                               f"allowed_capabilities={None if allowed is None else sorted(c.name for c in allowed)}")
                if not ok and success:
                    return n, f"{entry}: refusal reported as success"
                if ok and entry not in ("tool-loop", "registered-function-inside-expression", "registered-function-forced-math") and not ran:
                    return n, f"{entry}: authorised tool did not run (check too strict?)"
    return n, None


if __name__ == "__main__":
    n, bad = search()
    out = {"status": "ok" if bad is None else "violation", "bound": "allowed/required capability sets over 3 capabilities x 7 entry points x 3 registration histories", "cases": n}
    if bad:
        out["detail"] = bad
        os.makedirs("replays", exist_ok=True)
        json.dump({"property": "C03", "witness": bad, "how_to_replay": "/venv/bin/python native/c03_bounded.py"}, open("replays/C03-bounded.json", "w"), indent=1)
        out["replay"] = "replays/C03-bounded.json"
    print(json.dumps(out))
