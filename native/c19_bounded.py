"""Bounded stand-in / witness finder for C19 (labelled bounded, never counted as proved).

Enumerates every pipeline of 1..N stages whose checkpoint / processor / error handler independently behave as
{absent, pass, reject, raise}, required or optional, both halt_on_failure settings, and checks the statement of C19
on the real Cascade with a call monitor.  Prints one JSON line.
usage: /venv/bin/python native/c19_bounded.py [--stages N] [--out replay.json]
"""
import io, itertools, json, os, sys, contextlib
sys.path.insert(0, os.environ.get("OPERON_REPO", "/repo"))


def check_pipeline(spec, halt, parallel=False):
    from operon_ai.topology.cascade import Cascade, CascadeStage, StageStatus
    log = []
    stages = []
    for i, (cp, pr, oe, req, amp) in enumerate(spec):
        def mk_cp(i=i, cp=cp):
            if cp == "none":
                return None
            def f(x):
                log.append(("checkpoint", i, x))
                if cp == "raise":
                    raise RuntimeError("gate")
                return cp == "pass"
            return f
        def mk_pr(i=i, pr=pr):
            def f(x):
                log.append(("processor", i, x))
                if pr == "raise":
                    raise RuntimeError("proc")
                return ("out", i, x)
            return f
        def mk_oe(i=i, oe=oe):
            if oe == "none":
                return None
            def f(e):
                log.append(("on_error", i, None))
                if oe == "raise":
                    raise RuntimeError("handler")
                return ("rec", i)
            return f
        stages.append(CascadeStage(name=f"s{i}", processor=mk_pr(), amplification=amp, checkpoint=mk_cp(),
                                   on_error=mk_oe(), required=req))
    # the declared mode is a label: run() must behave the same whatever mode the cascade was constructed with
    from operon_ai.topology.cascade import CascadeMode
    modes = list(CascadeMode)
    c = Cascade("b", mode=modes[(len(spec) + sum(1 for x in spec if x[3])) % len(modes)], halt_on_failure=halt, silent=True, max_amplification=100.0)
    for s in stages:
        c.add_stage(s)
    with contextlib.redirect_stdout(io.StringIO()):
        res = c.run_parallel("in") if parallel else c.run("in")
    errs = []
    # gate rule: a processor call for stage i with signal x needs checkpoint (if any) to have returned True for x
    for j, (kind, i, x) in enumerate(log):
        if kind == "processor" and spec[i][0] != "none":
            ok = any(k2 == "checkpoint" and i2 == i and x2 is x or (k2 == "checkpoint" and i2 == i and x2 == x)
                     for (k2, i2, x2) in log[:j]) and spec[i][0] == "pass"
            if not ok:
                errs.append(f"stage {i} processed {x!r} without a passing gate")
    if parallel:
        return errs, res, log
    # halting rule
    if halt:
        halted_at = None
        for i, (cp, pr, oe, req, amp) in enumerate(spec):
            blocked = cp in ("reject", "raise")
            failed = (not blocked) and pr == "raise" and oe in ("none", "raise") and req
            if blocked or failed:
                halted_at = i
                break
        if halted_at is not None:
            for (kind, i, x) in log:
                if i > halted_at:
                    errs.append(f"stage {i} {kind} ran after the pipeline halted at stage {halted_at}")
    # success semantics
    all_ok = all(cp in ("none", "pass") and (pr == "ok" or oe == "ok") for (cp, pr, oe, req, amp) in spec)
    if res.success and not all_ok:
        errs.append("reported success although a stage was blocked or failed")
    if res.success:
        # composition: expected value by folding
        x = "in"
        for i, (cp, pr, oe, req, amp) in enumerate(spec):
            x = ("out", i, x) if pr == "ok" else ("rec", i)
        if res.final_output != x:
            errs.append(f"final output {res.final_output!r} is not the composition {x!r}")
        names = [r.stage_name for r in res.stage_results]
        if names != [f"s{i}" for i in range(len(spec))]:
            errs.append("stage results out of order")
    else:
        if res.final_output is not None:
            errs.append("final output released on an unsuccessful run")
    # amplification = clamped product over normally completed stages (in execution order)
    acc = 1.0
    ran = [i for (kind, i, x) in log if kind == "processor"]
    for i in ran:
        if spec[i][1] == "ok":
            acc = min(100.0, acc * spec[i][4])
    if abs(res.total_amplification - acc) > 1e-9:
        errs.append(f"amplification {res.total_amplification} != clamped product {acc}")
    return errs, res, log


def search(nstages, amps=(2.0,), parallel_too=True):
    cps, prs, oes = ("none", "pass", "reject", "raise"), ("ok", "raise"), ("none", "ok", "raise")
    per_stage = [(cp, pr, oe, req, amp) for cp in cps for pr in prs for oe in oes for req in (True, False) for amp in amps]
    n = 0
    for k in range(1, nstages + 1):
        for spec in itertools.product(per_stage, repeat=k):
            for halt in (True, False):
                n += 1
                errs, res, log = check_pipeline(spec, halt)
                if errs:
                    return n, {"spec": spec, "halt_on_failure": halt, "errors": errs, "mode": "run"}
            if parallel_too and k == 1:
                n += 1
                errs, res, log = check_pipeline(spec, True, parallel=True)
                if errs:
                    return n, {"spec": spec, "halt_on_failure": True, "errors": errs, "mode": "run_parallel"}
    # amplification clamp incl. factors above the maximum
    for spec in itertools.product([("none", "ok", "none", True, a) for a in (0.5, 3.0, 200.0)], repeat=min(3, nstages + 1)):
        n += 1
        errs, res, log = check_pipeline(spec, True)
        if errs:
            return n, {"spec": spec, "halt_on_failure": True, "errors": errs, "mode": "run"}
    return n, None


def main():
    import argparse
    ap = argparse.ArgumentParser()
    ap.add_argument("--stages", type=int, default=2)
    ap.add_argument("--out", default=None)
    a = ap.parse_args()
    n, bad = search(a.stages)
    out = {"status": "ok" if bad is None else "violation", "bound": f"pipelines of 1..{a.stages} stages x "
           "{checkpoint: none/pass/reject/raise} x {processor: ok/raise} x {handler: none/ok/raise} x required x halt",
           "cases": n}
    if bad is not None:
        out["detail"] = "; ".join(bad["errors"][:3]) + f" | pipeline={bad['spec']} halt={bad['halt_on_failure']} mode={bad['mode']}"
        if a.out:
            os.makedirs(os.path.dirname(a.out), exist_ok=True)
            json.dump({"property": "C19", "witness": bad, "how_to_replay": "/venv/bin/python native/c19_bounded.py --stages 2"},
                      open(a.out, "w"), indent=1, default=str)
            out["replay"] = os.path.relpath(a.out, os.path.dirname(os.path.dirname(os.path.abspath(__file__))))
    print(json.dumps(out, default=str))


if __name__ == "__main__":
    main()
