"""Witness finder / bounded stand-in for C13 on the real Lysosome: small configurations, operation sequences, raising digesters,
watchdog for hangs, and a spy subclass that reports writes of guarded fields made without holding the lock."""
import io, itertools, json, logging, os, sys, threading, contextlib
logging.disable(logging.CRITICAL)
sys.path.insert(0, os.environ.get("OPERON_REPO", "/repo"))
sys.path.insert(0, os.path.dirname(os.path.dirname(os.path.abspath(__file__))))
GUARDED = ["_queue", "_total_ingested", "_total_digested", "_total_recycled"]


def run_with_watchdog(fn, timeout=2.0):
    res = {}

    def t():
        try:
            res["v"] = fn()
        except BaseException as e:   # noqa
            res["e"] = e
    th = threading.Thread(target=t, daemon=True)
    th.start()
    th.join(timeout)
    if th.is_alive():
        return "hang", None
    return ("exc", res["e"]) if "e" in res else ("ok", res.get("v"))


def search(depth=4):
    from operon_ai.organelles.lysosome import Lysosome, Waste, WasteType
    from native.replay import InstrumentedLock, ReentryDetected
    n = 0
    ops_all = ["ingest", "ingest_toxic", "ingest_bad", "digest", "digest1", "digest0", "autophagy"]
    for maxq in (2, 3):
        for thr in (1, 2, 3, 5):
            for seq in itertools.product(ops_all, repeat=depth):
                n += 1
                unlocked = []

                class Spy(Lysosome):
                    def __setattr__(self, k, v):
                        lk = self.__dict__.get("_lock")
                        if k in GUARDED and isinstance(lk, InstrumentedLock) and lk.owner != threading.get_ident() and self.__dict__.get("_armed"):
                            unlocked.append(k)
                        object.__setattr__(self, k, v)
                toxic_calls = []
                with contextlib.redirect_stdout(io.StringIO()):
                    ly = Spy(max_queue_size=maxq, auto_digest_threshold=thr, silent=True, on_toxic=lambda w: toxic_calls.append(w),
                             digesters={WasteType.ORPHANED_RESOURCE: lambda w: (_ for _ in ()).throw(RuntimeError("bad digester"))})
                    ly._lock = InstrumentedLock(reentrant="RLock" in type(ly.__dict__["_lock"]).__name__ or hasattr(ly.__dict__["_lock"], "_is_owned"))
                    object.__setattr__(ly, "_armed", True)
                    ingested = errors = expired = 0
                    acct = {"errors": 0, "dropped": 0}
                    real_digest, real_emergency = ly.digest, ly._emergency_digest

                    def spy_digest(*a, _rd=real_digest, **k):
                        r_ = _rd(*a, **k)
                        acct["errors"] += len(r_.errors)           # also the digests started internally (auto-digest), whose result is discarded
                        return r_

                    def spy_emergency(_re=real_emergency):
                        q0, d0 = len(ly._queue), ly._total_digested
                        _re()
                        acct["dropped"] += (q0 - len(ly._queue)) - (ly._total_digested - d0)   # taken off the queue without being counted as digested
                    object.__setattr__(ly, "digest", spy_digest)
                    object.__setattr__(ly, "_emergency_digest", spy_emergency)
                    toxic_ids = []
                    for op in seq:
                        def step(op=op):
                            nonlocal ingested, errors, expired
                            if op == "ingest":
                                ly.ingest(Waste(waste_type=WasteType.EXPIRED_CACHE, content={}, source="s"))
                                ingested += 1
                            elif op == "ingest_toxic":
                                ly.ingest_sensitive("secret", "s")
                                ingested += 1
                            elif op == "ingest_bad":
                                ly.ingest(Waste(waste_type=WasteType.ORPHANED_RESOURCE, content={}, source="s"))
                                ingested += 1
                            elif op == "digest":
                                r = ly.digest()
                                errors += len(r.errors)
                            elif op == "digest1":
                                r = ly.digest(max_items=1)
                                errors += len(r.errors)
                            elif op == "digest0":
                                r = ly.digest(max_items=0)
                                errors += len(r.errors)
                            else:
                                expired += ly.autophagy()
                        st, v = run_with_watchdog(step)
                        if st == "hang":
                            return n, f"hang: Lysosome(max_queue_size={maxq}, auto_digest_threshold={thr}) ops={seq} never returned from {op}"
                        if st == "exc":
                            if isinstance(v, ReentryDetected):
                                return n, f"hang: Lysosome(max_queue_size={maxq}, auto_digest_threshold={thr}) ops={seq}: {op} re-acquires the non-reentrant lock it holds"
                            return n, f"raise: ops={seq}: {op} raised {type(v).__name__}: {v}"
                        accounted = len(ly._queue) + ly._total_digested + acct["errors"] + acct["dropped"] + expired
                        if accounted != ingested:
                            return n, (f"accounting: after ops={seq[:seq.index(op) + 1] if False else seq} (at {op}) with max_queue_size={maxq}, auto_digest_threshold={thr}: {ingested} ingested but "
                                       f"{len(ly._queue)} queued + {ly._total_digested} digested + {acct['errors']} digestion errors + {acct['dropped']} emergency-dropped + {expired} expired = {accounted}")
                        if len(toxic_calls) != len({id(x) for x in toxic_calls}):       # the objects are kept alive in the list, so ids are unique
                            return n, f"toxic callback called twice for one item after ops={seq}"
                        if len(ly._queue) > maxq:
                            return n, f"queue bound: {len(ly._queue)} > max_queue_size={maxq} after ops={seq}"
                        if "secret" in [str(x) for x in ly._recycling_bin.values()]:
                            return n, f"sensitive item in the recycling bin after ops={seq}"
                    if unlocked:
                        return n, f"unlocked write of guarded field(s) {sorted(set(unlocked))} (lost-update race) in ops={seq}"
    return n, None


if __name__ == "__main__":
    depth = int(sys.argv[1]) if len(sys.argv) > 1 else 3
    n, bad = search(depth)
    out = {"status": "ok" if bad is None else "violation", "bound": f"max_queue_size 2..3, auto_digest_threshold in {{1,2,3,5}}, op sequences of length {depth} over 7 ops (per-call accounting of every ingested item)",
           "cases": n}
    if bad:
        out["detail"] = bad
        os.makedirs("replays", exist_ok=True)
        json.dump({"property": "C13", "witness": bad, "how_to_replay": f"/venv/bin/python native/c13_bounded.py {depth}"}, open("replays/C13-bounded.json", "w"), indent=1)
        out["replay"] = "replays/C13-bounded.json"
    print(json.dumps(out))
    sys.stdout.flush()
    os._exit(0)
