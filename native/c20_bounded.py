"""Bounded stand-in / witness finder for C20 on the real Genome (labelled bounded): all operation sequences up to depth D over
{add_gene, mutate, rollback, set_expression/silence/activate, replicate(mutations), express(context)} on parent and child, both
allow_mutations settings, approval callbacks approving subsets, checked against a reference model of the value map."""
import io, itertools, json, os, sys, contextlib
sys.path.insert(0, os.environ.get("OPERON_REPO", "/repo"))


def search(D=3):
    from operon_ai.state.genome import Genome, Gene, GeneType, ExpressionLevel
    n = 0
    approvals = [None, lambda m: False, lambda m: m.gene_name == "a", lambda m: True,
                 lambda m: getattr(m, "new_value", 0) != 6 and getattr(m, "new_value", 0) != 66]     # value-dependent approver: refuses the value 6
    ops = [("add", "a", 9), ("add", "z", 1), ("mutate", "a", 5), ("mutate", "a", 66), ("mutate", "c", 6), ("mutate", "nope", 1), ("rollback", "a"), ("rollback", "c"),
           ("silence", "a"), ("activate", "a"), ("setexpr", "c"), ("replicate", {"a": 7, "c": 8}), ("replicate", None), ("express", {"c": 1}), ("express", None)]
    # a gene enters at the expression level it declares: one that is silenced by default is not expressed (constructor and add_gene)
    for via_ctor in (True, False):
        n += 1
        with contextlib.redirect_stdout(io.StringIO()):
            quiet = Gene("q", 4, default_expression=ExpressionLevel.SILENCED)
            g = Genome(genes=[Gene("a", 1)] + ([quiet] if via_ctor else []), silent=True)
            if not via_ctor:
                g.add_gene(quiet)
            cfg = g.express()
        if "q" in cfg or "a" not in cfg:
            return n, f"gene declared with default_expression=SILENCED ({'constructor' if via_ctor else 'add_gene'}) is expressed: express() = {cfg}"
    for allow in (False, True):
        for ai, approve in enumerate(approvals):
            for seq in itertools.product(range(len(ops)), repeat=D):
                n += 1
                with contextlib.redirect_stdout(io.StringIO()):
                    g = Genome(genes=[Gene("a", 1), Gene("b", 2, gene_type=GeneType.DORMANT), Gene("c", 3, gene_type=GeneType.CONDITIONAL)],
                               allow_mutations=allow, on_mutation=approve, silent=True)
                model = {"a": 1, "b": 2, "c": 3}
                approved_log = []      # (gene, original) of approved mutations, for rollback
                authorised = lambda name, val=None: allow or (approve is not None and bool(approve(type("M", (), {"gene_name": name, "new_value": val})())))
                for oi in seq:
                    op = ops[oi]
                    before_hash = g.get_hash()
                    nlog = len(g._mutations)
                    with contextlib.redirect_stdout(io.StringIO()):
                        if op[0] == "add":
                            r = g.add_gene(Gene(op[1], op[2]))
                            if op[1] in model and not allow:
                                if r:
                                    return n, f"re-adding gene {op[1]!r} accepted with mutations disabled (ops={[ops[i][:2] for i in seq]})"
                            else:
                                model[op[1]] = op[2]
                        elif op[0] == "mutate":
                            r = g.mutate(op[1], op[2])
                            if op[1] in model:
                                if authorised(op[1], op[2]):
                                    approved_log.append((op[1], model[op[1]]))
                                    model[op[1]] = op[2]
                                    if not r:
                                        return n, f"authorised mutation of {op[1]!r} refused"
                                else:
                                    if r:
                                        return n, f"unauthorised mutation of {op[1]!r} accepted (allow={allow}, approval#{ai})"
                                    if len(g._mutations) != nlog + 1 or g._mutations[-1].approved:
                                        return n, f"refused mutation of {op[1]!r} not logged as unapproved"
                        elif op[0] == "rollback":
                            last = [x for x in approved_log if x[0] == op[1]]
                            r = g.rollback_mutation(op[1])
                            if last and authorised(op[1], last[-1][1]):
                                approved_log.append((op[1], model[op[1]]))
                                model[op[1]] = last[-1][1]
                            elif r and not (last and authorised(op[1], last[-1][1])):
                                return n, f"rollback of {op[1]!r} succeeded without an authorised path"
                        elif op[0] == "silence":
                            g.silence_gene(op[1])
                        elif op[0] == "activate":
                            g.activate_gene(op[1])
                        elif op[0] == "setexpr":
                            g.set_expression(op[1], ExpressionLevel.HIGH)
                        elif op[0] == "replicate":
                            pm = dict(model)
                            ph = g.get_hash()
                            child = g.replicate(mutations=op[1])
                            if {k: v.value for k, v in g._genes.items()} != pm or g.get_hash() != ph:
                                return n, f"replication altered the parent (ops={[ops[i][:2] for i in seq]})"
                            for k, v in child._genes.items():
                                exp = op[1][k] if (op[1] and k in op[1] and authorised(k, op[1][k])) else pm[k]
                                if v.value != exp:
                                    return n, f"child gene {k!r} = {v.value!r}, expected {exp!r} (allow={allow}, approval#{ai}, mutations={op[1]})"
                            # every refused replication mutation is logged (as unapproved) in the child
                            for k, nv in (op[1] or {}).items():
                                if k in pm and not authorised(k, nv):
                                    if not any(m_.gene_name == k and not m_.approved for m_ in child._mutations):
                                        return n, (f"replicate(mutations={op[1]}): the refused mutation of {k!r} is not logged as unapproved in the child "
                                                   f"(allow={allow}, approval#{ai}, child log={[(m_.gene_name, m_.approved) for m_ in child._mutations]})")
                        elif op[0] == "express":
                            cfg = g.express(op[1])
                            expect = {}
                            for k, gene in g._genes.items():
                                e = g._expression.get(k)
                                if e is not None and e.level == ExpressionLevel.SILENCED:
                                    continue
                                if gene.gene_type == GeneType.DORMANT:
                                    continue
                                if gene.gene_type == GeneType.CONDITIONAL and not (op[1] and k in op[1]):
                                    continue
                                expect[k] = gene.value
                            if cfg != expect:
                                return n, f"express({op[1]}) = {cfg}, expected {expect}"
                    actual = {k: v.value for k, v in g._genes.items()}
                    if actual != model:
                        return n, f"value map {actual} != reference {model} after {op[:2]} (allow={allow}, approval#{ai}, ops={[ops[i][:2] for i in seq]})"
                    if op[0] in ("silence", "activate", "setexpr", "express", "replicate") and g.get_hash() != before_hash:
                        return n, f"configuration hash changed by {op[0]}"
    return n, None


def search_readonly():
    """the read-only entry points (validate, get_gene, get_value, diff, export, get_statistics, list_genes, get_hash, express, replicate's parent)
    on genomes whose values are scalars and nested containers, after refused mutations / silencing: a DEEP snapshot of every stored value, the
    hash, the expression levels, the expressed configuration and the log must be the same before and after (bounded)"""
    import copy, enum
    from operon_ai.state.genome import Genome, Gene, ExpressionLevel

    class Colour(enum.Enum):
        RED = "red"
    shapes = [1, "s", [1, 2], {"k": 1}, (1, 2), {"x", "y"}, {"allowed": {"search", "calc"}, "window": (1, 8)}, [(1, 2), {"q"}], {"c": Colour.RED},
              [Colour.RED, [(3,)]], {"deep": {"deeper": [frozenset({1})]}}]
    preludes = [[], [("mutate", "a", 5)], [("silence", "a")], [("mutate", "a", 5), ("silence", "b")]]
    calls = [("validate", lambda g, o: g.validate()), ("get_gene", lambda g, o: g.get_gene("a")), ("get_value", lambda g, o: g.get_value("a")),
             ("get_value(default)", lambda g, o: g.get_value("zz", [])), ("diff", lambda g, o: g.diff(o)), ("export", lambda g, o: g.export()),
             ("get_statistics", lambda g, o: g.get_statistics()), ("list_genes", lambda g, o: g.list_genes()), ("get_hash", lambda g, o: g.get_hash()),
             ("express", lambda g, o: g.express()), ("child.export", lambda g, o: g.replicate().export()),
             ("child.validate", lambda g, o: g.replicate().validate())]
    n = 0
    for v in shapes:
        for pre in preludes:
            for cname, call in calls:
                n += 1
                g = Genome(genes=[Gene(name="a", value=copy.deepcopy(v), required=True), Gene(name="b", value=copy.deepcopy(shapes[6]))], silent=True)
                other = Genome(genes=[Gene(name="a", value=0)], silent=True)
                for op in pre:
                    if op[0] == "mutate":
                        g.mutate(op[1], op[2])
                    else:
                        g.silence_gene(op[1])

                def snap():
                    # compared with ==, and types alongside (a set turned into a list, a tuple into a list); never by repr (set order)
                    def ty(x):
                        if isinstance(x, dict):
                            return ("dict", sorted((repr(k), ty(w)) for k, w in x.items()))
                        if isinstance(x, (list, tuple)):
                            return (type(x).__name__, [ty(w) for w in x])
                        return type(x).__name__
                    return ({k: copy.deepcopy(x.value) for k, x in g._genes.items()}, {k: ty(x.value) for k, x in g._genes.items()}, g.get_hash(),
                            {k: x.level for k, x in g._expression.items()}, copy.deepcopy(g.express()), len(g._mutations), [m.approved for m in g._mutations])
                before = snap()
                try:
                    call(g, other)
                except Exception:      # noqa  (totality of these entry points is not part of the property)
                    pass
                after = snap()
                if after != before:
                    return n, (f"{cname}() changed the genome with mutations disabled (value of 'a' = {v!r}, prelude {pre}): "
                               f"{before[0]} / hash {before[2]} -> {after[0]} / hash {after[2]}")
    return n, None


if __name__ == "__main__":
    D = int(sys.argv[1]) if len(sys.argv) > 1 else 3
    n, bad = search(D)
    if bad is None:
        n2, bad = search_readonly()
        n += n2
    out = {"status": "ok" if bad is None else "violation", "bound": f"operation sequences of depth {D} over 15 operations x allow_mutations x 5 approval callbacks (by gene and by value); read-only entry points x 11 value shapes x 4 preludes with deep snapshots", "cases": n}
    if bad:
        out["detail"] = bad
        os.makedirs("replays", exist_ok=True)
        json.dump({"property": "C20", "witness": bad, "how_to_replay": f"/venv/bin/python native/c20_bounded.py {D}"}, open("replays/C20-bounded.json", "w"), indent=1)
        out["replay"] = "replays/C20-bounded.json"
    print(json.dumps(out))
