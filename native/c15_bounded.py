"""Bounded stand-in / witness finder for C15 on the real controller/graph/watchdog (labelled bounded).
(1) detect_cycle vs a reference on every labelled digraph with <= 4 nodes (edge sets over ordered pairs);
(2) all histories up to depth D over {acquire(op,r), release(op,r), complete(op), abort(op), watchdog} for 3 operations x 3 resources, with and
without preemption, against a reference wait-for relation maintained from the controller's own answers.
Disagreements are classified; classes listed as open known findings are reported as such."""
import io, itertools, json, os, sys, contextlib
ROOT = os.path.dirname(os.path.dirname(os.path.abspath(__file__)))
sys.path.insert(0, os.environ.get("OPERON_REPO", "/repo"))


def known_classes():
    try:
        d = json.load(open(os.path.join(ROOT, "known_findings.json")))
    except OSError:
        return {}
    return {f["bounded_class"]: f for f in d.get("findings", []) if f.get("property") == "C15" and f.get("status", "open") == "open" and f.get("bounded_class")}


def has_cycle(edges):
    """edges: set of (w, b). returns a set of nodes on some cycle or None"""
    adj = {}
    for w, b in edges:
        adj.setdefault(w, set()).add(b)
    color = {}

    def dfs(u, stack):
        color[u] = 1
        stack.append(u)
        for v in adj.get(u, ()):
            if color.get(v, 0) == 0:
                r = dfs(v, stack)
                if r:
                    return r
            elif color.get(v) == 1:
                return stack[stack.index(v):]
        color[u] = 2
        stack.pop()
        return None
    for u in list(adj):
        if color.get(u, 0) == 0:
            r = dfs(u, [])
            if r:
                return r
    return None


def graphs_check():
    from operon_ai.coordination.types import DependencyGraph
    nodes = ["a", "b", "c", "d"]
    pairs = [(x, y) for x in nodes for y in nodes]
    n = 0
    for k in range(0, 6):
        for es in itertools.combinations(pairs, k):
            n += 1
            g = DependencyGraph()
            for (w, b) in es:
                g.add_dependency(w, b, "r")
            info = g.detect_cycle()
            ref = has_cycle(set(es))
            if (info is None) != (ref is None):
                return n, f"detect_cycle on edges {es}: reported={None if info is None else info.agents} reference={ref}"
            if info is not None:
                cyc = info.agents
                ok = all((cyc[i], cyc[(i + 1) % len(cyc)]) in set(es) for i in range(len(cyc)))
                if not ok:
                    return n, f"detect_cycle on edges {es}: reported cycle {cyc} is not a cycle of the graph"
    return n, None


def search(D=5, ops_n=3, res_n=2, D2=6):
    known = known_classes()
    seen = {}
    n, bad = graphs_check()
    if bad:
        return n, "DFS:" + bad, seen
    from operon_ai.coordination.controller import CellCycleController
    from operon_ai.coordination.types import ResourceLock, LockResult
    from operon_ai.coordination.watchdog import Watchdog
    ops = [f"o{i}" for i in range(ops_n)]
    res = [f"r{i}" for i in range(res_n)]
    actions = [("acq", o, r) for o in ops for r in res] + [("rel", o, r) for o in ops for r in res] + [("done", o, None) for o in ops] + \
              [("abort", o, None) for o in ops[:1]] + [("watchdog", None, None)]
    def pruned_sequences(ops2, res2, depth):
        """acquire/release histories without no-ops (re-acquiring an own lock, releasing what is not held), first action fixed by symmetry;
        enumerated over a plain owner map, then run on the real controller"""
        acts = [("acq", o, r) for o in ops2 for r in res2] + [("rel", o, r) for o in ops2 for r in res2]
        idx = {a: actions2.index(a) for a in acts}

        def rec(prefix, owner):
            if len(prefix) == depth:
                yield tuple(prefix)
                return
            for a in acts:
                kind, o, r = a
                if not prefix and a != ("acq", ops2[0], res2[0]):
                    continue
                if kind == "acq":
                    if owner.get(r) == o:
                        continue
                    nxt = dict(owner)
                    if owner.get(r) is None:
                        nxt[r] = o
                    yield from rec(prefix + [idx[a]], nxt)
                else:
                    if owner.get(r) != o:
                        continue
                    nxt = dict(owner)
                    nxt[r] = None
                    yield from rec(prefix + [idx[a]], nxt)
        yield from rec([], {})

    configs = [(ops, res, actions, (False, True), lambda: itertools.product(range(len(actions)), repeat=D))]
    ops2, res2 = ["o0", "o1"], ["r0", "r1", "r2"]
    actions2 = [("acq", o, r) for o in ops2 for r in res2] + [("rel", o, r) for o in ops2 for r in res2]
    configs.append((ops2, res2, actions2, (False,), lambda: pruned_sequences(ops2, res2, D2)))
    for ops, res, actions, preempts, seqs in configs:
      for preempt in preempts:
        for seq in seqs():
              n += 1
              c = CellCycleController()
              for r in res:
                  c.register_resource(ResourceLock(resource_id=r, allow_preemption=preempt))
              ctx = {o: c.start_operation(o, "ag", priority=i) for i, o in enumerate(ops)}
              live = set(ops)
              blocked_on = set()
              bad_cls = None
              # cause tracking: which (waiter, blocker) edges were ever added, and which were dropped by remove_all_for_agent
              g = c.dependency_graph
              ever_added, dropped_by_remove_all = set(), set()
              _add, _rm = g.add_dependency, g.remove_all_for_agent

              def add_dep(waiter, blocking, resource, _add=_add):
                  ever_added.add((waiter, blocking))
                  return _add(waiter, blocking, resource)

              def rm_all(agent, _rm=_rm, g=g):
                  before = {(w, b) for w, deps in g.edges.items() for (b, r_) in deps}
                  _rm(agent)
                  after = {(w, b) for w, deps in g.edges.items() for (b, r_) in deps}
                  dropped_by_remove_all.update(before - after)
              g.add_dependency, g.remove_all_for_agent = add_dep, rm_all
              for ai in seq:
                  kind, o, r = actions[ai]
                  if o is not None and o not in live:
                      continue
                  with contextlib.redirect_stdout(io.StringIO()):
                      if kind == "acq":
                          res_ = c.acquire_resource(ctx[o], r)
                          if res_ == LockResult.BLOCKED:
                              blocked_on.add((o, r))
                          else:
                              blocked_on.discard((o, r))
                      elif kind == "rel":
                          c.release_resource(ctx[o], r)
                      elif kind == "done":
                          c.complete_operation(ctx[o]); live.discard(o); blocked_on = {(w, x) for (w, x) in blocked_on if w != o}
                      elif kind == "abort":
                          c.abort_operation(ctx[o], "t"); live.discard(o); blocked_on = {(w, x) for (w, x) in blocked_on if w != o}
                      else:
                          info0 = c.check_deadlock()
                          wd = Watchdog()
                          ev = wd.execute(c)
                          for e in ev:
                              live.discard(e.operation_id)
                              blocked_on = {(w, x) for (w, x) in blocked_on if w != e.operation_id}
                              if any(l.owner == e.operation_id for l in c.resources.values()):
                                  bad_cls = ("victim-still-owns", f"victim {e.operation_id} still owns a resource")
                          if info0 is not None and ev:
                              members = [m for m in info0.agents if m in ctx]
                              if members:
                                  lowest = min(members, key=lambda m: ctx[m].priority)
                                  if ev[0].operation_id != lowest and all(x.reason.name == "DEADLOCK" for x in ev[:1]):
                                      bad_cls = ("victim-not-lowest-priority", f"victim {ev[0].operation_id}, lowest-priority member is {lowest}")
                  # compare the reported cycle with the reference wait-for relation
                  wf = {(w, c.resources[x].owner) for (w, x) in blocked_on if c.resources[x].owner is not None and w in live and c.resources[x].owner != w}
                  ref = has_cycle(wf)
                  info = c.check_deadlock()
                  if bad_cls is None:
                      graph_edges = {(w, b) for w, deps in g.edges.items() for (b, r_) in deps}
                      if ref is not None and info is None:
                          cyc_edges = {(ref[i], ref[(i + 1) % len(ref)]) for i in range(len(ref))}
                          missing = cyc_edges - graph_edges
                          if missing and all(e in dropped_by_remove_all for e in missing):
                              cause = "wait-edge-dropped-by-remove_all_for_agent"
                          elif missing and all(e not in ever_added for e in missing):
                              cause = "wait-edge-never-added"
                          else:
                              cause = "other"
                          bad_cls = ("missed-cycle:" + cause, f"real wait-for cycle {ref} not reported (missing edges {sorted(missing)})")
                      elif ref is None and info is not None:
                          stale = {(info.agents[i], info.agents[(i + 1) % len(info.agents)]) for i in range(len(info.agents))} - wf
                          bad_cls = ("phantom-cycle:stale-edge", f"reported cycle {info.agents} but the wait-for relation {sorted(wf)} has none (stale edges {sorted(stale)})")
                      elif info is not None and not all(m in live for m in info.agents):
                          bad_cls = ("dead-member", f"reported cycle {info.agents} contains an operation that is no longer live")
                  if bad_cls:
                      desc = f"{bad_cls[0]}: {bad_cls[1]} after {[actions[i] for i in seq[:seq.index(ai) + 1]]} (preemption={preempt})"
                      if bad_cls[0] in known or os.environ.get("C15_COLLECT_ALL"):
                          seen.setdefault(bad_cls[0], desc)
                          bad_cls = None
                          break
                      return n, desc, seen
    return n, None, seen


if __name__ == "__main__":
    D = int(sys.argv[1]) if len(sys.argv) > 1 else 4
    n, bad, seen = search(D)
    out = {"status": "ok" if bad is None else "violation", "bound": f"all digraphs <= 4 nodes / <= 5 edges for the DFS; histories of depth {D} over 3 ops x 2 resources, +-preemption",
           "cases": n, "known_findings": list(seen.values())}
    if bad:
        out["detail"] = bad
        os.makedirs(os.path.join(ROOT, "replays"), exist_ok=True)
        json.dump({"property": "C15", "witness": bad, "how_to_replay": f"/venv/bin/python native/c15_bounded.py {D}"}, open(os.path.join(ROOT, "replays/C15-bounded.json"), "w"), indent=1)
        out["replay"] = "replays/C15-bounded.json"
    print(json.dumps(out))
