"""Bounded stand-in / witness finder for C11 on the real Chaperone (labelled bounded): generated schemas, serialised random instances,
corruption operators (fences, prose, single quotes, trailing commas, Python literals, truncation, type swaps, deep nesting), strategy orders."""
import io, itertools, json, os, random, sys, contextlib
sys.path.insert(0, os.environ.get("OPERON_REPO", "/repo"))


def search(seed=0, N=150):
    from typing import Optional
    from pydantic import BaseModel
    from operon_ai.organelles.chaperone import Chaperone, FoldingStrategy
    rnd = random.Random(seed)

    class Inner(BaseModel):
        k: int
        t: str = "x"

    class A(BaseModel):
        name: str
        age: int

    class B(BaseModel):
        price: float
        ok: bool
        tags: list[str] = []
        note: Optional[str] = None

    class C(BaseModel):
        inner: Inner
        n: int = 0
    class D_(BaseModel):
        label: str
        count: int
        ratio: float
        ok: bool
    schemas = [A, B, C, D_]

    def inst(S):
        if S is A:
            return A(name=rnd.choice(["Al", "True", "x,y", "it's", '{"q": 1}']), age=rnd.randint(-5, 99))
        if S is B:
            return B(price=rnd.choice([0.0, 1.5, 100.0]), ok=rnd.random() < 0.5, tags=rnd.choice([[], ["a"], ["a", "b c"]]), note=rnd.choice([None, "n"]))
        if S is D_:
            return D_(label=rnd.choice(["a", "17", "lab el"]), count=rnd.randint(0, 9), ratio=rnd.choice([0.5, 2.0]), ok=rnd.random() < 0.5)
        return C(inner=Inner(k=rnd.randint(0, 9), t=rnd.choice(["x", "None"])), n=rnd.randint(0, 3))
    corrupt = [
        lambda s: s, lambda s: "```json\n" + s + "\n```", lambda s: "Here you go:\n```\n" + s + "\n```\nbye", lambda s: "<json>" + s + "</json>",
        lambda s: "The answer is " + s + " as requested.", lambda s: s.replace('"', "'"), lambda s: s[:-1] + ",}" if s.endswith("}") else s,
        lambda s: s.replace("true", "True").replace("false", "False").replace("null", "None"), lambda s: s[: max(1, len(s) // 2)],
        lambda s: s.replace(":1", ':"1"').replace(":0", ':"0"').replace(": 1", ': "1"').replace(": 0", ': "0"'), lambda s: "[" * 3000 + s + "]" * 3000, lambda s: "{" * 50000,
        lambda s: s + s, lambda s: "", lambda s: "null", lambda s: "1" * 5000, lambda s: '{"name": 5, "age": "x"}', lambda s: "\ud800" + s,
        # several candidate objects in the text: an example / a broken one before the real answer
        lambda s: 'For example {"zz": 1} is wrong. The answer: ' + s, lambda s: 'Draft {"name": } final: ' + s + ' (done)',
        # type swaps the other way round: every string value becomes a number (no string is left at the top level), a number becomes a string
        lambda s: __import__("re").sub(r':\s*"[^"]*"', ": 17", s), lambda s: __import__("re").sub(r":\s*(\d+)", r': "\1"', s, count=1),
    ]
    orders = [None, [FoldingStrategy.STRICT], [FoldingStrategy.REPAIR, FoldingStrategy.STRICT], [FoldingStrategy.LENIENT, FoldingStrategy.EXTRACTION],
              [FoldingStrategy.EXTRACTION, FoldingStrategy.REPAIR, FoldingStrategy.LENIENT, FoldingStrategy.STRICT]]
    n = 0
    for it in range(N):
        S = rnd.choice(schemas)
        x = inst(S)
        clean = x.model_dump_json()
        for ci, cor in enumerate(corrupt):
            raw = cor(clean)
            for order in (orders if it < 10 else orders[:2]):
                n += 1
                with contextlib.redirect_stdout(io.StringIO()):
                    ch = Chaperone(silent=True)
                    try:
                        r1 = ch.fold(raw, S, strategies=order)
                        r2 = ch.fold_enhanced(raw, S, strategies=order)
                    except BaseException as e:
                        return n, f"fold raised {type(e).__name__} on corruption#{ci} of {S.__name__} (order={order})"
                if r1.valid != r2.valid:
                    return n, f"fold.valid={r1.valid} but fold_enhanced.valid={r2.valid} on {raw[:60]!r} (corruption#{ci}, order={order})"
                if r1.valid and r1.structure != r2.structure:
                    return n, f"plain and enhanced folds disagree on the structure for {raw[:60]!r}"
                for r in (r1, r2):
                    if r.valid:
                        if not isinstance(r.structure, S):
                            return n, f"valid fold whose structure is {type(r.structure).__name__}, not {S.__name__} ({raw[:60]!r})"
                        try:
                            S.model_validate(r.structure.model_dump())
                        except Exception as e:
                            return n, f"valid structure does not re-validate: {e}"
                    else:
                        if r.structure is not None or not isinstance(r.error_trace, str):
                            return n, f"invalid fold with structure={r.structure!r} error_trace={r.error_trace!r}"
                if not (0.0 <= r2.confidence <= 1.0):
                    return n, f"confidence {r2.confidence} outside [0,1]"
                if r2.valid and r2.confidence == 1.0 and r2.strategy_used != FoldingStrategy.STRICT:
                    return n, f"confidence 1.0 from strategy {r2.strategy_used}"
                if ci == 0 and (order is None or order[0] == FoldingStrategy.STRICT):
                    if not (r2.valid and r2.strategy_used == FoldingStrategy.STRICT and r2.confidence == 1.0 and r2.structure == S.model_validate(json.loads(raw))):
                        return n, f"clean schema-valid JSON not taken verbatim by STRICT: {raw[:80]!r} -> valid={r2.valid} strategy={r2.strategy_used} conf={r2.confidence}"
    return n, None


if __name__ == "__main__":
    seed = int(os.environ.get("VERIF_SEED", "0") or 0)
    n, bad = search(seed, 150 if "--thorough" not in sys.argv else 1500)
    out = {"status": "ok" if bad is None else "violation", "bound": "4 schemas x random instances x 22 corruption operators x strategy orders (seeded)", "cases": n}
    if bad:
        out["detail"] = bad
        os.makedirs("replays", exist_ok=True)
        json.dump({"property": "C11", "witness": bad, "seed": seed, "how_to_replay": f"VERIF_SEED={seed} /venv/bin/python native/c11_bounded.py"}, open("replays/C11-bounded.json", "w"), indent=1)
        out["replay"] = "replays/C11-bounded.json"
    print(json.dumps(out))
