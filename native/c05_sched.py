"""Deterministic thread scheduler for C05 (replay aid and bounded stand-in, labelled bounded; NOT the deciding step).

Two or three real threads each perform 1..2 ATP_Store operations on one or two shared stores.  Every source line of
operon_ai/state/metabolism.py executed by a worker is a scheduling point (sys.settrace); the store locks are replaced by a scheduler-aware
lock that never blocks the OS thread but tells the scheduler "blocked", so deadlocks are detected instead of hanging.  Schedules are
enumerated with a preemption bound (<= 2 context switches at arbitrary line boundaries, CHESS-style).  An outcome is accepted iff it equals
the outcome of SOME sequential order of the same calls (results of every call + final balances); additionally balances never go negative.
Disagreements are classified; classes listed as open known findings are reported as such."""
import io, itertools, json, os, sys, threading, contextlib
ROOT = os.path.dirname(os.path.dirname(os.path.abspath(__file__)))
sys.path.insert(0, os.environ.get("OPERON_REPO", "/repo"))


class Deadlock(Exception):
    pass


class Sched:
    def __init__(self, nthreads, plan):
        self.n = nthreads
        self.plan = list(plan)          # [(tid, steps)] : run tid for `steps` scheduling points, then switch; last entry runs to completion
        self.cv = threading.Condition()
        self.current = None
        self.done = set()
        self.blocked = {}
        self.budget = 0
        self.deadlock = False
        self.steps_taken = 0

    def start(self):
        with self.cv:
            self._next()
            self.cv.notify_all()

    def _next(self):
        alive = [t for t in range(self.n) if t not in self.done]
        if not alive:
            self.current = None
            return
        while self.plan:
            tid, steps = self.plan.pop(0)
            if tid in self.done or tid in self.blocked:
                continue
            self.current, self.budget = tid, steps
            return
        runnable = [t for t in alive if t not in self.blocked]
        if not runnable:
            self.deadlock = True
            self.current = None
            return
        self.current, self.budget = runnable[0], 10 ** 9

    def checkpoint(self, tid):
        with self.cv:
            while self.current != tid and not self.deadlock:
                self.cv.wait(timeout=5)
                if self.current is None and not self.deadlock and tid not in self.done:
                    self._next()
                    self.cv.notify_all()
            if self.deadlock:
                raise Deadlock()
            self.steps_taken += 1
            self.budget -= 1
            if self.budget <= 0:
                self._next()
                self.cv.notify_all()
                while self.current != tid and not self.deadlock:
                    self.cv.wait(timeout=5)
                if self.deadlock:
                    raise Deadlock()

    def block(self, tid, lock):
        with self.cv:
            self.blocked[tid] = lock
            self._next()
            self.cv.notify_all()
            while (self.current != tid or lock.owner is not None) and not self.deadlock:
                if lock.owner is None and tid in self.blocked:
                    del self.blocked[tid]
                    if self.current is None:
                        self._next()
                        self.cv.notify_all()
                self.cv.wait(timeout=0.2)
            self.blocked.pop(tid, None)
            if self.deadlock:
                raise Deadlock()

    def finish(self, tid):
        with self.cv:
            self.done.add(tid)
            self.blocked.pop(tid, None)
            if self.current == tid or self.current is None:
                self._next()
            self.cv.notify_all()


class SLock:
    def __init__(self, sched, tids, reentrant=False):
        self.s, self.tids, self.owner, self.reentrant, self.depth = sched, tids, None, reentrant, 0

    def __enter__(self):
        tid = self.tids[threading.get_ident()]
        if self.owner == tid:
            if self.reentrant:
                self.depth += 1
                return self
            raise Deadlock("self re-entry")
        while self.owner is not None:
            self.s.block(tid, self)
        self.owner = tid
        self.depth = 1
        return self

    def __exit__(self, *a):
        self.depth -= 1
        if self.depth > 0:
            return
        self.owner = None
        with self.s.cv:
            for t, l in list(self.s.blocked.items()):
                if l is self:
                    del self.s.blocked[t]
            self.s.cv.notify_all()

    acquire = __enter__

    def release(self):
        self.__exit__()


def run_schedule(make_stores, threads_ops, plan, module=None, state_of=None):
    if module is None:
        from operon_ai.state import metabolism as M
    else:
        M = module
    stores = make_stores()
    sched = Sched(len(threads_ops), plan)
    tids = {}
    for st in stores:
        st._lock = SLock(sched, tids, reentrant="RLock" in type(st._lock).__name__)
    results = [[None] * len(ops) for ops in threads_ops]
    errors = []
    target_file = M.__file__

    def worker(tid, ops):
        tids[threading.get_ident()] = tid

        def tracer(frame, event, arg):
            if frame.f_code.co_filename != target_file:
                return None
            if event == "line":
                sched.checkpoint(tid)
            return tracer
        try:
            sched.checkpoint(tid)
            sys.settrace(tracer)
            for i, (name, sidx, args) in enumerate(ops):
                a = [stores[int(x[1:])] if isinstance(x, str) and x.startswith("@") else x for x in args]
                results[tid][i] = getattr(stores[sidx], name)(*a)
        except Deadlock:
            errors.append("deadlock")
        except Exception as e:       # noqa
            errors.append(f"{type(e).__name__}: {e}")
        finally:
            sys.settrace(None)
            sched.finish(tid)
    ths = [threading.Thread(target=worker, args=(i, ops), daemon=True) for i, ops in enumerate(threads_ops)]
    with contextlib.redirect_stdout(io.StringIO()):
        for t in ths:
            t.start()
        sched.start()
        for t in ths:
            t.join(10)
    if any(t.is_alive() for t in ths) or sched.deadlock:
        errors.append("deadlock")
    state = tuple((s.atp, s.gtp, s.nadh, s._debt) for s in stores) if state_of is None else tuple(state_of(s) for s in stores)
    return results, state, errors, sched.steps_taken


def sequential_outcomes(make_stores, threads_ops):
    outs = set()
    labels = [t for t, ops in enumerate(threads_ops) for _ in ops]
    for order in set(itertools.permutations(labels)):
        stores = make_stores()
        idx = [0] * len(threads_ops)
        results = [[None] * len(ops) for ops in threads_ops]
        with contextlib.redirect_stdout(io.StringIO()):
            for t in order:
                name, sidx, args = threads_ops[t][idx[t]]
                a = [stores[int(x[1:])] if isinstance(x, str) and x.startswith("@") else x for x in args]
                results[t][idx[t]] = getattr(stores[sidx], name)(*a)
                idx[t] += 1
        outs.add((json.dumps(results), tuple((s.atp, s.gtp, s.nadh, s._debt) for s in stores)))
    return outs


def known_classes():
    try:
        d = json.load(open(os.path.join(ROOT, "known_findings.json")))
    except OSError:
        return {}
    return {f["bounded_class"]: f for f in d.get("findings", []) if f.get("property") == "C05" and f.get("status", "open") == "open" and f.get("bounded_class")}


def _half(store):
    """a store at half of its ATP capacity (there is headroom for conversions / regeneration)"""
    with contextlib.redirect_stdout(io.StringIO()):
        store.consume(50)
    return store


def scenarios(M):
  return [
    ("two-spenders-one-store", lambda M: [M.ATP_Store(budget=10, silent=True)], [[("consume", 0, [7])], [("consume", 0, [7])]]),
    ("spend-vs-regenerate", lambda M: [M.ATP_Store(budget=10, silent=True)], [[("consume", 0, [10]), ("consume", 0, [3])], [("regenerate", 0, [5])]]),
    ("convert-vs-spend", lambda M: [M.ATP_Store(budget=10, nadh_reserve=5, silent=True)], [[("consume", 0, [8]), ("convert_nadh_to_atp", 0, [5])], [("consume", 0, [6])]]),
    ("debt-spenders", lambda M: [M.ATP_Store(budget=5, max_debt=6, silent=True)], [[("consume", 0, [8, "op", M.EnergyType.ATP, True])], [("consume", 0, [8, "op", M.EnergyType.ATP, True])]]),
    ("convert-vs-regenerate", lambda M: [_half(M.ATP_Store(budget=100, nadh_reserve=100, silent=True))], [[("convert_nadh_to_atp", 0, [50])], [("regenerate", 0, [50])]]),
    ("convert-vs-transfer-in", lambda M: [_half(M.ATP_Store(budget=100, nadh_reserve=100, silent=True)), M.ATP_Store(budget=40, silent=True)],
     [[("convert_nadh_to_atp", 0, [50])], [("transfer_to", 1, ["@0", 30])]]),
    ("opposite-transfers", lambda M: [M.ATP_Store(budget=10, silent=True), M.ATP_Store(budget=10, silent=True)],
     [[("transfer_to", 0, ["@1", 6])], [("transfer_to", 1, ["@0", 6])]]),
    ("transfer-vs-two-spends", lambda M: [M.ATP_Store(budget=10, silent=True), M.ATP_Store(budget=10, silent=True)],
     [[("transfer_to", 0, ["@1", 10])], [("consume", 0, [10]), ("consume", 1, [20])]]),
  ]


def search(max_switch_points=40):
    from operon_ai.state import metabolism as M
    known = known_classes()
    seen = {}
    n = 0
    for name, mk, ops in scenarios(M):
        make = (lambda mk=mk: mk(M))
        allowed = sequential_outcomes(make, ops)
        # probe run to learn the number of scheduling points
        _r, _s, _e, total = run_schedule(make, ops, [(0, 10 ** 9)])
        total = min(total + 5, max_switch_points)
        plans = [[(a, 10 ** 9), (b, 10 ** 9)] for a in range(len(ops)) for b in range(len(ops)) if a != b]
        for a in range(len(ops)):
            for b in range(len(ops)):
                if a == b:
                    continue
                for k in range(1, total):
                    plans.append([(a, k), (b, 10 ** 9), (a, 10 ** 9)])
                    for j in range(1, total, 3):
                        plans.append([(a, k), (b, j), (a, 10 ** 9), (b, 10 ** 9)])
        for plan in plans:
            n += 1
            results, state, errors, _ = run_schedule(make, ops, [tuple(p) for p in plan])
            cls = None
            if "deadlock" in errors:
                cls = f"deadlock:{name}"
            elif errors:
                cls = f"exception:{name}:{errors[0][:40]}"
            elif any(v < 0 for st in state for v in st):
                cls = f"negative-balance:{name}"
            elif (json.dumps(results), state) not in allowed:
                cls = f"not-serialisable:{name}"
            if cls:
                desc = f"{cls}: schedule {plan} -> results {results} balances {state}; sequential outcomes: {sorted(allowed)[:3]}"
                if cls in known or os.environ.get("C05_COLLECT_ALL"):
                    seen.setdefault(cls, desc)
                    continue
                return n, desc, seen
    return n, None, seen


if __name__ == "__main__":
    n, bad, seen = search(25 if "--thorough" not in sys.argv else 80)
    out = {"status": "ok" if bad is None else "violation", "bound": "8 scenarios (2 threads, 1-2 ops each, 1-2 stores); line-granularity scheduling points; <= 3 context switches",
           "cases": n, "known_findings": list(seen.values())}
    if bad:
        out["detail"] = bad
        os.makedirs(os.path.join(ROOT, "replays"), exist_ok=True)
        json.dump({"property": "C05", "witness": bad, "how_to_replay": "/venv/bin/python native/c05_sched.py"}, open(os.path.join(ROOT, "replays/C05-bounded.json"), "w"), indent=1)
        out["replay"] = "replays/C05-bounded.json"
    print(json.dumps(out))
    sys.stdout.flush()
    os._exit(0)
