"""Bounded stand-in / witness finder for C06 on the real QuorumSensing (labelled bounded).
Electorates of 1..N voters, every assignment of {PERMIT, BLOCK, ABSTAIN, DEFER}, weights/confidences from a grid incl. 0,
all seven strategies, default and custom thresholds, min_voters, EmergencyQuorum. Violations are classified
`<STRATEGY>:<clause>`; classes listed as open known findings are reported as such, everything else is a violation."""
import io, itertools, json, os, sys, contextlib
ROOT = os.path.dirname(os.path.dirname(os.path.abspath(__file__)))
sys.path.insert(0, os.environ.get("OPERON_REPO", "/repo"))


def known_classes():
    try:
        d = json.load(open(os.path.join(ROOT, "known_findings.json")))
    except OSError:
        return {}
    return {f["bounded_class"]: f for f in d.get("findings", []) if f.get("property") == "C06" and f.get("status", "open") == "open"
            and f.get("bounded_class")}


def search(N=3, stop_on_first=True):
    from operon_ai.topology.quorum import QuorumSensing, EmergencyQuorum, VotingStrategy, VoteType, Vote
    from operon_ai.state.metabolism import ATP_Store
    known = known_classes()
    seen_known = {}
    n = 0
    grid = [(1.0, 1.0), (0.5, 1.0), (1.0, 0.2), (0.0, 1.0), (2.0, 0.5)]
    types = [VoteType.PERMIT, VoteType.BLOCK, VoteType.ABSTAIN, VoteType.DEFER]

    def mk(strategy, threshold, min_voters, size):
        with contextlib.redirect_stdout(io.StringIO()):
            q = QuorumSensing(n_agents=size, budget=ATP_Store(budget=1000, silent=True), strategy=strategy, threshold=threshold,
                              min_voters=min_voters, silent=True)
        return q

    def run(q, ballot):
        votes = [Vote(agent_id=f"a{i}", vote_type=t, confidence=c, weight=w) for i, (t, (w, c)) in enumerate(ballot)]
        with contextlib.redirect_stdout(io.StringIO()):
            return q._aggregate_votes(votes), votes

    def counted(strategy, w, c):
        if strategy in (VotingStrategy.WEIGHTED,):
            return w * c > 0
        if strategy == VotingStrategy.CONFIDENCE:
            return w * c > 0 and c >= 0.3
        if strategy == VotingStrategy.BAYESIAN:
            return w > 0 and c > 0
        return True

    def need(threshold, size):
        """the stated criterion of the count strategy in exact arithmetic: default majority; a fraction of the electorate rounded up (>= 1); a count"""
        import fractions, math
        if threshold is None:
            return size // 2 + 1
        if 0 < threshold < 1:
            return max(1, math.ceil(fractions.Fraction(str(threshold)) * size))
        return int(threshold)

    for size in range(1, N + 1):
        for strategy in VotingStrategy:
            thresholds = [None, 0.3, 0.8] if strategy != VotingStrategy.THRESHOLD else [None, 0.3, 0.4, 0.5, 0.75, 0.25, 1, size]
            for threshold in thresholds:
                for min_voters in (1, size):
                    q = mk(strategy, threshold, min_voters, size)
                    for tys in itertools.product(types, repeat=size):
                        wcs = [grid[0]] * size
                        variants = [tuple(wcs)] + [tuple(grid[(i + j) % len(grid)] for j in range(size)) for i in range(1, len(grid))]
                        for wc in variants:
                            n += 1
                            ballot = list(zip(tys, wc))
                            res, votes = run(q, ballot)
                            P = sum(1 for t in tys if t == VoteType.PERMIT)
                            B = sum(1 for t in tys if t == VoteType.BLOCK)
                            A = sum(1 for t in tys if t == VoteType.ABSTAIN)
                            bad = None
                            if (res.permit_votes, res.block_votes, res.abstain_votes, res.total_votes) != (P, B, A, size):
                                bad = "counts"
                            elif res.reached != (res.decision == VoteType.PERMIT):
                                bad = "reached-iff-permit"
                            elif P == 0 and res.decision == VoteType.PERMIT:
                                bad = "no-permit-vote-yet-PERMIT"
                            elif strategy == VotingStrategy.UNANIMOUS and B >= 1 and res.reached:
                                bad = "block-does-not-defeat-unanimous"
                            elif P == size and size >= max(min_voters, 1) and all(counted(strategy, w, c) for (w, c) in wc) and not res.reached \
                                    and not (strategy == VotingStrategy.THRESHOLD and threshold is not None and threshold >= 1 and threshold > size):
                                bad = "unanimous-permit-not-PERMIT"
                            elif P + B < min_voters and res.reached:
                                bad = "min-voters-gate"
                            elif strategy == VotingStrategy.THRESHOLD and res.reached and P < need(threshold, size):
                                bad = "permit-below-stated-threshold"
                            if bad is None and res.reached:
                                # monotonicity: turning one block into a permit, or raising a permit voter's weight/confidence, keeps PERMIT
                                for i, t in enumerate(tys):
                                    if t == VoteType.BLOCK:
                                        b2 = list(ballot)
                                        b2[i] = (VoteType.PERMIT, b2[i][1])
                                        r2, _ = run(q, b2)
                                        if not r2.reached:
                                            bad = "block-to-permit-loses-quorum"
                                    if t == VoteType.PERMIT:
                                        b2 = list(ballot)
                                        w, c = b2[i][1]
                                        b2[i] = (t, (w + 1.0, min(1.0, c + 0.5)))
                                        r2, _ = run(q, b2)
                                        if not r2.reached:
                                            bad = "raising-permit-support-loses-quorum"
                            if bad:
                                cls = f"{strategy.name}:{bad}"
                                desc = (f"{cls}: strategy={strategy.name} threshold={threshold} min_voters={min_voters} ballot="
                                        f"{[(t.name, w, c) for t, (w, c) in ballot]} -> reached={res.reached} decision={res.decision.name}")
                                if cls in known or os.environ.get("C06_COLLECT_ALL"):
                                    seen_known.setdefault(cls, desc)
                                    continue
                                return n, desc, seen_known
    # emergency quorum: a ballot with no permit vote is never PERMIT
    for size in range(1, N + 1):
        with contextlib.redirect_stdout(io.StringIO()):
            eq = EmergencyQuorum(n_agents=size, budget=ATP_Store(budget=1000, silent=True), silent=True)
        for tys in itertools.product(types, repeat=size):
            n += 1
            res, _ = run(eq, [(t, (1.0, 1.0)) for t in tys])
            P = sum(1 for t in tys if t == VoteType.PERMIT)
            if P == 0 and res.reached:
                return n, f"EMERGENCY:no-permit-vote-yet-PERMIT: ballot={[t.name for t in tys]}", seen_known
            if res.reached and P < need(0.3, size):
                return n, f"EMERGENCY:permit-below-stated-threshold: {P} of {size} permit votes reached the 30% emergency quorum: ballot={[t.name for t in tys]}", seen_known
            if P == size and not res.reached:
                return n, f"EMERGENCY:unanimous-permit-not-PERMIT: ballot={[t.name for t in tys]}", seen_known
    return n, None, seen_known


if __name__ == "__main__":
    N = int(sys.argv[1]) if len(sys.argv) > 1 else 3
    n, bad, seen = search(N)
    out = {"status": "ok" if bad is None else "violation", "bound": f"electorates 1..{N}, all vote assignments, 5 weight/confidence patterns, 7 strategies, default+custom thresholds",
           "cases": n, "known_findings": [v for v in seen.values()]}
    if bad:
        out["detail"] = bad
        os.makedirs(os.path.join(ROOT, "replays"), exist_ok=True)
        json.dump({"property": "C06", "witness": bad, "how_to_replay": f"/venv/bin/python native/c06_bounded.py {N}"},
                  open(os.path.join(ROOT, "replays/C06-bounded.json"), "w"), indent=1)
        out["replay"] = "replays/C06-bounded.json"
    print(json.dumps(out))
