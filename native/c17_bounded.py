"""Bounded stand-in / witness finder for C17 on the real surveillance stack (labelled bounded).
Profiles/fingerprints generated around and across each bound; inspection histories with anomaly streaks, resets, false-alarm resets up
to anergy, manual flags; tolerance rules; train-then-inspect on random observation windows; memory recall after return to baseline."""
import io, itertools, json, os, random, sys, contextlib, warnings
warnings.simplefilter("ignore")
from datetime import datetime
sys.path.insert(0, os.environ.get("OPERON_REPO", "/repo"))


def search(seed=0, windows=40):
    from operon_ai.surveillance.thymus import BaselineProfile
    from operon_ai.surveillance.tcell import TCell
    from operon_ai.surveillance.treg import RegulatoryTCell, SuppressionRule, ToleranceRecord
    from operon_ai.surveillance.types import MHCPeptide, ThreatLevel, ResponseAction, Signal2
    from operon_ai.surveillance.immune_system import ImmuneSystem
    rnd = random.Random(seed)
    n = 0
    prof = BaselineProfile(agent_id="a", output_length_bounds=(10.0, 20.0), response_time_bounds=(1.0, 2.0), confidence_bounds=(0.5, 0.9),
                           error_rate_max=0.1, valid_vocabulary_hashes={"v"}, valid_structure_hashes={"s"}, canary_accuracy_min=0.8)

    def pep(ol=15.0, rt=1.5, cf=0.7, er=0.05, vh="v", sh="s", ca=None):
        return MHCPeptide(agent_id="a", timestamp=datetime.utcnow(), output_length_mean=ol, output_length_std=1.0, response_time_mean=rt,
                          response_time_std=0.1, vocabulary_hash=vh, structure_hash=sh, confidence_mean=cf, confidence_std=0.1, error_rate=er,
                          error_types=(), canary_accuracy=ca)

    def inb(p):
        return (10.0 <= p.output_length_mean <= 20.0 and 1.0 <= p.response_time_mean <= 2.0 and 0.5 <= p.confidence_mean <= 0.9
                and p.error_rate <= 0.1 and p.vocabulary_hash == "v" and p.structure_hash == "s"
                and (p.canary_accuracy is None or p.canary_accuracy >= 0.8))
    peps = [pep()] + [pep(ol=x) for x in (9.99, 10.0, 20.0, 20.01)] + [pep(rt=x) for x in (0.99, 1.0, 2.0, 2.01)] + \
           [pep(cf=x) for x in (0.49, 0.5, 0.9, 0.91)] + [pep(er=x) for x in (0.1, 0.11)] + [pep(vh="x"), pep(sh="x")] + \
           [pep(ca=x) for x in (0.79, 0.8, 0.4, 1.0)] + [pep(ol=30, rt=9, cf=0.1), pep(ol=30, rt=9, cf=0.1, ca=0.3)]
    ops = ["inspect", "flag", "reset", "false_alarm_reset"]
    for depth in (1, 2, 3, 4):
        for p_seq in itertools.product(range(len(peps)), repeat=1):
            for op_seq in itertools.product(ops, repeat=depth):
                n += 1
                t = TCell(profile=prof, repeated_anomaly_threshold=2, anergy_threshold=2)
                m_flag, m_streak = False, 0          # reference model of the pending second signals (flag until a handled response; anomaly streak)
                for op in op_seq:
                    if op == "flag":
                        t.flag_manually("x")
                        m_flag = True
                    elif op == "reset":
                        t.reset()
                        m_flag, m_streak = False, 0
                    elif op == "false_alarm_reset":
                        t.reset_without_confirmation()
                        m_streak = 0
                    else:
                        p = peps[p_seq[0]]
                        was_anergic = t.is_anergic
                        flagged = t.manual_flag is not None
                        r = t.inspect(p)
                        if not was_anergic:
                            m_streak = 0 if inb(p) else m_streak + 1
                            second = m_flag or (p.canary_accuracy is not None and p.canary_accuracy < 0.8) or m_streak >= 2
                            if r.threat_level in (ThreatLevel.CONFIRMED, ThreatLevel.CRITICAL) and not second:
                                return n, (f"TCell: {r.threat_level.name}/{r.action.name} (signal2={r.signal2.name}) although no second signal is pending: "
                                           f"history {op_seq} on peptide#{p_seq[0]} (flag pending={m_flag}, anomaly streak={m_streak})")
                        if r.threat_level in (ThreatLevel.CONFIRMED, ThreatLevel.CRITICAL) and (inb(p) or r.signal2 == Signal2.NONE):
                            return n, f"TCell: {r.threat_level.name} without two signals: in_baseline={inb(p)} signal2={r.signal2.name} ops={op_seq} peptide#{p_seq[0]}"
                        if inb(p) and (r.threat_level != ThreatLevel.NONE or r.action != ResponseAction.IGNORE):
                            return n, f"TCell: behaviour inside the baseline reported {r.threat_level.name}/{r.action.name} (flagged={flagged}) ops={op_seq}"
                        if was_anergic and r.threat_level != ThreatLevel.NONE:
                            return n, f"TCell: desensitised watcher reported {r.threat_level.name}"
    # Treg: only one step down, never touches CRITICAL
    from operon_ai.surveillance.types import Signal1
    from operon_ai.surveillance.tcell import ImmuneResponse
    order = [ResponseAction.IGNORE, ResponseAction.MONITOR, ResponseAction.ISOLATE, ResponseAction.SHUTDOWN]
    table = [(ThreatLevel.NONE, ResponseAction.IGNORE), (ThreatLevel.SUSPICIOUS, ResponseAction.MONITOR), (ThreatLevel.CONFIRMED, ResponseAction.ISOLATE),
             (ThreatLevel.CRITICAL, ResponseAction.SHUTDOWN)]
    for (tl, act) in table:
        for max_sev in ThreatLevel:
            for cond in (True, False):
                for clean in (0, 1000):
                    n += 1
                    treg = RegulatoryTCell(rules=[SuppressionRule(name="r", condition=lambda r_, rec_, c=cond: c, max_severity=max_sev)], stability_threshold=100)
                    rec = ToleranceRecord(agent_id="a", clean_inspections=clean)
                    resp = ImmuneResponse(agent_id="a", threat_level=tl, action=act, signal1=Signal1.NON_SELF, signal2=Signal2.NONE, violations=[])
                    sr = treg.evaluate(resp, rec)
                    if tl == ThreatLevel.CRITICAL and sr.modified_action != act:
                        return n, f"Treg softened a CRITICAL response: {act.name} -> {sr.modified_action.name}"
                    if order.index(sr.modified_action) not in (order.index(act), order.index(act) - 1):
                        return n, f"Treg changed {act.name} to {sr.modified_action.name} (more than one step / upwards) for {tl.name}"
    # a remembered threat is a second signal for THE AGENT IT WAS REMEMBERED FOR only: two agents with the same words and structure, one confirmed
    n += 1
    with contextlib.redirect_stdout(io.StringIO()):
        s2 = ImmuneSystem(min_training_samples=10, min_observations=10, window_size=10)
        for ag in ("alpha", "beta"):
            s2.register_agent(ag)
            for _ in range(10):
                s2.record_observation(ag, "the quick brown fox", response_time=0.1, confidence=0.9)
            s2.train_agent(ag)
            s2.inspect(ag)
        s2.flag_agent("alpha", "operator report")
        for _ in range(10):
            s2.record_observation("alpha", "the quick brown fox", response_time=5.0, confidence=0.9)
        ra = s2.inspect("alpha")
        for _ in range(10):
            s2.record_observation("beta", "the quick brown fox", response_time=5.0, confidence=0.9)
        bc = s2.tcells["beta"]
        own_second = bool(bc.manual_flag or s2.displays["beta"].canary_results or bc.anomaly_count + 1 >= bc.repeated_anomaly_threshold
                          or [x for x in s2.memory.signatures if x.agent_id == "beta"])
        rb = s2.inspect("beta")
    if ra.threat_level in (ThreatLevel.CONFIRMED, ThreatLevel.CRITICAL) and rb.threat_level in (ThreatLevel.CONFIRMED, ThreatLevel.CRITICAL) and not own_second:
        return n, (f"agent beta is reported {rb.threat_level.name}/{rb.action.name} on a single anomaly with no second signal of its own "
                   f"(a threat remembered for agent alpha was used: {rb.violations[:1]})")
    # self-tolerance after training + memory path after return to baseline
    for w in range(windows):
        n += 1
        with contextlib.redirect_stdout(io.StringIO()):
            sysm = ImmuneSystem()
            sysm.register_agent("a")
            k = rnd.randint(10, 25)
            for i in range(k):
                sysm.record_observation("a", output=rnd.choice(["hello world", '{"a": 1}', "x" * rnd.randint(1, 80), "line1\nline2"]),
                                        response_time=rnd.choice([0.5, 1.0, 1.5, rnd.random() * 3]), confidence=rnd.choice([0.2, 0.8, rnd.random()]),
                                        error=None if rnd.random() < 0.9 else "E")
            if rnd.random() < 0.5:
                for _ in range(rnd.randint(1, 5)):
                    sysm.record_canary_result("a", rnd.random() < 0.9)
            res = sysm.train_agent("a")
        if str(res).endswith("POSITIVE"):
            with contextlib.redirect_stdout(io.StringIO()):
                r = sysm.inspect("a")
            if r.threat_level != ThreatLevel.NONE:
                return n, f"inspecting the just-trained window reports {r.threat_level.name} ({r.violations[:2]}) (window {w}, seed {seed})"
            # drive to a confirmed anomaly, then return to the trained behaviour: must be NONE again
            with contextlib.redirect_stdout(io.StringIO()):
                disp = sysm.displays["a"]
                saved = list(disp.observations)
                # same words and structure as the trained window (so the memory key equals the baseline's), anomalous timing
                for i in range(60):
                    sysm.record_observation("a", output=saved[i % len(saved)].output, response_time=99.0, confidence=0.0)
                sysm.flag_agent("a", "suspect")
                r1 = sysm.inspect("a")
                disp.observations[:] = saved
                sysm.tcells["a"].reset()
                r2 = sysm.inspect("a")
                res2 = sysm.train_agent("a")
                r3 = sysm.inspect("a")
            if r2.threat_level in (ThreatLevel.CONFIRMED, ThreatLevel.CRITICAL):
                return n, f"behaviour back inside the baseline is still {r2.threat_level.name} ({r2.violations[:1]}) after a confirmed anomaly (window {w}, seed {seed})"
            if str(res2).endswith("POSITIVE") and r3.threat_level != ThreatLevel.NONE:
                return n, f"re-training then inspecting the same window reports {r3.threat_level.name} (window {w}, seed {seed})"
            # the behaviour changes for good and the agent is re-trained on the new window: that window is the baseline now
            with contextlib.redirect_stdout(io.StringIO()):
                disp.observations[:] = []
                for i in range(20):
                    sysm.record_observation("a", output="completely different behaviour " * 6 + str(i % 3), response_time=7.5, confidence=0.05)
                res3 = sysm.train_agent("a")
                r4 = sysm.inspect("a")
            if str(res3).endswith("POSITIVE") and r4.threat_level != ThreatLevel.NONE:
                return n, (f"re-training on a new window, then inspecting that window, reports {r4.threat_level.name}/{r4.action.name} "
                           f"({r4.violations[:2]}): the watcher still judges against the old baseline (window {w}, seed {seed})")
    # recovery WITHOUT a reset: train -> numeric-only drift with unchanged words/structure (so the remembered key equals the baseline's) inspected
    # until the threat is confirmed and remembered -> window back inside the baseline -> every inspection is NONE again, whatever is pending
    for drift_rt, flag, inspections in itertools.product((5.0, 50.0), (False, True), (3, 4, 5)):
        n += 1
        with contextlib.redirect_stdout(io.StringIO()):
            sysm = ImmuneSystem(min_training_samples=10, min_observations=10, window_size=10)
            sysm.register_agent("w")
            for _ in range(10):
                sysm.record_observation("w", "the answer is forty two", 1.0, 0.9)
            res = sysm.train_agent("w")
            if not str(res).endswith("POSITIVE"):
                continue
            for _ in range(10):
                sysm.record_observation("w", "the answer is forty two", drift_rt, 0.9)
            if flag:
                sysm.flag_agent("w", "suspect")
            levels = [sysm.inspect("w").threat_level.name for _ in range(inspections)]
            for _ in range(10):
                sysm.record_observation("w", "the answer is forty two", 1.0, 0.9)
            inside = not sysm.profiles["w"].check(sysm.displays["w"].generate_peptide())
            after = [sysm.inspect("w") for _ in range(2)]
        if inside and any(r.threat_level != ThreatLevel.NONE for r in after):
            r = [x for x in after if x.threat_level != ThreatLevel.NONE][0]
            return n, (f"train, drift (response time {drift_rt}, same words; manual flag={flag}) inspected {inspections}x -> {levels}, then recovery into "
                       f"the baseline: still reported {r.threat_level.name}/{r.action.name} ({r.violations[:1]}) with no current violation")
    return n, None


def search_memory():
    """Witness finder for the ImmuneMemory contracts (recall / recall_by_hashes / prune_old / import_signatures): every memory of <= 2 stored
    signatures over two agents, two hash values and three violation-type sets, capacities 1..3, against the clauses of contracts/C17 (bounded)."""
    from datetime import timedelta
    from operon_ai.surveillance.memory import ImmuneMemory, ThreatSignature
    from operon_ai.surveillance.types import ThreatLevel, ResponseAction
    t0 = datetime.utcnow()

    def sig(a, vh, sh, vt, age_h=0):
        return ThreatSignature(agent_id=a, vocabulary_hash=vh, structure_hash=sh, violation_types=vt, threat_level=list(ThreatLevel)[-1],
                               effective_response=list(ResponseAction)[-1], created_at=t0 - timedelta(hours=age_h))
    atoms = [(a, vh, sh, vt) for a in ("A", "B") for vh in ("h1", "h2") for sh in ("s1",) for vt in ((), ("x",), ("x", "y"))]
    n = 0
    for k in (0, 1, 2):
        for stored in itertools.product(atoms, repeat=k):
            for q in atoms:
                for partial in (False, True):
                    n += 1
                    m = ImmuneMemory(capacity=3, signatures=[sig(*s) for s in stored])
                    before = list(m.signatures)
                    query = sig(*q)
                    r = m.recall(query, partial=partial)
                    if r is not None and not any(r is b for b in before):
                        return n, f"recall returned a signature that is not stored: stored={stored} query={q} partial={partial}"
                    if r is not None and r.agent_id != query.agent_id:
                        return n, f"recall handed back another agent's signature: stored={stored} query={q} partial={partial} -> agent {r.agent_id!r}"
                    if r is not None and not partial and (r.vocabulary_hash, r.structure_hash) != (query.vocabulary_hash, query.structure_hash):
                        return n, f"exact recall with different hashes: stored={stored} query={q}"
                    if r is not None and partial and not (set(r.violation_types) & set(query.violation_types)):
                        return n, f"partial recall without a shared violation type: stored={stored} query={q}"
                    if len(m.signatures) != len(before):
                        return n, f"recall changed the number of stored signatures: stored={stored} query={q}"
                m = ImmuneMemory(capacity=3, signatures=[sig(*s) for s in stored])
                r = m.recall_by_hashes(q[0], q[1], q[2])
                n += 1
                if r is not None and (r.agent_id, r.vocabulary_hash, r.structure_hash) != q[:3]:
                    return n, f"recall_by_hashes returned a non-matching signature: stored={stored} query={q[:3]}"
            # pruning by age and importing at each capacity
            for ages in itertools.product((0, 5), repeat=k):
                n += 1
                m = ImmuneMemory(capacity=3, signatures=[sig(*s, age_h=a) for s, a in zip(stored, ages)])
                removed = m.prune_old(timedelta(hours=1))
                if removed != k - len(m.signatures) or removed < 0 or removed != sum(1 for a in ages if a == 5):
                    return n, f"prune_old({ages}) reported {removed}, {len(m.signatures)} of {k} left"
            for cap in (1, 2, 3):
                for extra in (0, 1, 2, 3):
                    n += 1
                    m = ImmuneMemory(capacity=cap, signatures=[sig(*s) for s in stored])
                    data = [sig("A", "h1", "s1", ("x",)).to_dict() for _ in range(extra)]
                    got = m.import_signatures(data)
                    if got != len(m.signatures) - k or len(m.signatures) > max(k, cap):
                        return n, (f"import_signatures: capacity {cap}, {k} stored, {extra} offered -> reported {got}, "
                                   f"{len(m.signatures)} stored afterwards")
    return n, None


if __name__ == "__main__":
    seed = int(os.environ.get("VERIF_SEED", "0") or 0)
    n, bad = search(seed, 40 if "--thorough" not in sys.argv else 4000)
    if bad is None:
        n2, bad = search_memory()
        n += n2
    out = {"status": "ok" if bad is None else "violation", "bound": "24 fingerprints across every bound x op sequences depth<=4 (with a reference model of pending second signals); Treg table x rules; 40 random training windows incl. re-training on a changed window (seeded); ImmuneMemory recall/prune/import on every memory of <= 2 signatures, capacities 1..3",
           "cases": n}
    if bad:
        out["detail"] = bad
        os.makedirs("replays", exist_ok=True)
        json.dump({"property": "C17", "witness": bad, "seed": seed, "how_to_replay": f"VERIF_SEED={seed} /venv/bin/python native/c17_bounded.py"}, open("replays/C17-bounded.json", "w"), indent=1)
        out["replay"] = "replays/C17-bounded.json"
    print(json.dumps(out))
