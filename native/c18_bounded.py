"""Bounded stand-in / witness finder for C18 on the real loops (labelled bounded).
Limits 0..L, adversarial generator / worker / provider families. Prints one JSON line."""
import io, json, os, sys, contextlib, itertools
sys.path.insert(0, os.environ.get("OPERON_REPO", "/repo"))


def heal_cases(L):
    from operon_ai.healing.chaperone_loop import ChaperoneLoop, HealingOutcome
    from operon_ai.organelles.chaperone import Chaperone
    from pydantic import BaseModel

    class M(BaseModel):
        v: int
    n = 0
    for max_retries in range(0, L + 1):
        for valid_at in list(range(0, L + 3)) + [None]:
            for mode in ("plain", "echo", "raise_late"):
                n += 1
                calls = []

                def gen(prompt, error_context=None):
                    k = len(calls)
                    calls.append((prompt, error_context))
                    if mode == "raise_late" and k > max_retries + 1:
                        raise RuntimeError("too many calls")
                    if valid_at is not None and k >= valid_at:
                        return '{"v": 1}'
                    return f"bad-{k}" if mode != "echo" else f"bad {error_context}"
                loop = ChaperoneLoop(generator=gen, chaperone=Chaperone(silent=True) if "silent" in Chaperone.__init__.__code__.co_varnames else Chaperone(),
                                     schema=M, max_retries=max_retries, silent=True)
                with contextlib.redirect_stdout(io.StringIO()):
                    try:
                        res = loop.heal("P")
                    except RuntimeError as e:
                        return n, f"heal(max_retries={max_retries}, valid_at={valid_at}): generator called {len(calls)} times > max_retries+1"
                errs = []
                if len(calls) > max_retries + 1:
                    errs.append(f"generator called {len(calls)} times > max_retries+1={max_retries + 1}")
                if calls and calls[0][1] is not None:
                    errs.append("first attempt received an error context")
                for k in range(1, len(calls)):
                    prev_err = res.attempts[k - 1].error_trace if k - 1 < len(res.attempts) else None
                    if calls[k][1] is None or (prev_err and prev_err not in calls[k][1]):
                        errs.append(f"retry {k} was not fed the previous attempt's error")
                ok = res.outcome in (HealingOutcome.HEALED, HealingOutcome.VALID_FIRST_TRY)
                if ok and not (res.folded is not None and res.folded.valid and isinstance(res.folded.structure, M)):
                    errs.append("HEALED/VALID without a schema-valid structure")
                if not ok and not (res.ubiquitin_tagged and res.final_confidence == 0 and res.folded is None):
                    errs.append("failed healing not tagged for degradation with confidence 0")
                if valid_at is not None and valid_at <= max_retries and not ok:
                    errs.append("generator became valid within budget but healing failed")
                if errs:
                    return n, f"heal(max_retries={max_retries}, valid_at={valid_at}, mode={mode}): " + "; ".join(errs[:2])
    return n, None


def swarm_cases(L):
    from operon_ai.healing.regenerative_swarm import RegenerativeSwarm
    n = 0
    for max_regen in range(0, L + 1):
        for max_steps in range(0, L + 1):
            for succeed_at in [None] + [(w, s) for w in range(0, L + 2) for s in range(0, L + 2)]:
                n += 1
                spawned, steps = [], {}

                class W:
                    def __init__(self, wid, idx):
                        from operon_ai.healing.regenerative_swarm import WorkerMemory
                        self.id, self.idx = wid, idx
                        self.memory = WorkerMemory()
                        steps[idx] = 0

                    def step(self, task):
                        j = steps[self.idx]
                        steps[self.idx] += 1
                        if succeed_at == (self.idx, j):
                            return "task DONE"
                        return f"thinking {self.idx}-{j}-{'x' * (7 * j)}"

                def factory(name, hints):
                    spawned.append(name)
                    if len(spawned) > max_regen + 4:
                        raise OverflowError("spawn budget exceeded")     # stops a non-terminating supervisor
                    return W(name, len(spawned) - 1)
                sw = RegenerativeSwarm(worker_factory=factory, summarizer=lambda m: ["h"], max_steps_per_worker=max_steps,
                                       max_regenerations=max_regen, silent=True)
                with contextlib.redirect_stdout(io.StringIO()):
                    try:
                        res = sw.supervise("t")
                    except OverflowError:
                        return n, (f"supervise(max_regenerations={max_regen}, max_steps={max_steps}, succeed_at={succeed_at}): "
                                   f"{len(spawned)} workers spawned > max_regenerations+1={max_regen + 1} (stopped by the harness)")
                errs = []
                if len(spawned) > max_regen + 1:
                    errs.append(f"{len(spawned)} workers spawned > max_regenerations+1={max_regen + 1}")
                for idx, c in steps.items():
                    if c > max_steps:
                        errs.append(f"worker {idx} ran {c} steps > max_steps_per_worker={max_steps}")
                if res.success and not any(m in str(res.output).upper() for m in ("SUCCESS", "SOLVED", "COMPLETE", "DONE", "FINISHED")):
                    errs.append("success without a completion marker")
                if errs:
                    return n, f"supervise(max_regenerations={max_regen}, max_steps={max_steps}, succeed_at={succeed_at}): " + "; ".join(errs[:2])
    return n, None


def nucleus_cases(L):
    from operon_ai.organelles.nucleus import Nucleus
    from operon_ai.providers import LLMResponse, ToolCall
    n = 0
    for max_it in range(0, L + 1):
        for stop_at in [None] + list(range(0, L + 2)):
            n += 1
            cnt = {"tools": 0, "plain": 0}

            class P:
                name = "adv"

                def is_available(self):
                    return True

                def complete(self, prompt, config=None):
                    cnt["plain"] += 1
                    return LLMResponse(content="final", model="m", tokens_used=1, latency_ms=0.0) if True else None

                def complete_with_tools(self, prompt, tools=None, config=None):
                    cnt["tools"] += 1
                    r = LLMResponse(content="c", model="m", tokens_used=1, latency_ms=0.0)
                    if stop_at is not None and cnt["tools"] > stop_at:
                        return r, []
                    return r, [ToolCall(id=f"c{cnt['tools']}", name="t", arguments={})]

            class Mito:
                def export_tool_schemas(self):
                    return [object()]

                def execute_tool_call(self, call):
                    from operon_ai.providers import ToolResult
                    return ToolResult(call_id=call.id, output="o", success=True) if hasattr(call, "id") else None
            try:
                nuc = Nucleus(provider=P())
            except TypeError:
                nuc = Nucleus(P())
            with contextlib.redirect_stdout(io.StringIO()):
                try:
                    nuc.transcribe_with_tools("p", Mito(), max_iterations=max_it)
                except Exception as e:   # construction details of provider types may differ: not a budget violation
                    return n, None if cnt["tools"] <= max_it and cnt["plain"] <= 1 else f"budget exceeded before {type(e).__name__}"
            if cnt["tools"] > max_it or cnt["plain"] > 1:
                return n, f"transcribe_with_tools(max_iterations={max_it}, provider stops at {stop_at}): {cnt['tools']} tool rounds, {cnt['plain']} plain completions"
    return n, None


def search(L=3, only=None):
    total = 0
    for name, f in (("heal", heal_cases), ("supervise", swarm_cases), ("transcribe_with_tools", nucleus_cases)):
        if only and only not in name:
            continue
        n, bad = f(L)
        total += n
        if bad:
            return total, bad
    return total, None


if __name__ == "__main__":
    L = int(sys.argv[1]) if len(sys.argv) > 1 else 3
    n, bad = search(L)
    out = {"status": "ok" if bad is None else "violation", "bound": f"limits 0..{L}; generator/worker/provider adversary families",
           "cases": n}
    if bad:
        out["detail"] = bad
        os.makedirs("replays", exist_ok=True)
        json.dump({"property": "C18", "witness": bad, "how_to_replay": f"/venv/bin/python native/c18_bounded.py {L}"},
                  open("replays/C18-bounded.json", "w"), indent=1)
        out["replay"] = "replays/C18-bounded.json"
    print(json.dumps(out))
