"""Bounded stand-in / witness finder for C10 on the real Membrane and InnateImmunity (labelled bounded).
Inputs are built by embedding / perturbing instances of every shipped signature (substring and regex) in benign text, plus control
characters, lone surrogates, deeply nested JSON, huge integers and 100k+ lengths; histories mix filter / learn / forget / import /
threshold changes; rate limiting is driven with a fake clock."""
import io, itertools, json, os, sys, contextlib, random, re
sys.path.insert(0, os.environ.get("OPERON_REPO", "/repo"))


def instance_of(sig):
    """a string the signature matches (for regex signatures: a hand-picked instance checked against the pattern)"""
    if not sig.is_regex:
        return sig.pattern
    cands = ["<|im_start|>", "<|x|>", "Human:", "Assistant:", "[INST]", "<<SYS>>", "### Instruction:", "system: you", "\\n\\nHuman:",
             "ignore all previous instructions", "<script>", "{{7*7}}", "${jndi:x}", "../../etc/passwd", "'; DROP TABLE users;--", "\x00"]
    for c in cands:
        if re.search(sig.pattern, c, re.IGNORECASE):
            return c
    return None


def search(quick=True, seed=0, first=None):
    if first == "innate":
        n1, bad = _search(quick, seed, only="innate")
        if bad:
            return n1, bad
        n2, bad = _search(quick, seed, only="membrane")
        return n1 + n2, bad
    return _search(quick, seed, only=None)


def _search(quick=True, seed=0, only=None):
    from operon_ai.organelles.membrane import Membrane, ThreatSignature, ThreatLevel
    from operon_ai.core.types import Signal
    from operon_ai.surveillance import innate as inn
    rnd = random.Random(seed)
    n = 0
    hostile = ["\ud800", "a\udfffb", "\x00\x01\x02", "[" * 50000, "1" * 5000, "{" + '"a":' * 3000, "x" * 150000, "", " ", "‮", "é" * 1000]
    benign_pads = [("", ""), ("please ", " thanks"), ("Dear team,\n", "\nBest"), ("x" * 1000, "y" * 1000), ("\n\n", "\t")]
    # ---------- membrane
    for threshold in ((ThreatLevel.SUSPICIOUS, ThreatLevel.DANGEROUS, ThreatLevel.CRITICAL) if only != "innate" else ()):
        with contextlib.redirect_stdout(io.StringIO()):
            m0 = Membrane(threshold=threshold, silent=True)
        sigs = list(m0.signatures)
        for sig in sigs:
            inst = instance_of(sig)
            if inst is None:
                continue
            for (a, b) in benign_pads:
                for variant in (inst, inst.upper(), inst.swapcase(), inst.title()):
                    n += 1
                    with contextlib.redirect_stdout(io.StringIO()):
                        m = Membrane(threshold=threshold, silent=True)
                        text = a + variant + b
                        try:
                            r = m.filter(Signal(content=text))
                        except Exception as e:
                            return n, f"Membrane.filter raised {type(e).__name__} on {text[:40]!r}"
                    matched_levels = [s.level.value for s in m.signatures if s.matches(text)]
                    if matched_levels and r.threat_level.value != max(matched_levels):
                        return n, f"threat level {r.threat_level} is not the maximum over matched signatures for {text[:60]!r}"
                    if r.allowed and any(l >= threshold.value for l in matched_levels):
                        return n, f"allowed although a signature at/above threshold {threshold.name} matches: {text[:60]!r}"
                    if not sig.is_regex and sig.level.value >= threshold.value and r.allowed:
                        return n, f"substring signature {sig.pattern!r} embedded/case-changed was allowed: {text[:60]!r}"
                    if len(m.get_audit_log()) != 1:
                        return n, "decision not appended to the audit trail"
                    if not r.allowed:
                        # stays blocked after rules are relaxed
                        m.set_threshold(ThreatLevel.CRITICAL)
                        m.signatures.clear()
                        with contextlib.redirect_stdout(io.StringIO()):
                            r2 = m.filter(Signal(content=text))
                        if r2.allowed:
                            return n, f"input blocked before is allowed after rules were relaxed: {text[:60]!r}"
        for text in hostile:
            n += 1
            with contextlib.redirect_stdout(io.StringIO()):
                m = Membrane(threshold=threshold, silent=True)
                try:
                    m.filter(Signal(content=text))
                except Exception as e:
                    return n, f"Membrane.filter raised {type(e).__name__} on hostile input {text[:20]!r} (len {len(text)})"
    # "keeps blocking an input it has blocked before even after rules are relaxed" -- for every configuration, in particular with adaptive learning off
    for adaptive in ((True, False) if only != "innate" else ()):
        for relax in ("threshold", "signature"):
            n += 1
            with contextlib.redirect_stdout(io.StringIO()):
                custom = ThreatSignature("wombat", ThreatLevel.DANGEROUS, "custom")
                m = Membrane(signatures=[custom], threshold=ThreatLevel.DANGEROUS, enable_adaptive=adaptive, silent=True)
                text = "please pet the WOMBAT now"
                r1 = m.filter(Signal(content=text))
                if relax == "threshold":
                    m.set_threshold(ThreatLevel.CRITICAL)
                else:
                    m.signatures.remove(custom)
                r2 = m.filter(Signal(content=text))
            if not r1.allowed and r2.allowed:
                return n, (f"Membrane(enable_adaptive={adaptive}): input blocked before is admitted after the rules were relaxed "
                           f"({'threshold raised to CRITICAL' if relax == 'threshold' else 'the custom signature removed'}): {text!r}")
    # custom signatures given to the constructor are scanned
    for k in ((1, 2) if only != "innate" else ()):
        n += 1
        with contextlib.redirect_stdout(io.StringIO()):
            custom = [ThreatSignature(f"wombat{i}", ThreatLevel.CRITICAL, "custom") for i in range(k)]
            m = Membrane(signatures=custom, silent=True)
            rs = [m.filter(Signal(content=f"a WOMBAT{i} b")) for i in range(k)]
        if any(r.allowed for r in rs):
            return n, f"Membrane(signatures=[{k} custom CRITICAL substring signatures]) allowed an input containing one of them"
    # learned / imported signatures are scanned; forgetting keeps memory
    for is_regex in ((False, True) if only != "innate" else ()):
        n += 1
        with contextlib.redirect_stdout(io.StringIO()):
            m = Membrane(silent=True)
            m.learn_threat("zebra" if not is_regex else r"z.bra", ThreatLevel.CRITICAL, is_regex=is_regex)
            r = m.filter(Signal(content="a ZEBRA b"))
            m.forget_threat("zebra" if not is_regex else r"z.bra")
            r2 = m.filter(Signal(content="a ZEBRA b"))
            m2 = Membrane(silent=True)
            m2.import_antibodies([ThreatSignature("quagga" if not is_regex else r"qu.gg+a", ThreatLevel.CRITICAL, "imp", is_regex)])
            r3 = m2.filter(Signal(content="the Quagga"))
            # exported from a donor that learned it, imported by a fresh membrane
            donor = Membrane(silent=True)
            donor.learn_threat("okapi" if not is_regex else r"ok\s*api", ThreatLevel.DANGEROUS, is_regex=is_regex)
            m3 = Membrane(silent=True)
            m3.import_antibodies(donor.export_antibodies())
            r4 = m3.filter(Signal(content="an OKAPI here"))
        if r.allowed or r2.allowed or r3.allowed or r4.allowed or r4.threat_level != ThreatLevel.DANGEROUS:
            return n, (f"learned/imported signature (regex={is_regex}) not enforced or memory lost: learned {r.allowed}, after forget {r2.allowed}, "
                       f"imported {r3.allowed}, exported+imported {r4.allowed} level {r4.threat_level}")
    # rate limit with a fake clock
    import operon_ai.organelles.membrane as mm
    for limit in ((1, 2, 3) if only != "innate" else ()):
        n += 1
        clock = [1000.0]
        real_time = mm.time.time
        mm.time.time = lambda: clock[0]
        try:
            with contextlib.redirect_stdout(io.StringIO()):
                m = Membrane(rate_limit=limit, silent=True)
                admitted = []
                for step in range(12):
                    clock[0] += rnd.choice([0.0, 1.0, 20.0, 61.0])
                    r = m.filter(Signal(content=f"hello {step}"))
                    if r.allowed:
                        admitted.append(clock[0])
                    window = [t for t in admitted if t > clock[0] - 60]
                    if len(window) > limit:
                        return n, f"{len(window)} inputs admitted within one 60 s window with rate_limit={limit}"
        finally:
            mm.time.time = real_time
    # ---------- innate immunity + validators
    if only == "membrane":
        return n, None
    validators = [inn.JSONValidator(), inn.LengthValidator(max_length=100_000), inn.CharacterSetValidator()]
    for v in validators:
        for text in hostile + ['{"a": 1}', "[1,2", "\t ok \n"]:
            n += 1
            try:
                ok, err = v.validate(text)
            except Exception as e:
                return n, f"{type(v).__name__}.validate raised {type(e).__name__} on {text[:20]!r} (len {len(text)})"
            if not ok and not err:
                return n, f"{type(v).__name__} rejected without a reason"
    # what the shipped JSON validator is configured to reject, it rejects -- and the innate filter then does not allow the input
    for (jv, text, why) in ((inn.JSONValidator(max_size=10), '{"a": "' + "x" * 20 + '"}', "content longer than max_size"),
                            (inn.JSONValidator(), "[1, 2", "unparseable JSON"), (inn.JSONValidator(), "{'a': 1}", "unparseable JSON"),
                            (inn.JSONValidator(max_depth=2), "[[[[1]]]]", "nesting deeper than max_depth"),
                            (inn.JSONValidator(max_depth=3), '{"a": {"b": {"c": {"d": 1}}}}', "nesting deeper than max_depth")):
        n += 1
        ok, err = jv.validate(text)
        if ok:
            return n, f"JSONValidator(max_depth={jv.max_depth}, max_size={jv.max_size}).validate({text!r}) accepted {why}"
        with contextlib.redirect_stdout(io.StringIO()):
            r = inn.InnateImmunity(validators=[jv], silent=True).check(text)
        if r.allowed:
            return n, f"InnateImmunity allowed {text!r} although its JSON validator rejects it ({why})"
    with contextlib.redirect_stdout(io.StringIO()):
        ii = inn.InnateImmunity(validators=validators, silent=True)
    for p in ii.patterns:
        inst = p.pattern if not p.is_regex else instance_of(p)
        if inst is None:
            continue
        for (a, b) in benign_pads[:3]:
            for variant in (inst, inst.upper(), inst.swapcase()):
                n += 1
                text = a + variant + b
                with contextlib.redirect_stdout(io.StringIO()):
                    try:
                        r = ii.check(text)
                    except Exception as e:
                        return n, f"InnateImmunity.check raised {type(e).__name__} on {text[:40]!r}"
                sev = [q.severity for q in ii.patterns if q.matches(text)]
                if r.allowed and sev and max(sev) >= ii.severity_threshold:
                    return n, f"innate filter allowed {text[:50]!r} although a pattern of severity {max(sev)} >= {ii.severity_threshold} matches"
                if not p.is_regex and p.severity >= ii.severity_threshold and r.allowed:
                    return n, f"substring pattern {p.pattern!r} embedded/case-changed was allowed by the innate filter"
    for text in hostile:
        n += 1
        with contextlib.redirect_stdout(io.StringIO()):
            try:
                ii.check(text)
            except Exception as e:
                return n, f"InnateImmunity.check raised {type(e).__name__} on hostile input {text[:20]!r} (len {len(text)})"
    return n, None


if __name__ == "__main__":
    n, bad = search(quick="--thorough" not in sys.argv, seed=int(os.environ.get("VERIF_SEED", "0") or 0))
    out = {"status": "ok" if bad is None else "violation", "bound": "every shipped signature x 5 paddings x 4 case variants x 3 thresholds; 11 hostile inputs; "
           "learn/forget/import histories; rate limits 1..3 over 12 steps; 3 validators; 5 JSON rejections; constructor-installed custom signatures", "cases": n}
    if bad:
        out["detail"] = bad
        os.makedirs("replays", exist_ok=True)
        json.dump({"property": "C10", "witness": bad, "how_to_replay": "/venv/bin/python native/c10_bounded.py"}, open("replays/C10-bounded.json", "w"), indent=1)
        out["replay"] = "replays/C10-bounded.json"
    print(json.dumps(out))
