"""Bounded stand-in / witness finder for C16 on the real wiring code (labelled bounded): seeded random diagrams (1..6 modules, 0..3 ports each over
all data types x integrity labels, arbitrary attempted wires incl. cycles and fan-in), handlers returning raw / labelled / mislabelled values,
external-input assignments.  Checks connect acceptance, label safety of every delivered value, run-once-in-order, unschedulable diagrams raise."""
import io, itertools, json, os, random, sys, contextlib
sys.path.insert(0, os.environ.get("OPERON_REPO", "/repo"))


class Hang(BaseException):
    """the call under test did not return within the watchdog limit (C16: unschedulable diagrams raise "instead of looping")"""


def no_hang(fn, *a, limit=5.0, **k):
    import signal

    def on_alarm(_s, _f):
        raise Hang()
    old = signal.signal(signal.SIGALRM, on_alarm)
    signal.setitimer(signal.ITIMER_REAL, limit)
    try:
        return fn(*a, **k)
    finally:
        signal.setitimer(signal.ITIMER_REAL, 0)
        signal.signal(signal.SIGALRM, old)



def search(seed=0, N=300):
    from operon_ai.core.types import DataType, IntegrityLabel, Capability
    from operon_ai.core.wagent import PortType, ModuleSpec, WiringDiagram, WiringError
    from operon_ai.core.wiring_runtime import DiagramExecutor, TypedValue
    rnd = random.Random(seed)
    dts, ils, caps = list(DataType)[:3], list(IntegrityLabel), list(Capability)[:4]
    n = 0
    # exhaustive acceptance rule on port pairs
    for d1, i1, d2, i2 in itertools.product(list(DataType), ils, list(DataType), ils):
        n += 1
        a, b = PortType(d1, i1), PortType(d2, i2)
        exp = d1 == d2 and i1 >= i2
        if a.can_flow_to(b) != exp:
            return n, f"can_flow_to({d1.name}/{i1.name} -> {d2.name}/{i2.name}) = {a.can_flow_to(b)}, expected {exp}"
        try:
            a.require_flow_to(b)
            ok = True
        except WiringError:
            ok = False
        if ok != exp:
            return n, f"require_flow_to({d1.name}/{i1.name} -> {d2.name}/{i2.name}) accepted={ok}, expected {exp}"
    for it in range(N):
        n += 1
        k = rnd.randint(1, 6)
        diag = WiringDiagram()
        specs = []
        for m in range(k):
            ins = {f"i{j}": PortType(rnd.choice(dts), rnd.choice(ils)) for j in range(rnd.randint(0, 3))}
            outs = {f"o{j}": PortType(rnd.choice(dts), rnd.choice(ils)) for j in range(rnd.randint(0, 3))}
            sp = ModuleSpec(name=f"m{m}", inputs=ins, outputs=outs, capabilities=set(rnd.sample(caps, rnd.randint(0, 2))))
            diag.add_module(sp)
            specs.append(sp)
        union = set()
        for sp in specs:
            union |= sp.capabilities
        if diag.required_capabilities() != union:
            return n, f"required_capabilities {diag.required_capabilities()} != union {union}"
        for _ in range(rnd.randint(0, 2 * k)):
            s, d = rnd.choice(specs), rnd.choice(specs)
            sp_, dp_ = rnd.choice(list(s.outputs) + ["zz"]), rnd.choice(list(d.inputs) + ["zz"])
            before = list(diag.wires)
            exp = sp_ in s.outputs and dp_ in d.inputs and s.outputs[sp_].data_type == d.inputs[dp_].data_type and s.outputs[sp_].integrity >= d.inputs[dp_].integrity
            try:
                diag.connect(s.name, sp_, d.name, dp_)
                acc = True
            except WiringError:
                acc = False
            if acc != exp:
                return n, f"connect {s.name}.{sp_} -> {d.name}.{dp_}: accepted={acc}, expected {exp}"
            if not acc and diag.wires != before:
                return n, "a refused connection changed the wire list"
        ex = DiagramExecutor(diag)
        runs = {sp.name: 0 for sp in specs}
        seen_inputs = {}
        mode = {sp.name: rnd.choice(["raw", "labelled", "mislabel_type", "mislabel_integrity", "missing"]) if rnd.random() < 0.3 else "raw" for sp in specs}

        def mk(sp):
            def h(inputs):
                runs[sp.name] += 1
                seen_inputs[sp.name] = dict(inputs)
                out = {}
                for pn, pt in sp.outputs.items():
                    md = mode[sp.name]
                    if md == "raw":
                        out[pn] = 1
                    elif md == "labelled":
                        out[pn] = TypedValue(pt.data_type, pt.integrity, 1)
                    elif md == "mislabel_type":
                        out[pn] = TypedValue([d for d in DataType if d != pt.data_type][0], pt.integrity, 1)
                    elif md == "mislabel_integrity":
                        out[pn] = TypedValue(pt.data_type, [i for i in ils if i != pt.integrity][0], 1)
                if mode[sp.name] == "missing" and out:
                    out.pop(next(iter(out)))
                return out
            return h
        for sp in specs:
            if rnd.random() < 0.92 or not sp.outputs:
                ex.register_module(sp.name, mk(sp))
        wired = {(w.dst_module, w.dst_port) for w in diag.wires}
        ext = {}
        for sp in specs:
            for pn, pt in sp.inputs.items():
                if ((sp.name, pn) not in wired and rnd.random() < 0.9) or ((sp.name, pn) in wired and rnd.random() < 0.12):
                    r = rnd.random()
                    v = 5 if r < 0.6 else (TypedValue(pt.data_type, pt.integrity, 5) if r < 0.8 else TypedValue(rnd.choice(dts), rnd.choice(ils), 5))
                    ext.setdefault(sp.name, {})[pn] = v
        enforce = rnd.random() < 0.5
        try:
            rep = no_hang(ex.execute, ext, enforce_static_checks=enforce)
            raised = None
        except Hang:
            return n, f"execute did not return within 5 s (looping instead of raising a wiring error) on diagram #{it} seed {seed}: modules {[sp.name for sp in specs]}, wires {[(w.src_module, w.dst_module) for w in diag.wires]}"
        except WiringError as e:
            rep, raised = None, e
        except Exception as e:
            return n, f"execute raised {type(e).__name__}: {e} (not a WiringError) on diagram #{it} seed {seed}"
        # label safety of everything a handler saw
        for mname, inputs in seen_inputs.items():
            sp = diag.modules[mname]
            if set(inputs) != set(sp.inputs):
                return n, f"module {mname} ran with input ports {sorted(inputs)} but declares {sorted(sp.inputs)} (partially wired run)"
            for pn, tv in inputs.items():
                pt = sp.inputs[pn]
                if tv.data_type != pt.data_type or tv.integrity < pt.integrity:
                    return n, f"value {tv.data_type.name}/{tv.integrity.name} delivered to {mname}.{pn} declared {pt.data_type.name}/{pt.integrity.name} (enforce={enforce})"
        double = sorted((m, p) for m, ps in ext.items() for p in ps if (m, p) in wired)
        if rep is not None and double:
            return n, f"input port(s) {double} have two sources (a wire and an external value) but the diagram was executed (order {rep.execution_order})"
        for w in (diag.wires if rep is not None else []):
            if w.dst_module in seen_inputs and getattr(seen_inputs[w.dst_module].get(w.dst_port), "value", None) != 1:
                return n, f"wire {w.src_module}.{w.src_port} -> {w.dst_module}.{w.dst_port} did not deliver the source module's value to the port the handler saw"
        if any(c > 1 for c in runs.values()):
            return n, f"a module ran more than once: {runs}"
        if rep is not None:
            if sorted(rep.execution_order) != sorted(sp.name for sp in specs):
                return n, f"execution order {rep.execution_order} does not cover every module exactly once"
            pos = {m: i for i, m in enumerate(rep.execution_order)}
            for w in diag.wires:
                if pos[w.src_module] >= pos[w.dst_module]:
                    return n, f"module {w.dst_module} ran before its feeder {w.src_module}"
            if any(mode[m] in ("mislabel_type", "mislabel_integrity") and diag.modules[m].outputs and m in ex._handlers for m in runs if runs[m]):
                return n, f"a handler output contradicting its declared port label was accepted"
    # exhaustive small diagrams: up to 3 modules with one TEXT in-port and one TEXT out-port each, every wire subset, every declaration order,
    # every external-input subset: WiringError exactly when the wires contain a cycle or some in-port has other than exactly one source
    T0 = PortType(DataType.TEXT, IntegrityLabel.UNTRUSTED)
    for k in (1, 2, 3):
        names = [f"m{i}" for i in range(k)]
        allw = [(a, b) for a in names for b in names]
        for order in itertools.permutations(names):
            for wmask in range(1 << len(allw)):
                ws = [allw[i] for i in range(len(allw)) if wmask >> i & 1]
                if k == 3 and len(ws) > 3:
                    continue
                for emask in range(1 << k):
                    n += 1
                    diag = WiringDiagram()
                    for m in order:
                        diag.add_module(ModuleSpec(name=m, inputs={"i": T0}, outputs={"o": T0}))
                    # the executor may be built before the diagram is (fully) wired: execute() must see the wires as they are when it runs
                    late = (n % 3 == 0)
                    ex = DiagramExecutor(diag) if late else None
                    for a, b in ws:
                        diag.connect(a, "o", b, "i")
                    if ex is None:
                        ex = DiagramExecutor(diag)
                    seen, order_run = {}, []
                    for m in names:
                        ex.register_module(m, (lambda m: (lambda inputs: (seen.__setitem__(m, inputs["i"].value), order_run.append(m), {"o": "from-" + m})[2]))(m))
                    ext = {m: {"i": "ext-" + m} for i, m in enumerate(names) if emask >> i & 1}
                    sources = {m: [a for a, b in ws if b == m] + (["ext"] if m in ext else []) for m in names}
                    # cycle among wires
                    adj = {m: [b for a, b in ws if a == m] for m in names}
                    cyc = False
                    for s0 in names:
                        stack, vis = list(adj[s0]), set()
                        while stack:
                            x = stack.pop()
                            if x == s0:
                                cyc = True
                                break
                            if x not in vis:
                                vis.add(x)
                                stack.extend(adj[x])
                    must_raise = cyc or any(len(v) != 1 for v in sources.values())
                    try:
                        rep = no_hang(ex.execute, ext)
                        raised = False
                    except Hang:
                        return n, f"diagram declared {list(order)} wires {ws} external {sorted(ext)}: execute did not return within 5 s (looping instead of raising a wiring error)"
                    except WiringError:
                        raised = True
                    if must_raise and not raised:
                        return n, (f"diagram declared {list(order)} wires {ws}{' (wired after the executor was built)' if late else ''} external {sorted(ext)}: {'cycle' if cyc else 'a port without exactly one source'} "
                                   f"but it was executed in order {rep.execution_order}")
                    if not must_raise:
                        if raised:
                            return n, f"well-formed diagram declared {list(order)} wires {ws}{' (wired after the executor was built)' if late else ''} external {sorted(ext)} was refused"
                        for m in names:
                            src = sources[m][0]
                            want = "ext-" + m if src == "ext" else "from-" + src
                            if seen.get(m) != want or (src != "ext" and order_run.index(src) > order_run.index(m)):
                                return n, f"diagram declared {list(order)} wires {ws}: module {m} saw {seen.get(m)!r}, expected {want!r}; run order {order_run}"
    return n, None


if __name__ == "__main__":
    seed = int(os.environ.get("VERIF_SEED", "0") or 0)
    n, bad = search(seed, 300 if "--thorough" not in sys.argv else 100000)
    out = {"status": "ok" if bad is None else "violation", "bound": "all port-type pairs (exhaustive); seeded random diagrams 1..6 modules x 0..3 ports, wires incl. cycles/fan-in/doubly-sourced ports, 5 handler modes; exhaustive: <=3 one-port modules x every wire subset (<=3 wires for 3 modules) x declaration order x external-input subset", "cases": n}
    if bad:
        out["detail"] = bad
        os.makedirs("replays", exist_ok=True)
        json.dump({"property": "C16", "witness": bad, "seed": seed, "how_to_replay": f"VERIF_SEED={seed} /venv/bin/python native/c16_bounded.py"}, open("replays/C16-bounded.json", "w"), indent=1)
        out["replay"] = "replays/C16-bounded.json"
    print(json.dumps(out))
