"""Bounded stand-in / witness finder for C12 on the real Ribosome (labelled bounded).
Templates are generated from the documented grammar (plain / optional / defaulted / filtered variables, if/else, each with item/index/first/last,
includes up to 3 levels, non-nested blocks) and rendered (a) by the real multi-pass renderer and (b) by an independent single left-to-right
expansion.  Phase A: delimiter-free values (must agree exactly).  Phase B: values / items / defaults that contain template constructs (must be
emitted verbatim).  Disagreements are classified; classes listed as open known findings are reported as such."""
import io, itertools, json, os, random, re, sys, contextlib
ROOT = os.path.dirname(os.path.dirname(os.path.abspath(__file__)))
sys.path.insert(0, os.environ.get("OPERON_REPO", "/repo"))
FILTERS = {"upper": lambda x: str(x).upper(), "lower": lambda x: str(x).lower(), "trim": lambda x: str(x).strip(), "title": lambda x: str(x).title(),
           "length": lambda x: str(len(x)), "repr": lambda x: repr(x)}
TOKEN = re.compile(r"\{\{#if\s+(\w+)\}\}(.*?)(?:\{\{#else\}\}(.*?))?\{\{/if\}\}|\{\{#each\s+(\w+)\}\}(.*?)\{\{/each\}\}|\{\{>(\w+)\}\}|"
                   r"\{\{(\w+)\|(\w+)\}\}|\{\{(\w+)\|([^}]+)\}\}|\{\{\?(\w+)\}\}|\{\{(\w+|\.)\}\}", re.DOTALL)


def reference(text, ctx, templates, warnings, depth=0, loop=None):
    """one left-to-right expansion; substituted text is never looked at again"""
    out, pos = [], 0
    for m in TOKEN.finditer(text):
        out.append(text[pos:m.start()])
        pos = m.end()
        if m.group(1) is not None:                       # if / else
            body = m.group(2) if ctx.get(m.group(1)) else (m.group(3) or "")
            out.append(reference(body, ctx, templates, warnings, depth, loop))
        elif m.group(4) is not None:                     # each
            items = ctx.get(m.group(4), [])
            if isinstance(items, (list, tuple)):
                for i, item in enumerate(items):
                    lc = {".": item, "item": item, "index": i, "first": i == 0, "last": i == len(items) - 1}
                    if isinstance(item, dict):
                        lc.update(item)
                    out.append(reference(m.group(5), ctx, templates, warnings, depth, lc))
        elif m.group(6) is not None:                     # include
            name = m.group(6)
            if name in templates and depth < 4:
                out.append(reference(templates[name], ctx, templates, warnings, depth + 1, None))
            else:
                out.append(f"[Unknown template: {name}]")
        elif m.group(7) is not None and m.group(8) in FILTERS:   # filtered
            v, f = m.group(7), m.group(8)
            if loop is not None and v in loop:
                out.append(m.group(0).replace("{{" + v, str(loop[v]), 1) if False else FILTERS[f](loop[v]))
            elif v in ctx:
                out.append(FILTERS[f](ctx[v]))
            else:
                out.append(m.group(0))
        elif (m.group(7) is not None) or (m.group(9) is not None):   # defaulted
            v = m.group(7) if m.group(7) is not None else m.group(9)
            d = m.group(8) if m.group(7) is not None else m.group(10)
            out.append(str(ctx[v]) if v in ctx else d)
        elif m.group(11) is not None:                    # optional
            out.append(str(ctx.get(m.group(11), "")))
        else:                                            # simple
            v = m.group(12)
            if loop is not None and v in loop:
                out.append(str(loop[v]))
            elif v in ctx:
                out.append(str(ctx[v]))
            else:
                warnings.append(f"Unbound variable: {v}")
                out.append(m.group(0))
    out.append(text[pos:])
    return "".join(out)


def known_classes():
    try:
        d = json.load(open(os.path.join(ROOT, "known_findings.json")))
    except OSError:
        return {}
    return {f["bounded_class"]: f for f in d.get("findings", []) if f.get("property") == "C12" and f.get("status", "open") == "open" and f.get("bounded_class")}


def gen_templates(rnd, n):
    pieces = ["Hello ", "{{name}}", "{{?opt}}", "{{name|upper}}", "{{missing|dflt}}", "{{name|dflt}}", "{{#if flag}}yes {{name}}{{#else}}no{{/if}}",
              "{{#if off}}hidden{{/if}}", "{{#each xs}}[{{.}}:{{index}}:{{first}}:{{last}}]{{/each}}", "{{#each ds}}<{{k}}={{item}}>{{/each}}", "{{>inc1}}",
              "{{>nope}}", " and ", "{{unbound}}", "{{#each xs}}{{item}}-{{name}};{{/each}}", "{{title|title}}", "{{#if name}}{{>inc2}}{{/if}}", "\n"]
    for _ in range(n):
        yield "".join(rnd.choice(pieces) for _ in range(rnd.randint(1, 5)))


def search(seed=0, N=400):
    from operon_ai.organelles.ribosome import Ribosome, mRNA
    rnd = random.Random(seed)
    known = known_classes()
    seen = {}
    n = 0
    incs = {"inc1": "<<{{name}}|{{>inc2}}>>", "inc2": "(({{?opt}}{{>inc3}}))", "inc3": "deep {{name|lower}}"}
    plain_vals = [{"name": "World", "opt": "o", "flag": True, "off": False, "xs": ["a", "b"], "ds": [{"k": "v"}], "title": "the title"},
                  {"name": "N", "flag": 0, "off": "", "xs": [], "ds": [{"k": 1}, {"k": 2}], "title": ""},
                  {"name": 7, "opt": "", "flag": "x", "xs": ("t",), "ds": [], "title": "a b"},
                  {"name": 0, "opt": 0, "flag": None, "off": [], "xs": [0, False], "ds": [{"k": 0}], "title": "x"},
                  {"name": False, "opt": None, "flag": 1, "xs": [None], "ds": [{"k": None}], "title": "y"}]
    evil = "{{secret}}"
    evil_vals = [{"name": evil, "secret": "S", "flag": True, "xs": ["a"], "ds": [{"k": "v"}], "title": "t"},
                 {"name": "n", "secret": "S", "flag": True, "xs": [evil, "{{>inc3}}"], "ds": [{"k": evil}], "title": "t", "opt": "{{#if flag}}X{{/if}}"},
                 {"name": "{{>inc3}}", "secret": "S", "flag": True, "xs": ["{{index}}"], "ds": [{"k": "{{?secret}}"}], "title": "{{name|upper}}"}]
    # another renderer with custom filters exists in the process (a filter named like a default word, and an override of a built-in):
    # its configuration must not change what the default renderers below make of the same templates
    with contextlib.redirect_stdout(io.StringIO()):
        Ribosome(silent=True, filters={"dflt": lambda x: "<custom>", "upper": lambda x: "<<" + str(x) + ">>"})
    for phase, ctxs in (("A", plain_vals), ("B", evil_vals)):
        for tmpl in gen_templates(rnd, N):
            for ctx in ctxs:
                n += 1
                with contextlib.redirect_stdout(io.StringIO()):
                    r = Ribosome(silent=True)
                    for k, v in incs.items():
                        r.create_template(v, k)
                    try:
                        got = r.synthesize(tmpl, **ctx)
                    except Exception as e:
                        return n, f"render raised {type(e).__name__}: {e} for template {tmpl!r}", seen
                w = []
                exp = reference(tmpl, ctx, incs, w)
                if got.sequence != exp:
                    if phase == "A":
                        cls = "grammar:differs-from-single-pass-expansion"
                    else:
                        cls = "opacity:bound-value-reinterpreted-as-template-syntax"
                    desc = f"{cls}: template {tmpl!r} with {({k: ctx[k] for k in ctx if k in tmpl or k in ('secret',)})!r}: rendered {got.sequence!r}, single-pass expansion gives {exp!r}"
                    if cls in known or os.environ.get("C12_COLLECT_ALL"):
                        seen.setdefault(cls, desc)
                        continue
                    return n, desc, seen
    # missing variables are reported: a variable that occurs in plain form `{{v}}` is required however else it also occurs
    import re as _re
    for tmpl in ("{{v}}", "{{v}} {{?v}}", "{{?v}} {{v}}", "{{v|d}} {{v}}", "{{v}} {{v|d}}", "{{v}}{{v}}", "{{?v}}", "{{v|d}}", "{{?v}} {{v|d}}", "a {{w}} {{?v}} {{v}} {{w|x}}"):
        plain = set(_re.findall(r"\{\{(\w+)\}\}", tmpl))
        n += 1
        with contextlib.redirect_stdout(io.StringIO()):
            m_ = mRNA(sequence=tmpl, name="t")
            req = set(m_.get_required_variables())
            got = Ribosome(silent=True).translate(m_)
        missing_reported = {w_.split(": ", 1)[1] for w_ in got.warnings if w_.startswith("Missing required variable: ")}
        if req != plain or missing_reported != plain:
            return n, (f"missing-variable reporting: template {tmpl!r} rendered with nothing bound: required={sorted(req)}, reported missing={sorted(missing_reported)}, "
                       f"plain occurrences={sorted(plain)}"), seen
        n += 1
        raised = False
        try:
            with contextlib.redirect_stdout(io.StringIO()):
                Ribosome(strict=True, silent=True).translate(mRNA(sequence=tmpl, name="t"))
        except ValueError:
            raised = True
        if raised != bool(plain):
            return n, f"missing-variable reporting: strict mode {'raised' if raised else 'did not raise'} for template {tmpl!r} with nothing bound (plain occurrences={sorted(plain)})", seen
    # strict mode and unknown template
    with contextlib.redirect_stdout(io.StringIO()):
        r = Ribosome(strict=True, silent=True)
        r.create_template("{{name}}", "t")
    n += 1
    try:
        with contextlib.redirect_stdout(io.StringIO()):
            r.translate(mRNA(sequence="{{need}}", name="x", required_variables=["need"]) if "required_variables" in mRNA.__dataclass_fields__ else "t")
        if "required_variables" in mRNA.__dataclass_fields__:
            return n, "strict mode did not raise for a missing required variable", seen
    except ValueError:
        pass
    except TypeError:
        pass
    n += 1
    try:
        with contextlib.redirect_stdout(io.StringIO()):
            r.translate("does-not-exist")
        return n, "unknown template name did not raise", seen
    except ValueError:
        pass
    return n, None, seen


if __name__ == "__main__":
    seed = int(os.environ.get("VERIF_SEED", "0") or 0)
    n, bad, seen = search(seed, 400 if "--thorough" not in sys.argv else 50000)
    out = {"status": "ok" if bad is None else "violation", "bound": "seeded templates of 1..5 documented constructs x 5 delimiter-free contexts (incl. falsy non-string values) + 3 contexts whose values contain constructs; includes to depth 3",
           "cases": n, "known_findings": list(seen.values())}
    if bad:
        out["detail"] = bad
        os.makedirs(os.path.join(ROOT, "replays"), exist_ok=True)
        json.dump({"property": "C12", "witness": bad, "seed": seed, "how_to_replay": f"VERIF_SEED={seed} /venv/bin/python native/c12_bounded.py"}, open(os.path.join(ROOT, "replays/C12-bounded.json"), "w"), indent=1)
        out["replay"] = "replays/C12-bounded.json"
    print(json.dumps(out))
