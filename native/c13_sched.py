"""Deterministic two-thread schedules for the Lysosome (witness finder for C13's lock obligations; bounded, labelled so).
Reuses the line-granularity scheduler of c05_sched: every source line of lysosome.py is a scheduling point, the lock is replaced by a
scheduler-aware one.  Outcome = (ids still queued, counters); accepted iff equal to the outcome of some sequential order."""
import io, itertools, json, os, sys, contextlib, logging
logging.disable(logging.CRITICAL)
ROOT = os.path.dirname(os.path.dirname(os.path.abspath(__file__)))
sys.path.insert(0, os.environ.get("OPERON_REPO", "/repo"))
sys.path.insert(0, ROOT)
from native import c05_sched as S


def search(max_points=60):
    import operon_ai.organelles.lysosome as L
    from operon_ai.organelles.lysosome import Lysosome, Waste, WasteType

    def mk(n_items, maxq=4, thr=8):
        def f():
            with contextlib.redirect_stdout(io.StringIO()):
                ly = Lysosome(max_queue_size=maxq, auto_digest_threshold=thr, silent=True)
                for i in range(n_items):
                    ly.ingest(Waste(waste_type=WasteType.EXPIRED_CACHE, content={"id": i}, source="s"))
            return [ly]
        return f

    def state(ly):
        return (tuple(w.content.get("id") for w in ly._queue), ly._total_ingested, ly._total_digested)
    new = lambda i: Waste(waste_type=WasteType.EXPIRED_CACHE, content={"id": i}, source="s")
    scen = [("ingest-at-capacity-vs-autophagy", mk(4), [[("ingest", 0, [new(4)])], [("autophagy", 0, [])]]),
            ("digest-vs-autophagy", mk(3), [[("digest", 0, [])], [("autophagy", 0, [])]]),
            ("digest-vs-ingest", mk(3), [[("digest", 0, [1])], [("ingest", 0, [new(9)])]]),
            ("two-ingests-at-capacity", mk(4), [[("ingest", 0, [new(4)])], [("ingest", 0, [new(5)])]])]
    n = 0
    for name, make, ops in scen:
        allowed = set()
        for order in set(itertools.permutations([t for t, o in enumerate(ops) for _ in o])):
            objs = make()
            idx = [0] * len(ops)
            with contextlib.redirect_stdout(io.StringIO()):
                for t in order:
                    nm, si, args = ops[t][idx[t]]
                    getattr(objs[si], nm)(*args)
                    idx[t] += 1
            allowed.add(tuple(state(o) for o in objs))
        _r, _s, _e, total = S.run_schedule(make, ops, [(0, 10 ** 9)], module=L, state_of=state)
        total = min(total + 5, max_points)
        plans = [[(a, 10 ** 9), (b, 10 ** 9)] for a in (0, 1) for b in (0, 1) if a != b]
        for a, b in ((0, 1), (1, 0)):
            for k in range(1, total):
                plans.append([(a, k), (b, 10 ** 9), (a, 10 ** 9)])
        for plan in plans:
            n += 1
            results, st, errors, _ = S.run_schedule(make, ops, [tuple(p) for p in plan], module=L, state_of=state)
            if "deadlock" in errors:
                return n, f"deadlock:{name}: schedule {plan}"
            if errors:
                return n, f"exception:{name}: {errors[0]} under schedule {plan}"
            if st not in allowed:
                return n, (f"not-serialisable:{name}: schedule {plan} -> (queued ids, ingested, digested) = {st[0]}; "
                           f"sequential orders give {sorted(a[0] for a in allowed)}")
    return n, None


if __name__ == "__main__":
    n, bad = search()
    out = {"status": "ok" if bad is None else "violation", "bound": "4 two-thread scenarios on one Lysosome; line-granularity scheduling points; one preemption", "cases": n}
    if bad:
        out["detail"] = bad
        os.makedirs(os.path.join(ROOT, "replays"), exist_ok=True)
        json.dump({"property": "C13", "witness": bad, "how_to_replay": "/venv/bin/python native/c13_sched.py"}, open(os.path.join(ROOT, "replays/C13-sched.json"), "w"), indent=1)
        out["replay"] = "replays/C13-sched.json"
    print(json.dumps(out))
    sys.stdout.flush()
    os._exit(0)
