"""Bounded fault-injection stand-in / witness finder for C14 on the real CoordinationSystem.
Resource lists over {r1,r2} up to length 3 (incl. repeats and entries held by another operation, preemptable or not),
a fault at every callback step (checkpoint false/raising is injected through work/validate; k-th acquisition blocked by a foreign holder),
then kill / shutdown; preemption by a higher-priority operation while in flight (then every way of ending); nested operation.  After every call: nothing owned by the operation, not active, untouched foreign locks; work once; validate after work."""
import io, itertools, json, os, sys, contextlib
sys.path.insert(0, os.environ.get("OPERON_REPO", "/repo"))


def fresh_system(preempt):
    from operon_ai.coordination.system import CoordinationSystem
    from operon_ai.coordination.types import ResourceLock
    s = CoordinationSystem()
    c = s.controller
    for r in ("r1", "r2"):
        s.register_resource(r, allow_preemption=preempt)
    return s


def owned_by(s, op):
    return sorted(r for r, l in s.controller.resources.items() if l.owner == op)


def search(maxlen=3):
    n = 0
    lists = [list(t) for k in range(0, maxlen + 1) for t in itertools.product(("r1", "r2"), repeat=k)]
    for preempt in (False, True):
        for res in lists:
            for foreign in (None, "r1", "r2"):
                for work in ("ok", "raise"):
                    for val in ("none", "true", "false", "raise"):
                        for prio in (0, 5):
                            n += 1
                            s = fresh_system(preempt)
                            if foreign:
                                other = s.controller.start_operation("other", "a2", 3)
                                s.controller.acquire_resource(other, foreign)
                            before = {r: (l.owner, l.hold_count) for r, l in s.controller.resources.items()}
                            log = []

                            def work_fn():
                                log.append(("work", owned_by(s, "op")))
                                if work == "raise":
                                    raise RuntimeError("w")
                                return 7

                            def validate_fn(x):
                                log.append(("validate", x))
                                if val == "raise":
                                    raise RuntimeError("v")
                                return val == "true"
                            with contextlib.redirect_stdout(io.StringIO()):
                                r = s.execute_operation("op", "a1", work_fn, resources=list(res),
                                                        validate_fn=None if val == "none" else validate_fn, priority=prio)
                            errs = []
                            if owned_by(s, "op"):
                                errs.append(f"resources {owned_by(s, 'op')} still owned by the operation after it returned (success={r.success})")
                            if "op" in s.controller.active_operations:
                                errs.append("operation still listed as active")
                            works = [e for e in log if e[0] == "work"]
                            if len(works) > 1:
                                errs.append("work function ran more than once")
                            if works and not set(res) <= set(works[0][1]):
                                errs.append(f"work ran while holding {works[0][1]} but requested {sorted(set(res))}")
                            if any(e[0] == "validate" for e in log) and (not works or work == "raise"):
                                errs.append("validation ran without completed work")
                            if r.success and (work != "ok" or val in ("false", "raise")):
                                errs.append("success reported although work/validation failed")
                            for rid, l in s.controller.resources.items():
                                if before[rid][0] == "other" and l.owner == "other" and l.hold_count != before[rid][1]:
                                    errs.append(f"foreign lock {rid} hold_count changed")
                            # further operations: the resources must be obtainable again by somebody else
                            if not errs and not foreign:
                                nxt = s.controller.start_operation("next", "a3", 0)
                                for rid in set(res):
                                    from operon_ai.coordination.types import LockResult
                                    if s.controller.acquire_resource(nxt, rid) == LockResult.BLOCKED:
                                        errs.append(f"{rid} cannot be acquired by a later operation")
                                s.controller.abort_operation(nxt, "cleanup")
                            # kill / shutdown paths
                            if errs:
                                return n, f"execute_operation(resources={res}, foreign holder of {foreign}, preemption={preempt}, work={work}, validate={val}, priority={prio}): " + "; ".join(errs[:2])
        # kill and shutdown
        for res in lists[:7]:
            for how in ("kill", "shutdown", "watchdog"):
                n += 1
                s = fresh_system(preempt)
                ctx = s.controller.start_operation("op", "a1", 0)
                for rid in res:
                    s.controller.acquire_resource(ctx, rid)
                with contextlib.redirect_stdout(io.StringIO()):
                    if how == "kill":
                        s.kill_operation("op", "t")
                    elif how == "shutdown":
                        s.shutdown()
                    else:
                        s.watchdog.manual_kill(s.controller, "op")
                if owned_by(s, "op") or "op" in s.controller.active_operations:
                    return n, f"{how} after acquiring {res}: still owns {owned_by(s, 'op')} / active={'op' in s.controller.active_operations}"
    # preemption while the operation is in flight: a higher-priority operation takes one of its resources, then it ends
    for res in [l for l in lists if l]:
        for taken in sorted(set(res)):
            for hi_done in (False, True):
                for how in ("kill", "shutdown", "watchdog", "complete", "abort"):
                    n += 1
                    s = fresh_system(True)
                    ctx = s.controller.start_operation("op", "a1", 0)
                    for rid in res:
                        s.controller.acquire_resource(ctx, rid)
                    hi = s.controller.start_operation("hi", "a9", 9)
                    with contextlib.redirect_stdout(io.StringIO()):
                        s.controller.acquire_resource(hi, taken)
                        if hi_done:
                            s.controller.complete_operation(hi)
                        if how == "kill":
                            s.kill_operation("op", "t")
                        elif how == "watchdog":
                            s.watchdog.manual_kill(s.controller, "op")
                        elif how == "complete":
                            s.controller.complete_operation(ctx)
                        elif how == "abort":
                            s.controller.abort_operation(ctx, "x")
                        else:
                            s.shutdown()
                    if owned_by(s, "op") or "op" in s.controller.active_operations:
                        return n, (f"{how} after acquiring {res} and being preempted on {taken} (preemptor {'finished' if hi_done else 'still running'}): "
                                   f"still owns {owned_by(s, 'op')} / active={'op' in s.controller.active_operations}")
    # nested higher-priority operation started by the work function on one of the outer operation's resources
    for res in [l for l in lists if l]:
        for taken in sorted(set(res)):
            n += 1
            s = fresh_system(True)

            def work_fn():
                return s.execute_operation("inner", "a9", lambda: 1, resources=[taken], priority=9).success
            with contextlib.redirect_stdout(io.StringIO()):
                s.execute_operation("op", "a1", work_fn, resources=list(res), priority=0)
            if owned_by(s, "op") or owned_by(s, "inner") or "op" in s.controller.active_operations:
                return n, f"execute_operation(resources={res}) whose work runs a nested priority-9 operation on {taken}: still owns {owned_by(s, 'op')}"
    return n, None


if __name__ == "__main__":
    L = int(sys.argv[1]) if len(sys.argv) > 1 else 3
    n, bad = search(L)
    out = {"status": "ok" if bad is None else "violation", "bound": f"resource lists over 2 resources up to length {L} x foreign holder x preemption x work/validate faults x priority; kill/shutdown",
           "cases": n}
    if bad:
        out["detail"] = bad
        os.makedirs("replays", exist_ok=True)
        json.dump({"property": "C14", "witness": bad, "how_to_replay": f"/venv/bin/python native/c14_bounded.py {L}"}, open("replays/C14-bounded.json", "w"), indent=1)
        out["replay"] = "replays/C14-bounded.json"
    print(json.dumps(out))
