"""Native replay of a failed obligation on the real code (runs under /venv/bin/python, imports operon_ai).

usage: /venv/bin/python native/replay.py <replay.json> [--quiet]
Builds the pre-state from the solver's model, runs the real method under a watchdog, evaluates the very
same contract clause natively. Prints one JSON line: {"confirmed": bool, "observed": str, ...}; exit 0 always
(the caller decides), unless the replay file itself is unusable (exit 3).
"""
from __future__ import annotations
import importlib, importlib.util, json, os, sys, threading, traceback, copy, types, enum, io, contextlib, inspect
from fractions import Fraction

HERE = os.path.dirname(os.path.abspath(__file__))
sys.path.insert(0, os.path.dirname(HERE))
REPO = os.environ.get("OPERON_REPO", "/repo")
sys.path.insert(0, REPO)


class ReentryDetected(BaseException):
    pass


class InstrumentedLock:
    """stands in for threading.Lock: reports re-acquisition by the holder instead of blocking forever"""

    def __init__(self, reentrant=False):
        self.reentrant = reentrant
        self.owner = None
        self.count = 0
        self.max_count = 0
        self._real = threading.RLock()

    def acquire(self, blocking=True, timeout=-1):
        me = threading.get_ident()
        if self.owner == me and not self.reentrant:
            raise ReentryDetected("non-reentrant lock re-acquired by its holder")
        self._real.acquire()
        self.owner = me
        self.count += 1
        self.max_count = max(self.max_count, self.count)
        return True

    def release(self):
        self.count -= 1
        if self.count == 0:
            self.owner = None
        self._real.release()

    __enter__ = acquire

    def __exit__(self, *a):
        self.release()

    def locked(self):
        return self.count > 0


class Script:
    """callback stub that plays the model's return/raise sequence and logs calls"""

    def __init__(self, name, log, plan):
        self.name = name
        self.log = log
        self.plan = plan          # shared list of planned outcomes (dicts), consumed in call order per name

    def __call__(self, *a, **k):
        mine = [p for p in self.plan if p["name"] == self.name and not p.get("used")]
        entry = {"name": self.name, "args": a, "kwargs": k}
        self.log.append(entry)
        if mine:
            p = mine[0]
            p["used"] = True
            if p.get("outcome") == "raise":
                entry["outcome"] = "raise"
                raise RuntimeError(f"scripted failure of {self.name}")
            entry["outcome"] = "return"
            if "value" in p:
                entry["ret"] = p["value"]
                return p["value"]
            if "truthy" in p:
                entry["ret"] = bool(p["truthy"])
                return bool(p["truthy"])
        entry["outcome"] = "return"
        return None

    def __getattr__(self, attr):
        if attr.startswith("__"):
            raise AttributeError(attr)
        return Script(f"{self.name}.{attr}", self.log, self.plan)


DEFAULT_HINT = [None]      # module of the function under replay: same-named classes (ThreatLevel x2) resolve as they do there


def find_class(name, modhint=None):
    modhint = modhint or DEFAULT_HINT[0]
    if modhint:
        m = importlib.import_module(modhint)
        if hasattr(m, name):
            return getattr(m, name)
    import operon_ai, pkgutil
    for mi in pkgutil.walk_packages(operon_ai.__path__, "operon_ai."):
        try:
            m = importlib.import_module(mi.name)
        except Exception:
            continue
        if hasattr(m, name) and isinstance(getattr(m, name), type):
            return getattr(m, name)
    raise KeyError(name)


def conv(val, ty):
    k = ty[0] if ty else "any"
    if k == "opt":
        return conv(val, ty[1])
    if isinstance(val, dict) and "num" in val:
        val = float(Fraction(val["num"], val["den"]))
        if k not in ("datetime", "timedelta"):
            return val
    elif isinstance(val, dict) and "approx" in val:
        val = float(val["approx"].rstrip("?"))
        if k not in ("datetime", "timedelta"):
            return val
    if k == "enum":
        return getattr(find_class(ty[1]), val)
    if k in ("real",):
        return float(val)
    if k in ("datetime",):
        from datetime import datetime
        return datetime.fromtimestamp(1_700_000_000 + float(val))
    if k == "timedelta":
        from datetime import timedelta
        return timedelta(seconds=float(val))
    return val


def snapshot(obj, depth=0, memo=None):
    memo = {} if memo is None else memo
    if id(obj) in memo:
        return memo[id(obj)]
    if isinstance(obj, (int, float, str, bool, type(None), enum.Enum, bytes, Fraction)):
        return obj
    if isinstance(obj, list):
        return [snapshot(x, depth + 1, memo) for x in obj] if depth < 4 else list(obj)
    if isinstance(obj, tuple):
        return tuple(snapshot(x, depth + 1, memo) for x in obj)
    if isinstance(obj, dict):
        return {k: snapshot(v, depth + 1, memo) for k, v in obj.items()} if depth < 4 else dict(obj)
    if isinstance(obj, set):
        return set(obj)
    if hasattr(obj, "__dict__") and type(obj).__module__.startswith("operon_ai") and depth < 4:
        ns = object.__new__(type(obj)) if not isinstance(obj, (threading.Thread,)) else types.SimpleNamespace()
        memo[id(obj)] = ns
        for k, v in list(vars(obj).items()):
            try:
                object.__setattr__(ns, k, snapshot(v, depth + 1, memo))
            except Exception:
                pass
        return ns
    return obj


def make_obj(cname, prefix, model, types_):
    """build an instance of a (data)class from the model entries `<prefix>.<field>`"""
    import dataclasses
    C = find_class(cname)
    o = object.__new__(C)
    if dataclasses.is_dataclass(C):
        for f in dataclasses.fields(C):
            if f.default is not dataclasses.MISSING:
                v = f.default
            elif f.default_factory is not dataclasses.MISSING:
                v = f.default_factory()
            else:
                v = None
            object.__setattr__(o, f.name, v)
    for n, val in model.items():
        if n.startswith(prefix + ".") and "#" not in n[len(prefix):] and "." not in n[len(prefix) + 1:]:
            ty = types_.get(n)
            if ty and ty[0] not in ("obj", "list", "dict", "set", "lock", "tuple", "any", "callback", "opt"):
                try:
                    object.__setattr__(o, n[len(prefix) + 1:], conv(val, ty))
                except Exception:
                    pass
    for n, val in model.items():
        if n.startswith(prefix + ".") and n.endswith("#none") and val is True:
            try:
                object.__setattr__(o, n[len(prefix) + 1:-5], None)
            except Exception:
                pass
    return o


def set_path(root_objs, path, value):
    """path like 'self.atp' or 'self.budget.atp'"""
    parts = path.split(".")
    o = root_objs[parts[0]]
    for p in parts[1:-1]:
        o = getattr(o, p)
    try:
        setattr(o, parts[-1], value)
    except Exception:
        object.__setattr__(o, parts[-1], value)


def default_for(ann, depth=0):
    """a benign value for a field annotation (string or object)"""
    import dataclasses, datetime as _dt, enum, typing
    a = ann if isinstance(ann, str) else getattr(ann, "__name__", str(ann))
    a = a.replace("typing.", "")
    if a.startswith("Optional[") or a.endswith("| None") or a == "None" or a.startswith("Callable") or "Callable[" in a:
        return None
    for pre, val in (("int", 0), ("float", 0.0), ("str", ""), ("bool", False)):
        if a == pre:
            return val
    if a.startswith(("list", "List", "Sequence")):
        return []
    if a.startswith(("dict", "Dict", "Mapping")):
        return {}
    if a.startswith(("set", "Set", "frozenset")):
        return set()
    if a.startswith(("tuple", "Tuple")):
        inner = a[a.index("[") + 1:-1] if "[" in a else ""
        return tuple(default_for(x.strip(), depth + 1) for x in inner.split(",") if x.strip() and x.strip() != "...")
    if a == "datetime":
        return _dt.datetime(2024, 1, 1)
    if a == "timedelta":
        return _dt.timedelta(0)
    if a in ("Any", "object"):
        return None
    try:
        C = find_class(a.split("[")[0].strip("'\""))
    except Exception:
        return None
    if isinstance(C, type) and issubclass(C, enum.Enum):
        return list(C)[0]
    return auto_construct(C.__name__, depth + 1) if depth < 3 else None


def auto_construct(cn, depth=0):
    import dataclasses
    C = find_class(cn)
    with contextlib.redirect_stdout(io.StringIO()):
        if dataclasses.is_dataclass(C):
            kw = {}
            for f in dataclasses.fields(C):
                if f.init and f.default is dataclasses.MISSING and f.default_factory is dataclasses.MISSING:
                    kw[f.name] = default_for(f.type, depth)
            try:
                return C(**kw)
            except Exception:
                pass
        try:
            return C()
        except Exception:
            pass
        try:
            sig = inspect.signature(C.__init__)
            kw = {pn: default_for(pp.annotation if pp.annotation is not inspect.Parameter.empty else "Any", depth)
                  for pn, pp in list(sig.parameters.items())[1:]
                  if pp.default is inspect.Parameter.empty and pp.kind in (pp.POSITIONAL_OR_KEYWORD, pp.KEYWORD_ONLY)}
            return C(**kw)
        except Exception:
            return object.__new__(C)


def build(rep, spec_mod):
    from pyvc import spec as S
    model, types_ = rep["model"], rep.get("types", {})
    log, plan = [], [dict(c) for c in rep.get("calls", [])]
    target = rep["target"]
    rel, qual = target.split("::")
    modname = rel[:-3].replace("/", ".")
    mod = importlib.import_module(modname)
    DEFAULT_HINT[0] = modname
    roots = {}
    args = {}
    cls = None
    if "." in qual:
        cname, mname = qual.split(".", 1)
        cls = getattr(mod, cname)
    else:
        mname = qual
    is_init = rep.get("is_init", False)
    # objects: self and obj-typed params
    obj_names = [n for n, t in types_.items() if t and t[0] == "obj" and "." not in n and "[" not in n]
    for n in obj_names:
        if n == "self" and is_init:
            continue
        cn = types_[n][1]
        ctor = S.REG.constructors.get(cn)
        if ctor is None:
            roots[n] = auto_construct(cn)       # no construct() hint: a benign instance built from the class's own field declarations
            continue
        C = find_class(cn, ctor["module"])
        kwargs = dict(ctor["init"])
        for k, v in list(kwargs.items()):
            if isinstance(v, str) and v.startswith("@new:"):
                sub = S.REG.constructors[v[5:]]
                kwargs[k] = find_class(v[5:], sub["module"])(**sub["init"])
            elif isinstance(v, str) and v.startswith("@enum:"):
                en, mem = v[6:].split(".")
                kwargs[k] = getattr(find_class(en, ctor["module"]), mem)
        with contextlib.redirect_stdout(io.StringIO()):
            roots[n] = C(**kwargs)
    # nested objects first (shorter paths first), then scalars
    names = sorted(model, key=lambda s: (s.count("."), s))
    tuples = {}
    nones = {n[:-5] for n in names if n.endswith("#none") and model[n] is True}
    for n in names:
        if "@" in n or "!" in n and not n.startswith(tuple(roots)):
            continue
        base = n.split("#")[0]
        root = base.split(".")[0].split("[")[0]
        ty = types_.get(base)
        if n.endswith("#none"):
            if model[n] is True and root in roots and "." in base:
                try:
                    set_path(roots, base, None)
                except AttributeError:
                    pass
            elif model[n] is True and "." not in base:
                args[base] = None
            continue
        if any(base == x or base.startswith(x + ".") for x in nones):
            continue
        if n.endswith("#members"):
            if root in roots and "." in base and isinstance(model[n], list):
                try:
                    set_path(roots, base, set(model[n]))
                except (AttributeError, TypeError):
                    pass
            continue
        if n.endswith("#held") or n.endswith("#arr") or n.endswith("#dom") or n.endswith("#size"):
            continue
        if n.endswith("#len"):
            if root in roots and "." in base and "[" not in base:
                try:
                    set_path(roots, base, [None] * min(int(model[n]), 5000))
                except AttributeError:
                    pass
            elif "." not in base and "[" not in base and ty and ty[0] == "list" and int(model[n]) == 0:
                args[base] = []            # an empty list parameter (non-empty symbolic lists cannot be realised by this builder)
            continue
        if "[" in base:
            # components of a tuple-typed field / parameter:  X[0], X[1] ... -> X = (v0, v1, ...)
            import re as _re
            m_ = _re.fullmatch(r"(.+)\[(\d+)\]", base)
            tt = types_.get(m_.group(1)) if m_ else None
            if m_ and tt and tt[0] == "tuple" and not n.endswith(("#len", "#none")):
                tuples.setdefault(m_.group(1), {})[int(m_.group(2))] = (model[n], tt[1 + int(m_.group(2))] if 1 + int(m_.group(2)) < len(tt) else None)
            continue
        if ty is None:
            continue
        if ty[0] == "opt" and ty[1] and ty[1][0] in ("int", "real", "bool", "str", "enum", "datetime", "timedelta"):
            pass          # a present optional scalar (the #none flag was handled above)
        elif ty[0] in ("obj", "list", "dict", "set", "lock", "tuple", "any", "callback", "opt"):
            continue
        try:
            v = conv(model[n], ty)
        except Exception:
            continue
        if root in roots and "." in base:
            try:
                set_path(roots, base, v)
            except AttributeError:
                pass
        elif "." not in base:
            args[base] = v
    for base_, comps in tuples.items():
        tt = types_.get(base_)
        vals = []
        for i_ in range(len(tt) - 1):
            mv, ct = comps.get(i_, (None, tt[1 + i_]))
            try:
                vals.append(conv(mv, ct) if mv is not None else default_for({"int": "int", "real": "float", "str": "str", "bool": "bool"}.get(ct[0], "Any")))
            except Exception:
                vals.append(None)
        root_ = base_.split(".")[0]
        if root_ in roots and "." in base_:
            try:
                set_path(roots, base_, tuple(vals))
            except AttributeError:
                pass
        elif "." not in base_:
            args[base_] = tuple(vals)
    # callbacks and locks
    for n, ty in types_.items():
        if not ty:
            continue
        root = n.split(".")[0]
        t = ty
        if t[0] == "opt":
            if n in nones:
                continue
            t = t[1]
        if t[0] == "callback":
            if root in roots and "." in n and "[" not in n:
                try:
                    set_path(roots, n, Script(n, log, plan))
                except AttributeError:
                    pass
            elif "." not in n and "[" not in n and "@" not in n and "#" not in n:
                args[n] = Script(n, log, plan)
        if t[0] == "lock" and root in roots and "[" not in n:
            try:
                set_path(roots, n, InstrumentedLock(reentrant=(t[1] == "RLock")))
            except AttributeError:
                pass
    # havocked collaborator methods (e.g. self.executor.express): install scripts on the real collaborator objects
    for p_ in plan:
        nm = p_["name"]
        root = nm.split(".")[0]
        rt = types_.get(nm + "#ret")
        if rt and rt[0] == "obj" and p_.get("outcome") == "return":
            p_["value"] = make_obj(rt[1], nm + "#ret", model, types_)
        if root in roots and "." in nm:
            try:
                cur = roots[root]
                for part in nm.split(".")[1:-1]:
                    cur = getattr(cur, part)
                if not isinstance(getattr(cur, nm.split(".")[-1], None), Script):
                    setattr(cur, nm.split(".")[-1], Script(nm, log, plan))
            except Exception:
                pass
    # object-typed parameters are passed too (only those the real function declares)
    try:
        import inspect
        fobj = getattr(cls, mname) if cls is not None else getattr(mod, mname)
        pnames = set(inspect.signature(fobj).parameters)
        for n_, o_ in roots.items():
            if n_ != "self" and n_ in pnames:
                args.setdefault(n_, o_)
        for n_ in list(args):
            if n_ not in pnames and not any(p.kind == p.VAR_KEYWORD for p in inspect.signature(fobj).parameters.values()):
                del args[n_]
    except (TypeError, ValueError, AttributeError):
        pass
    return mod, cls, mname, roots, args, log


def run_once(rep, path):
    out = {"confirmed": False, "observed": "", "replay": path}
    try:
        from pyvc import spec as S
        S.REG.clear()
        cpath = os.path.join(os.path.dirname(HERE), rep["contract_file"])
        specm = importlib.util.spec_from_file_location("contract_native", cpath)
        cmod = importlib.util.module_from_spec(specm)
        specm.loader.exec_module(cmod)
        hook = getattr(cmod, "native_replay", None)
    except Exception as e:
        out["observed"] = "replay construction failed: " + "".join(traceback.format_exception_only(type(e), e)).strip()
        out["error"] = True
        return out
    # 1. the counter-model itself: build the pre-state on the real classes, run the real function, evaluate the failed clause natively
    g = dict(out)
    if rep.get("kind") != "scan":
        try:
            g = generic_replay(rep, path, cmod, dict(out))
        except Exception as e:      # noqa
            g["observed"] = "replay construction failed: " + "".join(traceback.format_exception_only(type(e), e)).strip()
            g["error"] = True
    if g.get("confirmed") or hook is None:
        return g
    # 2. the contract file's witness finder (bounded search on the real code)
    try:
        r = hook(rep)
    except Exception as e:      # noqa
        tb = traceback.extract_tb(e.__traceback__)
        in_repo = bool(tb) and "/operon_ai/" in tb[-1].filename and "/verif/" not in tb[-1].filename
        allowed = rep.get("raises_allowed") or []
        bad_exc = not any(type(e).__name__ == a or a in [c.__name__ for c in type(e).__mro__] for a in allowed)
        if in_repo and rep.get("kind") == "raises" and bad_exc:
            return {"confirmed": True, "replay": path, "found_by": "witness search on the real code",
                    "observed": f"the code under test raised {type(e).__name__}: {e} ({tb[-1].name}, line {tb[-1].lineno}) during the witness search"}
        r = {"confirmed": False, "replay": path, "error": True,
             "observed": "witness search failed: " + "".join(traceback.format_exception_only(type(e), e)).strip()}
    if r is None:
        return g
    if not r.get("confirmed") and g.get("observed") and not g.get("error"):
        r = dict(r, observed=f"{r.get('observed')} || model replay: {g.get('observed')}")
    return r


def generic_replay(rep, path, cmod, out):
    mod, cls, mname, roots, args, log = build(rep, cmod)
    olds = {id(o): snapshot(o) for o in roots.values()}
    old_args = {k: snapshot(v) for k, v in args.items()}

    def old(x):
        return olds.get(id(x), x)

    res = {}

    def call():
        try:
            with contextlib.redirect_stdout(io.StringIO()), fake_clock(mod, rep.get("model", {})):
                if rep.get("is_init"):
                    res["self"] = cls(**args)
                    res["value"] = None
                elif "self" in roots:
                    res["value"] = getattr(roots["self"], mname)(**args)
                else:
                    res["value"] = getattr(mod, mname)(**args)
        except ReentryDetected as e:
            res["reentry"] = str(e)
        except BaseException as e:      # noqa
            res["exc"] = e

    th = threading.Thread(target=call, daemon=True)
    th.start()
    th.join(float(rep.get("timeout", 5)))
    kind = rep["kind"]
    if th.is_alive():
        out["observed"] = "call did not return within the watchdog timeout"
        out["confirmed"] = kind in ("lock-reentry", "raises", "post", "always")
        out["hang"] = True
        print(json.dumps(out))
        sys.stdout.flush()
        os._exit(0)
    if "reentry" in res:
        out["observed"] = res["reentry"]
        out["confirmed"] = kind == "lock-reentry" or True
        return out
    if kind == "lock-reentry":
        out["observed"] = "no re-acquisition observed"
        return out
    exc = res.get("exc")
    if kind == "raises":
        allowed = rep.get("raises_allowed") or []
        if exc is not None and not any(type(exc).__name__ == a or a in [c.__name__ for c in type(exc).__mro__] for a in allowed):
            out["confirmed"] = True
            out["observed"] = f"raised {type(exc).__name__}: {exc}"
        else:
            out["observed"] = "no disallowed exception" if exc is None else f"raised allowed {type(exc).__name__}"
        return out
    if exc is not None and kind in ("post", "inv-preserved", "inv-init") and kind != "xpost":
        out["observed"] = f"call raised {type(exc).__name__}: {exc} (clause is for normal exits)"
        return out
    env = {k: v for k, v in vars(cmod).items() if not k.startswith("__")}
    env.update(args)
    env.update(roots)
    if rep.get("is_init"):
        env["self"] = res.get("self")
    def _calls_to(suf):
        return len([c for c in log if c["name"].endswith(suf)])

    def _raised(suf):
        return any(c["name"].endswith(suf) and c.get("outcome") == "raise" for c in log)

    def _returned(suf):
        for c in reversed(log):
            if c["name"].endswith(suf) and c.get("outcome") == "return":
                return c.get("ret")
        return None

    def _encodable(x):
        try:
            x.encode()
            return True
        except UnicodeError:
            return False

    env.update({"calls_to": _calls_to, "raised": _raised, "returned": _returned, "encodable": _encodable,
                "clock_first": lambda: _model_clock(rep, 0), "clock_last": lambda: _model_clock(rep, -1)})
    env.update({"result": res.get("value"), "old": old, "exc": type(exc).__name__ if exc is not None else None,
                "implies": lambda a, b: (not a) or bool(b), "iff": lambda a, b: bool(a) == bool(b),
                "calls": log, "ncalls": len(log)})
    for k, v in rep.get("clause_env", {}).items():
        env[k] = roots.get(v, env.get(v))
    for n in dir(mod):
        env.setdefault(n, getattr(mod, n))
        if not n.startswith("__"):
            vars(cmod).setdefault(n, getattr(mod, n))      # specification functions of the contract file see the target module's names
    for k_ in ("implies", "iff", "old", "calls_to", "raised", "returned", "encodable"):
        vars(cmod).setdefault(k_, env[k_])
    try:
        val = eval(rep["clause"], env)
        out["confirmed"] = not bool(val)
        out["observed"] = f"clause evaluated to {bool(val)} natively; result={res.get('value')!r}"
    except Exception as e:
        out["observed"] = "clause evaluation failed natively: " + "".join(traceback.format_exception_only(type(e), e)).strip()
        out["error"] = True
        if rep.get("is_init") and isinstance(e, AttributeError) and env.get("self") is not None and \
                f"'{type(env['self']).__name__}' object has no attribute" in str(e):
            # the constructor returned without binding a field the clause speaks about: the clause cannot hold
            out["confirmed"] = True
            out["error"] = False
            out["observed"] = f"the constructor left a field unbound: {e}"
    return out


class _Clock:
    """the model's clock readings (now, now!1, ...) served in order; afterwards the last one (the engine assumes a monotone clock)"""

    def __init__(self, model):
        import re as _re
        ks = sorted((k for k in model if _re.fullmatch(r"now(!\d+)?", k)), key=lambda k: int(k.split("!")[1]) if "!" in k else 0)
        self.vals = []
        for k in ks:
            v = model[k]
            self.vals.append(float(Fraction(v["num"], v["den"])) if isinstance(v, dict) and "num" in v else float(v) if not isinstance(v, dict) else 0.0)
        self.i = 0

    def next(self):
        if not self.vals:
            return 0.0
        v = self.vals[min(self.i, len(self.vals) - 1)]
        self.i += 1
        return v


@contextlib.contextmanager
def fake_clock(mod, model):
    """datetime.now()/utcnow() and time.time()/monotonic()/perf_counter() as seen from the target module read the model's clock"""
    import datetime as _dt, time as _time, types as _types
    clock = _Clock(model)
    if not clock.vals:
        yield
        return
    saved = {}

    class FakeDT(_dt.datetime):
        @classmethod
        def now(cls, tz=None):
            return _dt.datetime.fromtimestamp(1_700_000_000 + clock.next())

        @classmethod
        def utcnow(cls):
            return _dt.datetime.fromtimestamp(1_700_000_000 + clock.next())
    if getattr(mod, "datetime", None) is _dt.datetime:
        saved["datetime"] = mod.datetime
        mod.datetime = FakeDT
    elif getattr(mod, "datetime", None) is _dt:
        saved["datetime"] = mod.datetime
        fm = _types.SimpleNamespace(**{k: getattr(_dt, k) for k in dir(_dt) if not k.startswith("__")})
        fm.datetime = FakeDT
        mod.datetime = fm
    # `import time` may be local to the function: patch the functions on the time module itself (threading keeps its own reference to monotonic)
    tsaved = {k: getattr(_time, k) for k in ("time", "monotonic", "perf_counter")}
    me = threading.get_ident()
    for k in tsaved:
        setattr(_time, k, (lambda real: (lambda: clock.next() if threading.get_ident() == me else real()))(tsaved[k]))
    try:
        yield
    finally:
        for k, v in tsaved.items():
            setattr(_time, k, v)
        for k, v in saved.items():
            setattr(mod, k, v)


def _model_clock(rep, which):
    """first / last clock reading of the model (the call ran under fake_clock with exactly these readings)"""
    import datetime as _dt
    c = _Clock(rep.get("model", {}))
    if not c.vals:
        return _dt.datetime.now()
    return _dt.datetime.fromtimestamp(1_700_000_000 + c.vals[which])


def xcheck_file(path):
    """CPython cross-check of the encoder: each entry carries a model of one symbolic path and the outcome the engine predicts for it.
    Build that pre-state, run the real function, compare return value / exception class / scalar fields.  Prints one JSON line."""
    from pyvc import spec as S
    data = json.load(open(path))
    out = {"checked": 0, "agree": 0, "skipped": 0, "disagreements": []}
    loaded = None

    def same(pred, got):
        if pred == "?":
            return True
        if isinstance(pred, dict) and "enum" in pred:
            return isinstance(got, enum.Enum) and got.name == pred["member"]
        if isinstance(pred, dict) and "tuple" in pred:
            return isinstance(got, tuple) and len(got) == len(pred["tuple"]) and all(same(a, b) for a, b in zip(pred["tuple"], got))
        if isinstance(pred, dict) and "real" in pred:
            pr = pred["real"]
            pf = float(Fraction(pr["num"], pr["den"])) if isinstance(pr, dict) and "num" in pr else (float(str(pr.get("approx", "0")).rstrip("?")) if isinstance(pr, dict) else float(pr))
            if pred.get("unit") == "timedelta":
                got = got.total_seconds() if hasattr(got, "total_seconds") else got
            if pred.get("unit") == "datetime":
                return True           # absolute clock readings are not comparable
            try:
                return abs(float(got) - pf) <= 1e-6 * max(1.0, abs(pf))
            except (TypeError, ValueError):
                return False
        if isinstance(pred, bool) or isinstance(got, bool):
            return isinstance(got, bool) and isinstance(pred, bool) and pred == got
        if isinstance(pred, int) and isinstance(got, float):
            return abs(got - pred) <= 1e-6 * max(1.0, abs(pred))
        return pred == got
    for rep in data:
        try:
            if loaded != rep["contract_file"]:
                S.REG.clear()
                cpath = os.path.join(os.path.dirname(HERE), rep["contract_file"])
                specm = importlib.util.spec_from_file_location("contract_native", cpath)
                cmod = importlib.util.module_from_spec(specm)
                specm.loader.exec_module(cmod)
                loaded = rep["contract_file"]
            mod, cls, mname, roots, args, log = build(rep, cmod)
        except Exception as e:      # the state builder cannot realise this model: not a verdict about the encoder
            out["skipped"] += 1
            out.setdefault("skip_reasons", {}).setdefault(type(e).__name__ + ": " + str(e)[:60], 0)
            out["skip_reasons"][type(e).__name__ + ": " + str(e)[:60]] += 1
            continue
        res = {}

        def call():
            try:
                with contextlib.redirect_stdout(io.StringIO()), fake_clock(mod, rep["model"]):
                    if rep.get("is_init"):
                        res["self"] = cls(**args)
                        res["value"] = None
                    elif "self" in roots:
                        res["value"] = getattr(roots["self"], mname)(**args)
                    else:
                        res["value"] = getattr(mod, mname)(**args)
            except BaseException as e:      # noqa
                res["exc"] = e
        th = threading.Thread(target=call, daemon=True)
        th.start()
        th.join(5)
        if th.is_alive():
            out["skipped"] += 1
            continue
        pred = rep["predicted"]
        out["checked"] += 1
        bad = []
        exc = res.get("exc")
        if isinstance(exc, ReentryDetected) or (isinstance(exc, TypeError) and "required positional argument" in str(exc)):
            out["checked"] -= 1          # the state builder could not supply a parameter: not a verdict about the encoder
            out["skipped"] += 1
            continue
        if (exc is None) != (pred["exc"] is None):
            bad.append(f"engine predicts {'exception ' + str(pred['exc']) if pred['exc'] else 'a normal return'}, CPython {'raised ' + type(exc).__name__ + ': ' + str(exc)[:80] if exc else 'returned ' + repr(res.get('value'))[:80]}")
        elif exc is not None:
            names = [c_.__name__ for c_ in type(exc).__mro__]
            if pred["exc"] not in names and not pred.get("arbitrary_exc"):
                bad.append(f"engine predicts {pred['exc']}, CPython raised {type(exc).__name__}")
        elif not same(pred["result"], res.get("value")):
            bad.append(f"return value: engine {pred['result']!r}, CPython {res.get('value')!r}")
        if exc is None or True:
            robj = dict(roots)
            if rep.get("is_init"):
                robj["self"] = res.get("self")
            for fpath, pv_ in pred["fields"].items():
                root, _, attr = fpath.partition(".")
                o = robj.get(root)
                if o is None or "." in attr or not hasattr(o, attr):
                    continue
                got = getattr(o, attr)
                if isinstance(got, (list, dict, set)) or callable(got) and not isinstance(got, enum.Enum):
                    continue
                if not same(pv_, got):
                    bad.append(f"field {fpath}: engine {pv_!r}, CPython {got!r}")
        if bad:
            out["disagreements"].append({"target": rep["target"], "path": rep["path"], "model": rep["model"], "what": bad[:4]})
        else:
            out["agree"] += 1
    print(json.dumps(out, default=str))
    return 0


def variants(rep):
    """bounded search around the counter-model: collaborator results are re-drawn from the string constants of the
    target module (the model of a havocked callee need not be realisable by the real callee)"""
    import itertools, re as _re
    rel = rep["target"].split("::")[0]
    try:
        src = open(os.path.join(REPO, rel), encoding="utf-8").read()
    except OSError:
        return
    consts = sorted(set(_re.findall(r'["\']([A-Z][A-Z_]{2,20})["\']', src)))[:12]
    model, types_ = rep["model"], rep.get("types", {})
    keys = [k for k, t in types_.items() if t and t[0] == "str" and "#ret." in k and k in model]
    calls = rep.get("calls", [])
    if not keys or not consts:
        return
    n = 0
    for combo in itertools.product(consts, repeat=len(keys)):
        n += 1
        if n > 600:
            return
        r2 = json.loads(json.dumps(rep))
        for k, v in zip(keys, combo):
            r2["model"][k] = v
        yield r2, dict(zip(keys, combo))


def main():
    if sys.argv[1] == "--xcheck":
        return xcheck_file(sys.argv[2])
    path = sys.argv[1]
    rep = json.load(open(path))
    out = run_once(rep, path)
    if not out.get("confirmed") and not out.get("error") and rep.get("kind") != "lock-reentry":
        tried = 0
        for r2, change in variants(rep):
            tried += 1
            o2 = run_once(r2, path)
            if o2.get("confirmed"):
                o2["found_by"] = f"bounded search over collaborator results ({tried} variants)"
                o2["witness_overrides"] = change
                out = o2
                break
        else:
            out["variants_tried"] = tried
    print(json.dumps(out, default=str))
    return 0


if __name__ == "__main__":
    sys.exit(main())
